import Karp.Driver.C09
import Karp.Driver.Loop

/-- driver for property C09 only -/
def main : IO Unit := Karp.Driver.runDriver (fun _ => pure Karp.Driver.C09.handle)
