import Karp.Driver.C15
import Karp.Driver.Loop

/-- driver for property C15 only -/
def main : IO Unit := Karp.Driver.runDriver (fun _ => pure Karp.Driver.C15.handle)
