import Karp.Driver.C14
import Karp.Driver.Loop

/-- driver for property C14 only -/
def main : IO Unit := Karp.Driver.runDriver (fun _ => pure Karp.Driver.C14.handle)
