import Karp.Driver.C02
import Karp.Driver.Loop

/-- driver for property C02 only -/
def main : IO Unit := Karp.Driver.runDriver (fun _ => pure Karp.Driver.C02.handle)
