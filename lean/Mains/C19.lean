import Karp.Driver.C19
import Karp.Driver.Loop

/-- driver for property C19 only -/
def main : IO Unit := Karp.Driver.runDriver (fun _ => pure Karp.Driver.C19.handle)
