import Karp.Driver.C07
import Karp.Driver.Loop

/-- driver for property C07 only -/
def main : IO Unit := Karp.Driver.runDriver (fun _ => pure Karp.Driver.C07.handle)
