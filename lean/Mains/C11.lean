import Karp.Driver.C11
import Karp.Driver.Loop

/-- driver for property C11 only -/
def main : IO Unit := Karp.Driver.runDriver (fun _ => pure Karp.Driver.C11.handle)
