import Karp.Driver.C13
import Karp.Driver.Loop

/-- driver for property C13 only -/
def main : IO Unit := Karp.Driver.runDriver (fun _ => pure Karp.Driver.C13.handle)
