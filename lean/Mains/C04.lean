import Karp.Driver.C04
import Karp.Driver.Loop

/-- driver for property C04 only -/
def main : IO Unit := Karp.Driver.runDriver (fun _ => pure Karp.Driver.C04.handle)
