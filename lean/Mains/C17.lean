import Karp.Driver.C17
import Karp.Driver.Loop

/-- driver for property C17 only -/
def main : IO Unit := Karp.Driver.runDriver (fun _ => pure Karp.Driver.C17.handle)
