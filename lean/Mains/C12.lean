import Karp.Driver.C12
import Karp.Driver.Loop

/-- driver for property C12 only -/
def main : IO Unit := Karp.Driver.runDriver (fun _ => pure Karp.Driver.C12.handle)
