import Karp.Driver.C18
import Karp.Driver.Loop

/-- driver for property C18 only -/
def main : IO Unit := Karp.Driver.runDriver (fun _ => pure Karp.Driver.C18.handle)
