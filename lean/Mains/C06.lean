import Karp.Driver.C06
import Karp.Driver.Loop

/-- driver for property C06 only -/
def main : IO Unit := Karp.Driver.runDriver (fun _ => pure Karp.Driver.C06.handle)
