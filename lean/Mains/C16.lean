import Karp.Driver.C16
import Karp.Driver.Loop

/-- driver for property C16 only -/
def main : IO Unit := Karp.Driver.runDriver (fun _ => pure Karp.Driver.C16.handle)
