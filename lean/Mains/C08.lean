import Karp.Driver.C08
import Karp.Driver.Loop

/-- driver for property C08 only -/
def main : IO Unit := Karp.Driver.runDriver (fun _ => pure Karp.Driver.C08.handle)
