import Karp.Driver.C05
import Karp.Driver.Loop

/-- driver for property C05 only -/
def main : IO Unit := Karp.Driver.runDriver (fun _ => pure Karp.Driver.C05.handle)
