import Karp.Driver.C20
import Karp.Driver.Loop

/-- driver for property C20 only -/
def main : IO Unit := Karp.Driver.runDriver (fun _ => pure Karp.Driver.C20.handle)
