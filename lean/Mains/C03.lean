import Karp.Driver.C03
import Karp.Driver.Loop

/-- driver for property C03 only -/
def main : IO Unit := Karp.Driver.runDriver (fun _ => pure Karp.Driver.C03.handle)
