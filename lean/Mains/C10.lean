import Karp.Driver.C10
import Karp.Driver.Loop

/-- driver for property C10 only -/
def main : IO Unit := Karp.Driver.runDriver (fun _ => pure Karp.Driver.C10.handle)
