import Karp.Driver.C01
import Karp.Driver.Loop

/-- driver for property C01 only -/
def main : IO Unit := Karp.Driver.runDriver (fun _ => pure Karp.Driver.C01.handle)
