import Karp.Driver.Proto
import Karp.Model.ClusterState
import Karp.Model.ClusterStateExt
import Karp.Spec.ClusterAbs
import Karp.Spec.ClusterAbsDs

namespace Karp.Driver.C11
open Lean Karp.Driver Karp.ClusterState Karp.Spec.ClusterAbs Karp.Spec.ClusterAbsDs

/-- one event of the harness: a model event, ONE call of MarkForDeletion / UnmarkForDeletion with several provider ids, or a
    Pod reconcile during which PersistentVolume / StorageClass reads fail -/
inductive DEv
  | one (e : Event)
  | markMany (pids : List String)
  | unmarkMany (pids : List String)
  | recPodFaulty (name : String)

/-- the single-event reading (API, ghost, universe, preconditions) -/
def DEv.events : DEv → List Event
  | .one e => [e]
  | .markMany l => l.map .mark
  | .unmarkMany l => l.map .unmark
  | .recPodFaulty n => [.recPod n]

def DEv.isApi : DEv → Bool
  | .one e => e.isApi
  | _ => false

/-! ## Parsing the history -/

def resOf (l : List Int) (withPods : Bool) : Res :=
  -- node/claim capacity: [cpu, memory, pods, ext]; pod requests: [cpu, memory, ext]
  if withPods then { cpu := l.getD 0 0, mem := l.getD 1 0, pods := l.getD 2 0, ext := l.getD 3 0 }
  else { cpu := l.getD 0 0, mem := l.getD 1 0, ext := l.getD 2 0 }

def intListD (j : Json) (k : String) : Except String (List Int) :=
  match fldOpt j k with | none => pure [] | some v => intList v

def strD (j : Json) (k : String) : Except String String :=
  match fldOpt j k with | none => pure "" | some v => asStr v

structure World where
  /-- PVC name → driver ("" = the PVC does not exist) -/
  pvcs : List (String × String)

def parsePvcs (inp : Json) : Except String World := do
  let l ← arrF inp "pvcs"
  let ps ← l.mapM (fun j => do pure ((← strF j "n"), (← strD j "d")))
  pure { pvcs := ps }

/-- `scheduling.GetVolumes`: a PVC that does not exist is skipped; the volume id is "namespace/name" -/
def resolveVols (w : World) (names : List String) : List Vol :=
  names.foldl (fun acc n =>
    match w.pvcs.find? (·.1 = n) with
    | some (_, d) => if d = "" then acc else (if acc.contains (d, "default/" ++ n) then acc else acc ++ [(d, "default/" ++ n)])
    | none => acc) []

def parsePort (j : Json) : Except String HostPort := do
  let ip ← strD j "ip"
  pure { ip := if ip = "" then "0.0.0.0" else ip, port := (← natF j "port"), proto := (← strF j "proto") }

def parseEvent1 (w : World) (i : Nat) (j : Json) : Except String Event := do
  let t ← strF j "t"
  let name ← strD j "name"
  match t with
  | "node" =>
    let lims ← (← arrD j "lim").mapM (fun l => do
      let n ← intF l "n"
      pure ((← strF l "d"), if n < 0 then none else some n.toNat))
    pure (.setNode { name := name, pid := (← strD j "pid"), pool := (← strD j "pool"), reg := (← boolD j "reg" false),
                     init := (← boolD j "init" false), it := (← boolD j "it" false), cap := resOf (← intListD j "cap") true,
                     del := (← boolD j "del" false), limits := lims, ver := i })
  | "nodeGone" => pure (.delNode name)
  | "claim" =>
    pure (.setClaim { name := name, pid := (← strD j "pid"), pool := (← strD j "pool"), cap := resOf (← intListD j "cap") true,
                      del := (← boolD j "del" false), term := (← boolD j "term" false),
                      managed := !(← boolD j "unmanaged" false), ver := i })
  | "claimGone" => pure (.delClaim name)
  | "pod" =>
    -- `del` (deletionTimestamp set: a gracefully terminating pod) is deliberately NOT read: `podutils.IsTerminal` looks at the
    -- phase only, at both sites (`fact_pod_release_predicate`), and by the property's text a pod that is still bound and not in a
    -- terminal phase counts; neither the model nor the specification may depend on it.
    let phase ← strD j "phase"
    let req := resOf (← intListD j "req") false
    let lim := resOf (← intListD j "lm") false
    let ports ← (← arrD j "ports").mapM parsePort
    let vols ← match fldOpt j "vols" with | none => pure [] | some v => strList v
    pure (.setPod { name := name, node := (← strD j "node"), terminal := phase = "Succeeded" || phase = "Failed",
                    req := { req with pods := 1 }, lim := { lim with pods := 1 }, ds := (← boolD j "ds" false),
                    cost := evictionCost (← intO j "dc") (← intO j "prio"), ports := ports, vols := resolveVols w vols, ver := i })
  | "podGone" => pure (.delPod name)
  | "rn" => pure (.recNode name)
  | "rc" => pure (.recClaim name)
  | "rp" => pure (.recPod name)
  | "mark" => pure (.mark (← strD j "pid"))
  | "unmark" => pure (.unmark (← strD j "pid"))
  | "nominate" => pure (.nominate (← strD j "pid"))
  | _ => throw s!"bad event type {t}"

def parseEvent (w : World) (i : Nat) (j : Json) : Except String DEv := do
  let t ← strF j "t"
  let pids ← match fldOpt j "pids" with | none => pure [] | some v => strList v
  match t with
  | "mark" => if pids.isEmpty then pure (.one (← parseEvent1 w i j)) else pure (.markMany pids)
  | "unmark" => if pids.isEmpty then pure (.one (← parseEvent1 w i j)) else pure (.unmarkMany pids)
  | "rpf" => pure (.recPodFaulty (← strD j "name"))
  | _ => pure (.one (← parseEvent1 w i j))

/-! ## The observation universe (same derivation as `universeOf` in the harness) -/

structure Universe where
  pools : List String
  claims : List String
  pods : List String
  drivers : List String
  pvcIDs : List String

def sortDedup (l : List String) : List String :=
  let a := l.toArray.qsort (· < ·)
  a.toList.foldr (fun x acc => match acc with | y :: _ => if x = y then acc else x :: acc | [] => [x]) []

def universeOf (w : World) (evs : List Event) : Universe :=
  let pools := "" :: evs.filterMap (fun e => match e with | .setNode n => some n.pool | .setClaim c => some c.pool | _ => none)
  let claims := evs.filterMap (fun e => match e with | .setClaim c => some c.name | .delClaim k => some k | .recClaim k => some k | _ => none)
  let pods := evs.filterMap (fun e => match e with | .setPod p => some p.name | .delPod k => some k | .recPod k => some k | _ => none)
  let drivers := (w.pvcs.filterMap (fun p => if p.2 = "" then none else some p.2)) ++
    (evs.flatMap (fun e => match e with | .setNode n => n.limits.map (·.1) | _ => []))
  { pools := sortDedup pools, claims := sortDedup claims, pods := sortDedup pods, drivers := sortDedup drivers,
    pvcIDs := sortDedup (w.pvcs.map (fun p => "default/" ++ p.1)) }

/-! ## Rendering an observation -/

/-- what both the model's StateNode and the specification's AbsNode are projected to before rendering -/
structure ObsNode where
  pid : String
  name : String
  nodeTag : String
  claimTag : String
  pool : String
  reg : Bool
  init : Bool
  marked : Bool
  deleted : Bool
  nominated : Bool
  cap : Res
  req : Res
  lim : Res
  dreq : Res
  dlim : Res
  cost : Int
  ports : Map (List HostPort)
  volumes : List Vol
  limits : Map Nat

def sumMap (m : Map Res) : Res := m.foldr (fun e acc => e.2.add acc) Res.zero

def tagN : Option NodeObj → String | some n => s!"{n.name}#{n.ver}" | none => ""
def tagC : Option ClaimObj → String | some c => s!"{c.name}#{c.ver}" | none => ""

def obsOfSNode (_pid : String) (s : SNode) : ObsNode :=
  { pid := s.providerID, name := s.name, nodeTag := tagN s.node, claimTag := tagC s.claim, pool := s.pool,
    reg := s.registered, init := s.initialized, marked := s.markedForDeletion, deleted := s.deleted, nominated := s.nominated,
    cap := s.capacity, req := sumMap s.podReq, lim := sumMap s.podLim, dreq := sumMap s.dsReq, dlim := sumMap s.dsLim,
    cost := costUnit + s.costs.foldr (fun e acc => e.2 + acc) 0, ports := s.ports, volumes := s.volumes, limits := s.limits }

def obsOfAbs (a : AbsNode) : ObsNode :=
  { pid := a.pid, name := a.name, nodeTag := tagN a.node?, claimTag := tagC a.claim?, pool := a.pool,
    reg := a.registered, init := a.initialized, marked := a.markedForDeletion, deleted := a.deleted, nominated := a.nominated,
    cap := a.capacity, req := a.requests, lim := a.limits, dreq := a.dsRequests, dlim := a.dsLimits,
    cost := a.cost, ports := a.ports, volumes := a.volumes, limits := a.volLimits }

def jRes (r : Res) : Json := jArr [jInt r.cpu, jInt r.mem, jInt r.pods, jInt r.ext, jInt r.nodes]

def probeIPs : List String := ["0.0.0.0", "10.0.0.1", "10.0.0.2", "10.0.0.3"]
def probePorts : List Nat := [80, 443]
def probeProtos : List String := ["TCP", "UDP"]
def portProbes : List HostPort :=
  probeIPs.flatMap fun ip => probePorts.flatMap fun port => probeProtos.map fun proto => { ip := ip, port := port, proto := proto }

def hostPortMask (reserved : Map (List HostPort)) (usedBy : String) : Nat :=
  (portProbes.foldl (fun (acc : Nat × Nat) pr =>
    (if portsConflict reserved usedBy [pr] then acc.1 + 2 ^ acc.2 else acc.1, acc.2 + 1)) (0, 0)).1

def volProbes (u : Universe) : List (List Vol) :=
  let fresh := ["~f1", "~f2", "~f3"]
  [[]] ++ u.drivers.flatMap fun d =>
    ([1, 2, 3].map fun j => (fresh.take j).map fun f => (d, f)) ++
    (u.pvcIDs.flatMap fun x => [0, 1, 2].map fun j => (d, x) :: (fresh.take j).map fun f => (d, f))

def renderNode (u : Universe) (probes : List (List Vol)) (o : ObsNode) : Json :=
  let fl := (if o.reg then "R" else "") ++ (if o.init then "I" else "") ++ (if o.marked then "M" else "") ++
            (if o.deleted then "D" else "") ++ (if o.nominated then "N" else "")
  let hp := hostPortMask o.ports "zz-probe" :: u.pods.map (hostPortMask o.ports)
  let vol := String.ofList (probes.map fun pr => if volExceeds o.volumes o.limits pr then '1' else '0')
  jObj [("pid", jStr o.pid), ("name", jStr o.name), ("node", jStr o.nodeTag), ("claim", jStr o.claimTag), ("pool", jStr o.pool),
        ("fl", jStr fl), ("cap", jRes o.cap), ("req", jRes o.req), ("lim", jRes o.lim), ("dreq", jRes o.dreq), ("dlim", jRes o.dlim),
        ("cost", jInt o.cost), ("hp", jArr (hp.map jNat)), ("vol", jStr vol)]

def sortNodes (l : List ObsNode) : List ObsNode := (l.toArray.qsort (fun a b => a.pid < b.pid)).toList

def renderView (u : Universe) (probes : List (List Vol)) (nodes : List ObsNode)
    (poolRes : String → Res) (counts : String → Nat × Nat × Nat) (claimEx claimUn : String → Bool) : Json :=
  jObj [("nodes", jArr ((sortNodes nodes).map (renderNode u probes))),
        ("pools", jArr (u.pools.map fun p =>
          let (a, d, pd) := counts p
          jObj [("name", jStr p), ("res", jRes (poolRes p)), ("cnt", jArr [jNat a, jNat d, jNat pd])])),
        ("claims", jArr (u.claims.map fun c =>
          jStr (c ++ ":" ++ (if claimEx c then "E" else "-") ++ (if claimUn c then "U" else "-"))))]

def modelView (u : Universe) (probes : List (List Vol)) (c : Cluster) : Json :=
  renderView u probes (c.nodes.map fun (pid, s) => obsOfSNode pid s)
    (fun p => c.poolRes.getD p Res.zero) (fun p => c.np.counts p)
    (fun n => c.claimNameToPid.has n) (fun n => c.claimNameToPid.get n = some "")

def absView (u : Universe) (probes : List (List Vol)) (api : Api) (g : Ghost) : Json :=
  renderView u probes ((absNodes api g).map obsOfAbs)
    (fun p => absPoolRes api g p) (fun p => let (a, d) := absCounts api g p; (a, d, 0))
    (fun n => absClaimExists api n) (fun n => absClaimUnlaunched api n)

/-! ## Difference reporting -/

partial def diffJson (path : String) : Json → Json → Option String
  | .arr a, .arr b =>
    if a.size ≠ b.size then some s!"{path}: {a.size} vs {b.size} entries: {(Json.arr a).compress} vs {(Json.arr b).compress}"
    else (List.range a.size).findSome? fun i => diffJson s!"{path}[{i}]" a[i]! b[i]!
  | .obj a, .obj b =>
    let ka := a.toList.map (·.1)
    let kb := b.toList.map (·.1)
    if ka ≠ kb then some s!"{path}: keys {ka} vs {kb}"
    else a.toList.findSome? fun (k, v) =>
      match b.toList.find? (·.1 = k) with
      | some (_, w) =>
        let tag := match v.getObjVal? "pid" with | .ok (.str p) => s!"<{p}>" | _ => ""
        diffJson s!"{path}{tag}.{k}" v w
      | none => some s!"{path}.{k} missing"
  | x, y => if jsonEq x y then none else some s!"{path}: {x.compress} vs {y.compress}"

/-! ## The op -/

structure StepObs where
  i : Nat
  r : String
  v : Option Json
  q : Bool

def parseSteps (impl : Json) : Except String (List StepObs) := do
  (← arrF impl "steps").mapM fun j => do
    pure { i := (← natF j "i"), r := (← strD j "r"), v := fldOpt j "v", q := (← boolD j "q" false) }

def recStr : RecResult → String | .ok => "ok" | .requeue => "requeue" | .none => ""

/-- one harness event against the model: the new cache and the reconcile result class ("err" = the reconcile returned the
    error of the failed volume lookup) -/
def stepD (fx : Fixes) (c : Cluster) (api : Api) : DEv → Except String (Cluster × String)
  | .one e => match c.step fx api e with | .ok (c', r) => .ok (c', recStr r) | .error e => .error e
  | .markMany l => .ok (c.markMany l, "")
  | .unmarkMany l => .ok (c.unmarkMany l, "")
  | .recPodFaulty n =>
    match c.recPodFaulty fx api n with
    | .ok ((c', r), failed) => .ok (c', if failed then "err" else recStr r)
    | .error e => .error e

/-- the node objects of a rendered view -/
def nodesOf (v : Json) : List Json := match v.getObjVal? "nodes" with | .ok (.arr a) => a.toList | _ => []
def fieldOf (o : Json) (k : String) : Json := match o.getObjVal? k with | .ok v => v | _ => Json.null
def pidOf (o : Json) : String := match o.getObjVal? "pid" with | .ok (.str p) => p | _ => "?"

def nodeFields : List String := ["pid", "name", "node", "claim", "pool", "fl", "cap", "req", "lim", "dreq", "dlim", "cost", "hp", "vol"]

/-- The property's verdict at a quiescent point: the implementation's view equals the from-scratch view `abs`.
    When not `strict`, a field of a state node is exempted exactly where the recorded defects make a difference,
    i.e. where the model of the code as it is (`cur`) and the model with the proposed repairs (`fixed`) differ. -/
def specCompare (strict : Bool) (cur fixed abs impl : Json) : Option String :=
  let an := nodesOf abs
  let im := nodesOf impl
  if an.map pidOf ≠ im.map pidOf then
    some s!"state nodes: specification {an.map pidOf} vs implementation {im.map pidOf}"
  else
    let cn := nodesOf cur
    let fn := nodesOf fixed
    let nodeDiff := (an.zip im).findSome? fun (a, i) =>
      let pid := pidOf a
      let c := cn.find? (fun x => pidOf x = pid)
      let f := fn.find? (fun x => pidOf x = pid)
      nodeFields.findSome? fun k =>
        let exempt := !strict && (match c, f with
          | some c, some f => !jsonEq (fieldOf c k) (fieldOf f k)
          | _, _ => false)
        if exempt then none else diffJson s!"view.nodes<{pid}>.{k}" (fieldOf a k) (fieldOf i k)
    match nodeDiff with
    | some d => some d
    | none =>
      match diffJson "view.pools" (fieldOf abs "pools") (fieldOf impl "pools") with
      | some d => some d
      | none => diffJson "view.claims" (fieldOf abs "claims") (fieldOf impl "claims")

/-- Runs the model of the code as it is (`Fixes.current`), the model with the proposed repairs (`Fixes.all`), the ghost
    and the API in lockstep over the history and checks, per cache-affecting event:
    * model view = implementation view (and reconcile result class, quiescence)                   → `allowed`
    * at quiescent points of a well-formed history:
        implementation view = from-scratch specification (see `specCompare`)                       → `spec`
        the implementation's own from-scratch oracle (fresh Cluster) = specification               → `allowed`
        the repaired model = specification (otherwise an unrecorded divergence class exists)       → `allowed` -/
def history (inp impl : Json) : Except String Resp := do
  let w ← parsePvcs inp
  let strict ← boolD inp "strict" false
  let evJ ← arrF inp "ev"
  let devs ← (evJ.zipIdx).mapM (fun (j, i) => parseEvent w i j)
  let evs := devs.flatMap DEv.events
  let u := universeOf w evs
  let probes := volProbes u
  let steps ← parseSteps impl
  let fresh ← (← arrD impl "fresh").mapM (fun j => do pure ((← natF j "i"), (← fld j "v")))
  let panicAt ← natO impl "panicAt"
  let wf := wStatic evs
  let fxCur := Fixes.current
  -- state of the loop
  let mut c : Cluster := {}
  let mut cf : Cluster := {}
  let mut fixedAlive := true
  let mut api : Api := {}
  let mut g : Ghost := {}
  let mut wfRun := wf
  let mut prevImpl : Json := Json.null
  let mut stepsLeft := steps
  let mut allowed := true
  let mut whyA := ""
  let mut specOk := true
  let mut whyS := ""
  let mut specPoints := 0
  let mut exemptPoints := 0
  let mut i := 0
  let mut modelPanic : Option Nat := none
  for de in devs do
    -- a Pod reconcile that returned an error is retried by controller-runtime: its key has not been observed yet
    let implErr := match de, stepsLeft with
      | .recPodFaulty _, s :: _ => s.i == i && s.r == "err"
      | _, _ => false
    for e in de.events do
      api := api.step e
      if !(wStep g api e) then wfRun := false
      g := match implErr, e with
        | true, .recPod name => g.soil "p" name
        | _, _ => g.step api e
    if !de.isApi then
      if fixedAlive then
        match stepD Fixes.all cf api de with
        | .ok (cf', _) => cf := cf'
        | .error _ => fixedAlive := false
      match stepD fxCur c api de with
      | .error _ =>
        modelPanic := some i
        break
      | .ok (c', r) =>
        c := c'
        if panicAt == some i then
          -- the implementation panicked here, the model did not
          break
        match stepsLeft with
        | [] =>
          if allowed then
            allowed := false
            whyA := s!"event {i}: the implementation reported no step"
        | s :: rest =>
          stepsLeft := rest
          if s.i ≠ i then
            if allowed then
              allowed := false
              whyA := s!"event {i}: implementation step index {s.i}"
          let implV := match s.v with | some v => v | none => prevImpl
          prevImpl := implV
          let mv := modelView u probes c
          if allowed then
            if !jsonEq mv implV then
              allowed := false
              whyA := s!"event {i}: model vs implementation: {(diffJson "view" mv implV).getD "?"}"
            else if r ≠ s.r then
              allowed := false
              whyA := s!"event {i}: reconcile result model {r} vs implementation {s.r}"
            else if s.q ≠ g.quiescent then
              allowed := false
              whyA := s!"event {i}: quiescence model {g.quiescent} vs harness {s.q}"
          if g.quiescent && wfRun then
            let av := absView u probes api g
            let fv := if fixedAlive then modelView u probes cf else Json.null
            specPoints := specPoints + 1
            if !jsonEq mv fv then exemptPoints := exemptPoints + 1
            if specOk then
              match specCompare strict mv fv av implV with
              | some d =>
                specOk := false
                whyS := s!"event {i} (every changed object reconciled): from-scratch specification vs implementation: {d}"
              | none => pure ()
            if allowed && !jsonEq av fv then
              allowed := false
              whyA := s!"event {i}: the model with all recorded defects repaired does not equal the specification (unrecorded divergence class): {(diffJson "view" av fv).getD "?"}"
            match fresh.find? (·.1 = i) with
            | some (_, frv) =>
              if allowed && !jsonEq av frv then
                allowed := false
                whyA := s!"event {i}: specification vs the implementation's own fresh Cluster: {(diffJson "view" av frv).getD "?"}"
            | none => pure ()
    i := i + 1
  -- panics must agree
  if allowed then
    match modelPanic, panicAt with
    | some a, some b => if a ≠ b then allowed := false; whyA := s!"model panics at event {a}, implementation at {b}"
    | some a, none => allowed := false; whyA := s!"model panics (nil dereference) at event {a}, implementation does not"
    | none, some b => allowed := false; whyA := s!"implementation panics at event {b}, model does not"
    | none, none => pure ()
  -- a panic inside a well-formed history violates the property outright
  if wfRun && panicAt.isSome && specOk then
    specOk := false
    whyS := s!"the implementation panicked at event {panicAt.get!} of a well-formed history"
  pure { allowed := some allowed, spec := some specOk,
         why := if !specOk then whyS else whyA,
         extra := some (jObj [("wellFormed", jBool wfRun), ("specPoints", jNat specPoints), ("exemptPoints", jNat exemptPoints)]) }

/-! ## c11.usage: the usage trackers at component level -/

def dedupVols (l : List Vol) : List Vol := l.foldl (fun acc v => if acc.contains v then acc else acc ++ [v]) []

def parseUsageOp (j : Json) : Except String UsageOp := do
  let t ← strF j "t"
  match t with
  | "add" =>
    let vols ← (← arrD j "vols").mapM (fun v => do pure ((← strF v "d"), (← strF v "x")))
    let ports ← (← arrD j "ports").mapM parsePort
    pure (.add { name := (← strF j "k"), node := "", terminal := false, req := Res.zero, lim := Res.zero, ds := false, cost := 0,
                 ports := ports, vols := dedupVols vols, ver := 0 })
  | "del" => pure (.del (← strF j "k"))
  | "copy" => pure .copy
  | _ => throw s!"bad usage op {t}"

def renderUsage (keys drivers ids : List String) (probes : List (List Vol)) (vols : List Vol) (limits : Map Nat)
    (ports : Map (List HostPort)) : Json :=
  let vol := String.ofList (probes.map fun pr => if volExceeds vols limits pr then '1' else '0')
  let set := drivers.flatMap fun d => (ids.filter fun x => vols.contains (d, x)).map fun x => d ++ "|" ++ x
  let cnt := drivers.map fun d => volCount vols [] d
  let hp := hostPortMask ports "zz-probe" :: keys.map (hostPortMask ports)
  jObj [("vol", jStr vol), ("set", jArr (set.map jStr)), ("cnt", jArr (cnt.map jNat)), ("hp", jArr (hp.map jNat)), ("mut", jArr [])]

/-- model = fold of `usageStep` from `NewNode()` with the given limits; specification = the from-scratch table of the op prefix
    (`Spec.usageVolumes` / `usagePorts`), evaluated against what the implementation showed after every op; an altered `Add`
    argument (`mut`) is never allowed. -/
def usage (inp impl : Json) : Except String Resp := do
  let ops ← (← arrF inp "ops").mapM parseUsageOp
  let limJ ← arrD inp "limits"
  let lims ← limJ.mapM (fun l => do pure ((← strF l "d"), (← intF l "n")))
  let limits : Map Nat := lims.foldl (fun m (d, n) => if n < 0 then m else m.put d n.toNat) []
  let keys := sortDedup (ops.filterMap fun o => match o with | .add p => some p.name | .del k => some k | .copy => none)
  let allVols := ops.flatMap fun o => match o with | .add p => p.vols | _ => []
  let drivers := sortDedup (lims.map (·.1) ++ allVols.map (·.1))
  let ids := sortDedup (allVols.map (·.2))
  let probes := volProbes { pools := [], claims := [], pods := [], drivers := drivers, pvcIDs := ids }
  let implSteps ← arrF impl "steps"
  let mut s : SNode := { SNode.new with limits := limits }
  let mut modelSteps : List Json := []
  let mut specOk := true
  let mut why := ""
  let mut i := 0
  for o in ops do
    s := usageStep Fixes.current s o
    modelSteps := modelSteps ++ [renderUsage keys drivers ids probes s.volumes s.limits s.ports]
    let pre := ops.take (i + 1)
    let sv := renderUsage keys drivers ids probes (usageVolumes pre) limits (usagePorts pre)
    if specOk then
      match implSteps[i]? with
      | none =>
        specOk := false
        why := s!"op {i}: the implementation reported no step"
      | some iv =>
        match diffJson "usage" sv iv with
        | some d =>
          specOk := false
          why := s!"after op {i}: from-scratch table of the tracked pod keys vs implementation: {d}"
        | none => pure ()
    i := i + 1
  pure { model := some (jObj [("steps", jArr modelSteps)]), spec := some specOk, why := why }

/-! ## c11.daemonsets: the per-DaemonSet pod cache -/

def parseDsEvent (i : Nat) (j : Json) : Except String DsEvent := do
  let t ← strF j "t"
  let name ← strF j "name"
  match t with
  | "ds" => pure (.setDs { name := name, uid := (← strD j "uid") })
  | "dsGone" => pure (.delDs name)
  | "pod" =>
    let nat (k : String) : Except String Nat := do match (← natO j k) with | some n => pure n | none => pure 0
    let cpu ← match (← intO j "cpu") with | some n => pure n | none => pure 0
    pure (.setPod { name := name, uid := (← strD j "uid"), ver := i, ct := (← nat "ct"), own := (← strD j "own"), cpu := cpu, tol := (← nat "tol") })
  | "podGone" => pure (.delPod name)
  | "rd" => pure (.recDs name)
  | _ => throw s!"bad daemonset event type {t}"

def parseDsEntry (j : Json) : Except String (String × Option DPod) := do
  let ds ← strF j "ds"
  if !(← boolF j "has") then pure (ds, none)
  else pure (ds, some { name := (← strF j "pn"), uid := (← strF j "pu"), ver := (← natF j "pv"), ct := (← natF j "ct"),
                        own := (← strF j "own"), cpu := (← intF j "cpu"), tol := (← natF j "tol") })

def entryNe (a b : Option DPod) : Bool := decide (a ≠ b)

def showEntry : Option DPod → String
  | none => "none"
  | some p => s!"{p.name}(uid {p.uid}, version {p.ver}, created {p.ct}, cpu {p.cpu}, tolerations {p.tol})"

/-- the class of a from-scratch violation of one entry -/
def dsClass (api : DsApi) (name : String) (entry : Option DPod) : String :=
  match api.dss.get name, entry with
  | none, _ => "kept-after-daemonset-gone"
  | some _, none => "missing"
  | some d, some e =>
    let owned := ownedPods api d
    if owned.isEmpty then "kept-without-owned-pod"
    else if owned.contains e then "not-newest"
    else if owned.any (fun q => q.name = e.name && q.uid = e.uid) then "stale-version"
    else "pod-not-owned-or-gone"

/-- model (relation, the List order of the pods is unspecified) vs implementation after every reconcile; at quiescent points
    (every DaemonSet key reconciled since the last change of any DaemonSet or pod) the specification `dsFreshOk` is evaluated on
    what the implementation returns, and on the implementation's own fresh Cluster. When not `strict`, an entry is exempted
    exactly where the recorded defect makes a difference (the DaemonSet exists and controls no pod while the code as it is keeps
    whatever was cached). -/
def daemonsets (inp impl : Json) : Except String Resp := do
  let strict ← boolD inp "strict" false
  let evs ← ((← arrF inp "ev").zipIdx).mapM (fun (j, i) => parseDsEvent i j)
  let names := sortDedup (evs.filterMap fun e => match e with | .setDs d => some d.name | .delDs k => some k | .recDs k => some k | _ => none)
  let steps ← arrF impl "steps"
  let fresh ← (← arrD impl "fresh").mapM (fun j => do pure ((← natF j "i"), (← (← arrF j "v").mapM parseDsEntry)))
  let mut api : DsApi := {}
  let mut cache : DsCache := []
  let mut dirty : List String := []
  let mut stepsLeft := steps
  let mut allowed := true
  let mut whyA := ""
  let mut specOk := true
  let mut whyS := ""
  let mut sig := ""
  let mut specPoints := 0
  let mut exemptPoints := 0
  let mut i := 0
  for e in evs do
    api := api.step e
    match e with
    | .recDs name =>
      dirty := dirty.filter (· ≠ name)
      match stepsLeft with
      | [] =>
        if allowed then
          allowed := false
          whyA := s!"event {i}: the implementation reported no step"
      | s :: rest =>
        stepsLeft := rest
        let entries ← (← arrF s "v").mapM parseDsEntry
        let q ← boolF s "q"
        let get (n : String) : Option DPod := match entries.find? (·.1 = n) with | some (_, e) => e | none => none
        if allowed then
          if (← natF s "i") ≠ i then
            allowed := false
            whyA := s!"event {i}: implementation step index"
          else if (← strF s "r") ≠ "ok" then
            allowed := false
            whyA := s!"event {i}: the reconcile returned an error"
          else if entries.map (·.1) ≠ names then
            allowed := false
            whyA := s!"event {i}: entries {entries.map (·.1)} vs DaemonSet names {names}"
          else if !recDsAllowed dsForgetCurrent cache api name (get name) then
            allowed := false
            whyA := s!"event {i}: reconcile of {name}: the implementation caches {showEntry (get name)}, which the model does not allow (cached before: {showEntry (cache.get name)})"
          else
            match names.find? (fun n => decide (n ≠ name) && entryNe (get n) (cache.get n)) with
            | some n =>
              allowed := false
              whyA := s!"event {i}: reconcile of {name} changed the entry of {n}: {showEntry (cache.get n)} -> {showEntry (get n)}"
            | none => pure ()
          if q ≠ dirty.isEmpty then
            allowed := false
            whyA := s!"event {i}: quiescence model {dirty.isEmpty} vs harness {q}"
        -- follow the implementation's choice
        cache := names.foldl (fun m n => match get n with | some p => m.put n p | none => m.erase n) cache
        if dirty.isEmpty then
          specPoints := specPoints + 1
          for n in names do
            let exempt := !strict && !dsForgetCurrent &&
              (match api.dss.get n with | some d => (pickNewest d none api.pods.vals).isNone | none => false)
            if exempt && (get n).isSome then exemptPoints := exemptPoints + 1
            if specOk && !exempt && !dsFreshOk api n (get n) then
              specOk := false
              sig := (if strict then "witness:" else "") ++ "dspod:" ++ dsClass api n (get n)
              whyS := s!"event {i} (every DaemonSet reconciled after the last change): GetDaemonSetPod({n}) returns {showEntry (get n)}; from scratch: " ++
                (match api.dss.get n with
                 | none => "the DaemonSet does not exist: no entry"
                 | some d => s!"one of the newest pods it controls, in its current version: {(ownedPods api d).map (fun p => showEntry (some p))}")
          match fresh.find? (·.1 = i) with
          | some (_, fe) =>
            for n in names do
              let fv : Option DPod := match fe.find? (·.1 = n) with | some (_, e) => e | none => none
              if allowed && !dsFreshOk api n fv then
                allowed := false
                whyA := s!"event {i}: the implementation's own fresh Cluster returns {showEntry fv} for {n}, which the specification rejects"
          | none => pure ()
    | _ => dirty := names
    i := i + 1
  pure { allowed := some allowed, spec := some specOk, why := if !specOk then whyS else whyA,
         extra := some (jObj ([("specPoints", jNat specPoints), ("exemptPoints", jNat exemptPoints)] ++
                              (if sig = "" then [] else [("signature", jStr sig)]))) }

def handle : Handler := fun op inp impl =>
  match op with
  | "c11.history" => history inp impl
  | "c11.orders" => history inp impl
  | "c11.usage" => usage inp impl
  | "c11.daemonsets" => daemonsets inp impl
  | _ => .error s!"unknown op {op}"

end Karp.Driver.C11
