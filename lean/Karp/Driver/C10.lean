import Karp.Driver.Proto
import Karp.Model.Drain
import Karp.Model.Rfc3339
import Karp.Spec.Drain

namespace Karp.Driver.C10
open Lean Karp.Driver Karp.Drain
open Karp.Gen

/-! ## from the Kubernetes-level pod description to what the drain logic reads -/

structure Tol where
  key : String
  op : String
  val : String
  eff : String

/-- the names the abstraction of a pod depends on -/
structure Tables where
  critical : List String
  nodeOwner : String × String
  dsOwner : String × String
  taintKey : String
  taintValue : String
  taintEffect : String

/-- as the code has them (regenerated from the source): used for the model -/
def genTables : Tables :=
  { critical := C10Drain.criticalPriorityClasses, nodeOwner := C10Drain.nodeOwner, dsOwner := C10Drain.daemonSetOwner,
    taintKey := C10Drain.disruptedNoScheduleTaintKey, taintValue := C10Drain.disruptedNoScheduleTaintValue,
    taintEffect := C10Drain.disruptedNoScheduleTaintEffect }

/-- as Kubernetes and the property text define them: used for the specification.  "critical" = the two system
    priority classes; static pod = owned by a `v1` `Node`; daemon pod = owned by an `apps/v1` `DaemonSet`;
    disruption taint = `karpenter.sh/disrupted:NoSchedule`. -/
def specTables : Tables :=
  { critical := ["system-cluster-critical", "system-node-critical"], nodeOwner := ("v1", "Node"),
    dsOwner := ("apps/v1", "DaemonSet"), taintKey := "karpenter.sh/disrupted", taintValue := "",
    taintEffect := "NoSchedule" }

/-- `Toleration.ToleratesTaint` (Kubernetes rule, modelled) for the disruption taint
    (the numeric operators never match a non-numeric taint value) -/
def tolTolerates (tb : Tables) (t : Tol) : Bool :=
  (t.eff.isEmpty || t.eff == tb.taintEffect) &&
  (t.key.isEmpty || t.key == tb.taintKey) &&
  (if t.op == "" || t.op == "Equal" then t.val == tb.taintValue
   else if t.op == "Exists" then true
   else if t.op == "Lt" || t.op == "Gt" then
     -- compareNumericValues: both values must be decimal integers; the taint's value is not
     false
   else false)

/-- units of `time.ParseDuration` -/
def unitNs (u : String) : Option Int :=
  match u with
  | "ns" => some 1
  | "us" => some 1000
  | "µs" => some 1000
  | "μs" => some 1000
  | "ms" => some 1000000
  | "s" => some 1000000000
  | "m" => some 60000000000
  | "h" => some 3600000000000
  | _ => none

/-- `time.ParseDuration` restricted to values without a fraction: `[+-]?(digits unit)+` or `0`.
    `none` = parse error. -/
def parseDuration (s : String) : Option Int :=
  let cs := s.toList
  let (neg, cs) := match cs with
    | '-' :: r => (true, r)
    | '+' :: r => (false, r)
    | r => (false, r)
  if cs == ['0'] then some 0
  else if cs.isEmpty then none
  else
    let rec go (fuel : Nat) (cs : List Char) (acc : Int) : Option Int :=
      match fuel with
      | 0 => none
      | fuel + 1 =>
        if cs.isEmpty then some acc
        else
          let ds := cs.takeWhile Char.isDigit
          let rest := cs.dropWhile Char.isDigit
          if ds.isEmpty then none
          else
            let n : Int := ds.foldl (fun a c => a * 10 + (c.toNat - '0'.toNat : Nat)) 0
            let us := rest.takeWhile (fun c => !(c.isDigit || c == '.'))
            let rest' := rest.dropWhile (fun c => !(c.isDigit || c == '.'))
            match unitNs (String.ofList us) with
            | none => none
            | some m => go fuel rest' (acc + n * m)
    match go (cs.length + 1) cs 0 with
    | none => none
    | some v => some (if neg then -v else v)

def parseDnd (v : Option String) : Except String Dnd :=
  match v with
  | none => pure .absent
  | some s =>
    if s == "true" then pure .forever
    else if s.contains '.' then throw s!"do-not-disrupt value {s} is outside the modelled vocabulary (fractions)"
    else match parseDuration s with
      | none => pure .invalid
      | some d => if d ≤ 0 then pure .invalid else pure (.dur d)

def parseTol (j : Json) : Except String Tol := do
  pure { key := (← strF j "key"), op := (← strF j "op"), val := (← strF j "val"), eff := (← strF j "eff") }

def parseOwner (j : Json) : Except String (String × String) := do
  match (← asArr j) with
  | [a, b] => pure ((← asStr a), (← asStr b))
  | _ => throw "owner must be [apiVersion, kind]"

def parsePod (tb : Tables) (idx : Nat) (j : Json) : Except String Pod := do
  let prio ← strF j "prio"
  let owners ← (← arrF j "owners").mapM parseOwner
  let tols ← (← arrF j "tols").mapM parseTol
  let grace ← intO j "grace"
  let dnd ← parseDnd (← strO j "dnd")
  let start ← intO j "start"
  let phase ← strF j "phase"
  let del ← intO j "del"
  let other ← boolF j "other"
  pure {
    uid := idx
    onNode := !other
    terminal := phase == "Succeeded" || phase == "Failed"
    del := del.map (· * sec)
    grace := grace
    tolerates := tols.any (tolTolerates tb)
    static := owners.any (· == tb.nodeOwner)
    daemon := owners.any (· == tb.dsOwner)
    critical := tb.critical.contains prio
    dnd := dnd
    start := start.map (· * sec) }

/-! ## c10.preds -/

def preds (inp impl : Json) : Except String Resp := do
  let p ← parsePod genTables 0 (← fld inp "pod")
  let ps ← parsePod specTables 0 (← fld inp "pod")
  let now ← intF inp "now"
  let D ← intO inp "d"
  let model := jObj [
    ("terminal", jBool p.terminal),
    ("terminating", jBool (isTerminating p)),
    ("active", jBool (isActive p)),
    ("stuck", jBool (isStuckTerminating p now)),
    ("tolerates", jBool p.tolerates),
    ("static", jBool p.static),
    ("daemon", jBool p.daemon),
    ("dndActive", jBool (dndActive p now)),
    ("disruptable", jBool (isDisruptable p now)),
    ("drainable", jBool (isDrainable p now)),
    ("waiting", jBool (isWaitingEviction p now)),
    ("evictable", jBool (isEvictable p now)),
    ("forcedEligible", jBool (forcedEligible p D))]
  -- the property's reading of the predicates, on what the real code answered
  let (ok, why) ← match fldOpt impl "evictable" with
    | none => pure (false, "implementation produced no verdicts (panic?)")
    | some _ => do
      let ev ← boolF impl "evictable"
      let wt ← boolF impl "waiting"
      let dr ← boolF impl "drainable"
      let fe ← boolF impl "forcedEligible"
      let pOn := { ps with onNode := true }
      let tol ← boolF impl "tolerates"
      let st ← boolF impl "static"
      let dm ← boolF impl "daemon"
      if tol != ps.tolerates then
        pure (false, s!"ToleratesDisruptedNoScheduleTaint = {tol} but by the Kubernetes toleration rule the pod {if ps.tolerates then "tolerates" else "does not tolerate"} karpenter.sh/disrupted:NoSchedule")
      else if st != ps.static then
        pure (false, s!"IsOwnedByNode = {st} disagrees with: owned by a v1 Node")
      else if dm != ps.daemon then
        pure (false, s!"IsOwnedByDaemonSet = {dm} disagrees with: owned by an apps/v1 DaemonSet")
      else if ev && !Spec.Drain.mayEvict ps now then
        pure (false, "IsEvictable is true for a pod the property forbids to evict (terminal/terminating, static, tolerating or actively do-not-disrupt)")
      else if !ev && Spec.Drain.mayEvict ps now then
        pure (false, "IsEvictable is false for a pod that may be evicted")
      else if wt != Spec.Drain.mustWait pOn now then
        pure (false, s!"IsWaitingEviction = {wt} but the drain {if wt then "must not" else "must"} wait for this pod")
      else if dr && Spec.Drain.untouchable ps then
        pure (false, "IsDrainable is true for a static or tolerating pod")
      else if fe != (Spec.Drain.strictlyPastD ps D now && ps.del.isSome) then
        pure (false, "IsPodEligibleForForcedEviction disagrees with: terminating and deletionTimestamp after the node deadline")
      else pure (true, "")
  pure { model := some model, spec := some ok, why := why }

/-! ## histories -/

def parseEvictAns (s : String) : Except String EvictAns :=
  match s with
  | "ok" => pure .ok | "gone" => pure .gone | "429" => pure .tooMany | "multi" => pure .multiPdb
  | "404" => pure .notFound | "409" => pure .conflict | "500" => pure .other
  | _ => throw s!"bad eviction answer {s}"

def parseDeleteAns (s : String) : Except String DeleteAns :=
  match s with
  | "ok" => pure .ok | "gone" => pure .gone | "404" => pure .notFound | "500" => pure .other
  | _ => throw s!"bad delete answer {s}"

def parseMut (s : String) : Except String Mut :=
  match s with
  | "cleardnd" => pure .cleardnd | "succeed" => pure .succeed | "gone" => pure .gone
  | "replace" => pure .replace | "kill" => pure .kill
  | _ => throw s!"bad mutation {s}"

/-- the harness's time origin (`base` in harness/internal/c10/world.go) in Unix nanoseconds: every time in the
    protocol is an offset from it -/
def harnessEpochNs : Int := 1800000000 * 1000000000

/-- the value of the termination-timestamp annotation, read as RFC 3339, as an offset from the harness's origin -/
def parseAnnotation (raw : String) : Option Int :=
  (Karp.Rfc3339.parse raw.toList).map (· - harnessEpochNs)

/-- what the termination controller finds for the node: `c` = NodeClaim shape ("" = exactly one, "none", "dup" =
    two NodeClaims with the node's provider id), `a` = raw annotation value (null: derived from `d`, or absent
    when `d` is null too) -/
def parseSrc (j : Json) : Except String DeadlineSrc := do
  let c := (← strO j "c").getD ""
  let a ← strO j "a"
  let d ← intO j "d"
  match c with
  | "none" | "dup" => pure .noClaim
  | "" =>
    match a, d with
    | some raw, _ => pure (.annotation (parseAnnotation raw))
    | none, some t => pure (.annotation (some t))
    | none, none => pure .noAnnotation
  | _ => throw s!"bad NodeClaim shape {c}"

def parseStep (npods : Nat) (j : Json) : Except String Step := do
  let k ← strF j "k"
  match k with
  | "add" =>
    let ps ← natList (← fld j "ps")
    if ps.any (· ≥ npods) then throw "bad pod index"
    pure (.add (← intO j "d") ps)
  | "drain" => pure (.drain (← intO j "d"))
  | "node" => pure (.node (← parseSrc j))
  | "rec" =>
    let p ← natF j "p"
    if p ≥ npods then throw "bad pod index"
    pure (.recon p (← parseEvictAns (← strF j "eo")) (← parseDeleteAns (← strF j "do")))
  | "tick" =>
    let ns ← intF j "ns"
    if ns < 0 then throw "negative tick"
    pure (.tick ns)
  | "mut" =>
    let p ← natF j "p"
    if p ≥ npods then throw "bad pod index"
    pure (.change p (← parseMut (← strF j "m")))
  | _ => throw s!"bad step {k}"

def insertSorted (e : Nat × Option Int) : Items → Items
  | [] => [e]
  | x :: xs => if e.1 ≤ x.1 then e :: x :: xs else x :: insertSorted e xs

def sortItems (q : Items) : Items := q.foldl (fun acc e => insertSorted e acc) []

def jItems (q : Items) : Json :=
  jArr ((sortItems q).map (fun (u, d) => jObj [("u", jNat u), ("d", jOptInt d)]))

def jCall : Call → Json
  | .evict u => jObj [("k", jStr "evict"), ("u", jNat u), ("g", Json.null), ("pre", jBool true)]
  | .delete u g => jObj [("k", jStr "delete"), ("u", jNat u), ("g", jInt g), ("pre", jBool true)]

def jStepOut (o : StepOut) : Json :=
  jObj [("r", jStr o.r), ("calls", jArr (o.calls.map jCall)), ("items", jItems o.items)]

structure ImplCall where
  call : Option Call      -- none = not expressible (e.g. delete without a grace period)
  pre : Bool
  u : Int

def parseImplCall (j : Json) : Except String ImplCall := do
  let k ← strF j "k"
  let u ← intF j "u"
  let pre ← boolF j "pre"
  let g ← intO j "g"
  if u < 0 then pure { call := none, pre := pre, u := u }
  else match k, g with
    | "evict", _ => pure { call := some (.evict u.toNat), pre := pre, u := u }
    | "delete", some g => pure { call := some (.delete u.toNat g), pre := pre, u := u }
    | _, _ => pure { call := none, pre := pre, u := u }

def parseImplItems (j : Json) : Except String Items := do
  (← asArr j).mapM (fun e => do
    let u ← intF e "u"
    if u < 0 then throw "queue holds a pod that is not part of the scenario"
    pure (u.toNat, (← intO e "d")))

/-- which rule of a drain pass under deadline `D` was broken (diagnostics only) -/
def explainDrain (s : State) (D : Option Int) (I' : Items) (calls : List Call) (r : String) : String :=
  let I := s.q
  let pods := livePods s
  if r == "error" then "drain pass failed with an unexpected error"
  else if !calls.isEmpty then "the drain pass itself sent a removal request"
  else if !Spec.Drain.keptAndMonotone I I' then "a queued pod was dropped or its deadline moved later / was cleared by a drain pass"
  else if !Spec.Drain.admittedOK pods D s.now I I' then
    let bad := (Spec.Drain.keys I').find? (fun u =>
      !(qget I' u == qget I u ||
        (pods.any (fun p => p.uid == u && Spec.Drain.enqueueOK pods p D s.now)
          && qget I' u == some (Spec.Drain.dmin ((qget I u).getD none) D))))
    match bad with
    | none => "admission rule"
    | some u =>
      match pods.find? (fun p => p.uid == u) with
      | none => s!"pod {u} was queued although the API server does not list it"
      | some p =>
        if !Spec.Drain.mustWait p s.now then
          s!"pod {u} was queued although the drain must not touch it (finished, static, tolerating the disruption taint, stuck terminating, or on another node)"
        else if !Spec.Drain.enqueueOK pods p D s.now then
          s!"daemon or critical pod {u} was queued for eviction while a non-critical non-daemon pod still awaits graceful eviction"
        else s!"pod {u} is stored under a deadline other than the earlier of its previous deadline and this pass's"
  else if !Spec.Drain.dueQueued pods D s.now I' then
    match pods.find? (fun p => Spec.Drain.enqueueDue p D s.now &&
        !(match qget I' p.uid with | some e' => Spec.Drain.dle e' D | none => false)) with
    | none => "due rule"
    | some p =>
      let kind := if Spec.Drain.strictlyPastD p D s.now then "past deadline-minus-grace" else "non-critical non-daemon"
      if (qget I' p.uid).isNone then s!"pod {p.uid} ({kind}) is waited for but was not queued by this pass"
      else s!"pod {p.uid} ({kind}) is queued under a deadline later than this pass's (or none)"
  else if !Spec.Drain.verdictOK pods s.now (r == "drained") then "drain reported completion while pods are still waited for"
  else "drain rule"

/-- which rule of the specification a step broke (diagnostics only; the verdict is `Spec.Drain.stepOK`) -/
def explain (strict : Bool) (s : State) (st : Step) (I' : Items) (calls : List Call) (r : String) : String :=
  let I := s.q
  match st with
  | .drain D => explainDrain s D I' calls r
  | .node src =>
    if Spec.Drain.unreadable src then
      if r == "error" then "a controller pass that reported an error changed the queue or sent a removal request"
      else
        let madeUp := (Spec.Drain.keys I').find? (fun u =>
          match qget I' u with
          | some (some _) => !(qget I' u == qget I u)
          | _ => false)
        match madeUp with
        | some u =>
          s!"the NodeClaim's termination timestamp is not a timestamp, so no instant is the node deadline, yet pod {u} was queued under the deadline {((qget I' u).getD none).getD 0} ns (offset from the harness origin): a deadline of the controller's own making, under which the pod can be deleted directly"
        | none =>
          "the NodeClaim's termination timestamp cannot be read (no instant is the node deadline), yet the pass did not drain as for a node without a deadline: "
            ++ explainDrain s none I' calls r
    else explainDrain s (Spec.Drain.knownDeadline src) I' calls r
  | .recon i _ _ =>
    match s.pods[i]? with
    | none => "bad pod index"
    | some w =>
      if w.gone then "a pod that no longer exists was acted upon"
      else
        let p := w.pod
        if !Spec.Drain.onlyDrops I I' p.uid then "reconcile changed queue entries other than dropping the reconciled pod"
        else if calls.length > 1 then "more than one removal request in one reconcile"
        else match calls.find? (fun c => !Spec.Drain.callOK p s.now I strict c) with
          | none => "reconcile rule"
          | some (.evict u) =>
            if u != p.uid then "eviction of another pod"
            else if (qget I u).isNone then "eviction of a pod that is not queued"
            else "eviction of a pod that must not be evicted (terminal/terminating, static, tolerating the disruption taint, or actively do-not-disrupt)"
          | some (.delete u g) =>
            if u != p.uid then "delete of another pod"
            else match qget I u with
              | none => "direct delete of a pod that is not queued"
              | some none => "direct delete although the pod is queued without a node deadline"
              | some (some d) =>
                if g < 1 then s!"direct delete with grace period {g}"
                else if !Spec.Drain.pastThreshold p d s.now then "direct delete earlier than node deadline minus the pod's own grace period"
                else if !(s.now + g * sec ≤ d || g == 1) then s!"direct delete with grace {g}s that extends past the deadline the pod is queued under"
                else "direct delete of a static or tolerating pod"
  | .tick _ => "queue changed / request sent without a Karpenter step"
  | .change _ _ => "queue changed / request sent without a Karpenter step"
  | .add _ _ => "Queue.Add dropped an entry, moved a deadline later, or stored a deadline other than the earlier one"

/-- the property's verdict on what the real code did, step by step.  The API server state is advanced
    with the requests the implementation actually sent (not with the model's). -/
def judgeImpl (s0 : State) (steps : List Step) (implSteps : List Json) (strict : Bool) : Except String (Bool × String) := do
  let mut s := s0
  let mut idx := 0
  for (st, jo) in steps.zip implSteps do
    let I' ← parseImplItems (← fld jo "items")
    let ics ← (← arrF jo "calls").mapM parseImplCall
    let r ← strF jo "r"
    if ics.any (fun c => c.call.isNone) then
      return (false, s!"step {idx}: a removal request that cannot be attributed (unknown pod, or Delete without gracePeriodSeconds)")
    if ics.any (fun c => !c.pre) then
      return (false, s!"step {idx}: a removal request without the UID precondition of the pod it was decided for")
    let calls := ics.filterMap (·.call)
    if !Spec.Drain.stepOK strict s st I' calls r then
      return (false, s!"step {idx}: {explain strict s st I' calls r}")
    s := advance s st I' calls
    idx := idx + 1
  if implSteps.length != steps.length then
    return (false, "implementation reported a different number of steps")
  return (true, "")

def history (inp impl : Json) : Except String Resp := do
  let podsJ ← arrF inp "pods"
  let pods ← (podsJ.zipIdx).mapM (fun (j, i) => parsePod genTables i j)
  let podsSpec ← (podsJ.zipIdx).mapM (fun (j, i) => parsePod specTables i j)
  let now ← intF inp "now"
  if now < 0 then throw "negative initial clock"
  let steps ← (← arrF inp "steps").mapM (parseStep pods.length)
  let s0 : State := initState now pods
  let outs := runModel s0 steps
  let model := jObj [("steps", jArr (outs.map jStepOut))]
  let strict := steps.all (fun st => match st with | .add _ _ => false | _ => true)
  let (ok, why) ← match fldOpt impl "steps" with
    | none => pure (false, "implementation produced no step list (panic or harness error)")
    | some js => judgeImpl (initState now podsSpec) steps (← asArr js) strict
  pure { model := some model, spec := some ok, why := why }

def handle : Handler := fun op inp impl =>
  match op with
  | "c10.preds" => preds inp impl
  | "c10.reconcile" | "c10.drain" | "c10.history" | "c10.controller" => history inp impl
  | _ => .error s!"unknown op {op}"

end Karp.Driver.C10
