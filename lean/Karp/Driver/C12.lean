import Karp.Driver.ReqJson

namespace Karp.Driver.C12
open Lean Karp.Driver Karp.Driver.ReqJson Karp.Req Karp.Spec.K8s

/-- `c12.new`: one constructor call.  in: {key, op, values, minValues}; impl: snapshot | {"panic":..} -/
def opNew (inp impl : Json) : Except String Resp := do
  let key ← strF inp "key"
  let e ← parseExpr inp
  let probes ← strList (← fld inp "probes")
  match Req.new key e.op e.minValues e.values with
  | .error _ =>
    -- the model says the Go code panics (index out of range on values[0]); not a property violation by itself
    pure { model := some (jObj [("panic", jStr "index-out-of-range")]), spec := some true }
  | .ok r =>
    let model := jObj [("snap", snap r), ("operator", jStr (opName r.operator)), ("len", jInt r.len),
                       ("has", jArr (probes.map (fun v => jBool (r.has v))))]
    -- property on the implementation: for validated operands, Has = Kubernetes semantics on every probe
    let (ok, why) ← match fldOpt impl "has" with
      | none => pure (false, "implementation produced no result (panic?) where the constructor must succeed")
      | some h => do
        let hs ← boolList h
        if !(validOperands e.op e.values) then pure (true, "")
        else
          let bad := (probes.zip hs).find? (fun (v, b) => b != k8sMatch e.op e.values (some v))
          match bad with
          | none => pure (true, "")
          | some (v, b) => pure (false, s!"Has({v.quote}) = {b} but Kubernetes {opName e.op} {e.values} gives {!b}")
    pure { model := some model, spec := some ok, why := why }

/-- `c12.pair`: two requirements on one key, each an intersection of constructor calls. -/
def opPair (inp impl : Json) : Except String Resp := do
  let key ← strF inp "key"
  let ea ← (← arrF inp "a").mapM parseExpr
  let eb ← (← arrF inp "b").mapM parseExpr
  let probes ← strList (← fld inp "probes")
  -- a constructor that reads `values[0]` of an empty operand list panics in Go; the model says so too
  let panicResp : Resp := { model := some (jObj [("panic", jStr "index-out-of-range")]), spec := some true }
  let a ← match build key ea with | .ok r => pure r | .error "panic" => return panicResp | .error e => throw e
  let b ← match build key eb with | .ok r => pure r | .error "panic" => return panicResp | .error e => throw e
  let ab := a.inter b
  let ba := b.inter a
  let hasRow (r : Req) := jArr (probes.map (fun v => jBool (r.has v)))
  let model := jObj [
    ("a", snap a), ("b", snap b), ("ab", snap ab), ("ba", snap ba),
    ("overlapAB", jBool (a.hasIntersection b)), ("overlapBA", jBool (b.hasIntersection a)),
    ("hasA", hasRow a), ("hasB", hasRow b), ("hasAB", hasRow ab), ("hasBA", hasRow ba),
    ("lenAB", jInt ab.len), ("opAB", jStr (opName ab.operator))]
  -- spec on the implementation's observations
  let res : Except String (Bool × String) := do
    let hA ← boolList (← fld impl "hasA")
    let hB ← boolList (← fld impl "hasB")
    let hAB ← boolList (← fld impl "hasAB")
    let hBA ← boolList (← fld impl "hasBA")
    let oAB ← boolF impl "overlapAB"
    let oBA ← boolF impl "overlapBA"
    let valid := allValid ea && allValid eb
    let rows := probes.zip (hA.zip (hB.zip (hAB.zip hBA)))
    -- (1) each operand admits exactly what Kubernetes admits for the conjunction of its expressions
    if valid then
      match rows.find? (fun (v, x, y, _, _) => x != specHas ea v || y != specHas eb v) with
      | some (v, _) => return (false, s!"operand admits {v.quote} differently from Kubernetes semantics")
      | none => pure ()
    -- (2) the intersection admits exactly the values both admit (both orders)
    match rows.find? (fun (_, x, y, z, w) => z != (x && y) || w != (x && y)) with
    | some (v, _) => return (false, s!"intersection disagrees with (Has a ∧ Has b) on {v.quote}")
    | none => pure ()
    -- (3) the quick overlap test agrees with "some value is admitted by both"
    if valid then
      let cands := candidates [ea, eb] probes
      let ex := cands.any (fun v => specHas ea v && specHas eb v)
      if oAB != ex || oBA != ex then
        return (false, s!"HasIntersection = {oAB}/{oBA} but a common admitted value {if ex then "exists" else "does not exist"}")
    -- (4) minValues of the intersection is the max
    let mvAB ← intO (← fld impl "ab") "minValues"
    if mvAB != maxOpt a.minValues b.minValues then return (false, "minValues of the intersection is not the maximum")
    pure (true, "")
  let (ok, why) := match res with
    | .ok x => x
    | .error e => (false, "implementation output unusable (panic?): " ++ e)
  pure { model := some model, spec := some ok, why := why }

def parseReqs (j : Json) : Except String (List (String × List ExprJ)) := do
  (← asArr j).mapM (fun e => do
    let k ← strF e "key"
    let es ← (← arrF e "exprs").mapM parseExpr
    pure (k, es))

def buildReqs (l : List (String × List ExprJ)) : Except String Reqs :=
  l.foldlM (fun (R : Reqs) (k, es) => do
    -- Requirements.Add of each constructed requirement in turn (as the harness does)
    let rs ← es.mapM (fun e => match Req.new k e.op e.minValues e.values with
      | .ok r => pure r
      | .error _ => throw "panic")
    pure (R.add rs)) []

/-- `c12.compat`: `A.Compatible(B, allowUndefined)` and `A.Intersects(B)` -/
def opCompat (inp impl : Json) : Except String Resp := do
  let ja ← parseReqs (← fld inp "a")
  let jb ← parseReqs (← fld inp "b")
  let allowWK ← boolF inp "allowWellKnown"
  -- the live `v1.WellKnownLabels` of the harness process (cloud providers extend the set at run time); it must contain the
  -- labels the source declares
  let runtimeWK ← match fldOpt inp "wellKnown" with
    | some j => strList j
    | none => pure Karp.Gen.Labels.wellKnownLabels
  if !(Karp.Gen.Labels.wellKnownLabels.all runtimeWK.contains) then
    return { model := none, spec := some false, why := "v1.WellKnownLabels at run time lacks a label the source declares" }
  let U := if allowWK then runtimeWK else []
  let panicResp : Resp := { model := some (jObj [("panic", jStr "index-out-of-range")]), spec := some true }
  let A ← match buildReqs ja with | .ok r => pure r | .error "panic" => return panicResp | .error e => throw e
  let B ← match buildReqs jb with | .ok r => pure r | .error "panic" => return panicResp | .error e => throw e
  -- `IsCompatible` is `Compatible = nil`; observers change nothing, so the answers after every accessor has been called are
  -- the same; `Add` builds new requirements (C12_add_*), so operands shared with a copy are kept and A+B = B+A
  let mc := A.compatible B U
  let mx := A.intersects B
  let model := jObj [("compatible", jBool mc), ("intersects", jBool mx), ("isCompatible", jBool mc), ("readsPure", jBool true),
    ("compatibleAfterReads", jBool mc), ("isCompatibleAfterReads", jBool mc), ("intersectsAfterReads", jBool mx),
    ("operandsKept", jBool true), ("sumCommutes", jBool true)]
  -- spec: key by key, does some (possibly absent) value allowed by A satisfy B?  (C12_compatible's right-hand side,
  -- evaluated with the complete candidate set)
  let allExprs := (ja.map (·.2)) ++ (jb.map (·.2))
  let cands := candidates allExprs []
  let specOk := B.all (fun (k, b) =>
    let xs : List (Option Val) := none :: cands.map some
    xs.any (fun x => nodeAllows A U k x && b.admits x))
  let res : Except String (Bool × String) := do
    let c ← boolF impl "compatible"
    if c != specOk then
      return (false, s!"Compatible = {c} but key-by-key satisfiability is {specOk}")
    if (← boolF impl "isCompatible") != specOk then
      return (false, s!"IsCompatible answers differently from key-by-key satisfiability ({specOk})")
    if (← boolF impl "compatibleAfterReads") != specOk || (← boolF impl "isCompatibleAfterReads") != specOk then
      return (false, s!"after the accessors were called on both sets Compatible/IsCompatible no longer answer {specOk}: a read changed a set")
    if !(← boolF impl "readsPure") then
      return (false, "an accessor (Get/Has/Keys/Values/String/NodeSelectorRequirements) changed the set it read")
    if (← boolF impl "intersectsAfterReads") != (← boolF impl "intersects") then
      return (false, "Intersects answers differently after the accessors were called")
    if !(← boolF impl "operandsKept") then
      return (false, "Add on a copy changed a requirement of its operands (the intersection must be a new value)")
    if !(← boolF impl "sumCommutes") then
      return (false, "A + B differs from B + A")
    pure (true, "")
  let (ok, why) := match res with
    | .ok x => x
    | .error e => (false, "implementation output unusable (panic?): " ++ e)
  pure { model := some model, spec := some ok, why := why }

/-- `c12.valuemap`: the constructor under a provider-registered value table.  Model: translate the operands by the
    table entry of the NORMALIZED key, then `Req.new`; spec: `Has` = Kubernetes semantics on the translated operands. -/
def opValueMap (inp impl : Json) : Except String Resp := do
  let key ← strF inp "key"
  let op := parseOp (← strF inp "op")
  let values ← strList (← fld inp "values")
  let probes ← strList (← fld inp "probes")
  let tableJ ← fld inp "table"
  let nk := normalizeKey key
  let entry : List (String × String) ← match fldOpt tableJ nk with
    | none => pure []
    | some (.obj kvs) => kvs.toList.mapM (fun (a, b) => do pure (a, ← asStr b))
    | some _ => throw "bad table"
  let translated := values.map (fun v => (entry.lookup v).getD v)
  match Req.new key op none translated with
  | .error _ => pure { model := some (jObj [("panic", jStr "index-out-of-range")]), spec := some true }
  | .ok r =>
    let model := jObj [("snap", snap r), ("has", jArr (probes.map (fun v => jBool (r.has v))))]
    let (ok, why) ← match fldOpt impl "has" with
      | none => pure (false, "implementation produced no result (panic?)")
      | some h => do
        let hs ← boolList h
        match (probes.zip hs).find? (fun (v, b) => b != k8sMatch op translated (some v)) with
        | none => pure (true, "")
        | some (v, b) => pure (false, s!"Has({v.quote}) = {b}, but {opName op} over the operands translated by the table of {nk} ({translated}) gives {!b}")
    pure { model := some model, spec := some ok, why := why }

/-- `c12.labels`: `NewLabelRequirements(map)`.  Model: `Requirements.Add` of `key In [value]` for every entry (any order);
    spec: a value is admitted for a normalized key iff EVERY entry whose key normalizes to it has that value. -/
def opLabels (inp impl : Json) : Except String Resp := do
  let labels ← (← arrF inp "labels").mapM (fun j => do pure ((← strF j "k"), (← strF j "v")))
  let probes ← strList (← fld inp "probes")
  let R : Reqs ← labels.foldlM (fun (R : Reqs) (k, v) =>
    match Req.new k .in_ none [v] with
    | .ok r => pure (R.add [r])
    | .error _ => throw "panic") []
  let keys := (R.keys.toArray.qsort (· < ·)).toList
  let model := jObj [("keys", jArr (keys.map (fun k =>
    jObj [("key", jStr k), ("snap", snap (R.get k)), ("has", jArr (probes.map (fun v => jBool ((R.get k).has v))))])))]
  let res : Except String (Bool × String) := do
    let ks ← arrF impl "keys"
    for kj in ks do
      let k ← strF kj "key"
      let hs ← boolList (← fld kj "has")
      let mine := labels.filter (fun (rk, _) => normalizeKey rk == k)
      for (v, b) in probes.zip hs do
        let want := !mine.isEmpty && mine.all (fun (_, lv) => lv == v)
        if b != want then
          return (false, s!"key {k}: Has({v.quote}) = {b}, but the label entries {mine} admit it = {want}")
    -- every normalized key must be present
    let implKeys ← ks.mapM (fun kj => strF kj "key")
    let wantKeys := (labels.map (fun (rk, _) => normalizeKey rk)).eraseDups
    if !(wantKeys.all implKeys.contains) then return (false, "a label key is missing from the requirements")
    pure (true, "")
  let (ok, why) := match res with
    | .ok x => x
    | .error e => (false, "implementation output unusable (panic?): " ++ e)
  pure { model := some model, spec := some ok, why := why }

/-- `c12.atoi`: the model's `atoi` against `strconv.Atoi` -/
def opAtoi (inp _impl : Json) : Except String Resp := do
  let ss ← strList (← fld inp "strings")
  let model := jArr (ss.map (fun s => let r := atoiRaw s; jObj [("v", jInt r.1), ("ok", jBool r.2)]))
  pure { model := some model }

def handle : Handler := fun op inp impl =>
  match op with
  | "c12.new" => opNew inp impl
  | "c12.pair" => opPair inp impl
  | "c12.compat" => opCompat inp impl
  | "c12.atoi" => opAtoi inp impl
  | "c12.valuemap" => opValueMap inp impl
  | "c12.labels" => opLabels inp impl
  | _ => .error s!"unknown op {op}"

end Karp.Driver.C12
