import Karp.Driver.Proto
import Karp.Model.Ring
import Karp.Spec.Window
import Karp.Spec.HealthHistory
import Karp.Model.PoolHealth
import Karp.Spec.PoolHealth

namespace Karp.Driver.C20
open Lean Karp.Driver Karp.Ring

def parseOp (s : String) : Except String Op :=
  match s with
  | "u1" => pure (.update true)
  | "u0" => pure (.update false)
  | "reset" => pure .reset
  | "setH" => pure (.set .healthy)
  | "setU" => pure (.set .unhealthy)
  | "restart" => pure .restart
  | "dry1" => pure (.dry true)
  | "dry0" => pure (.dry false)
  | "status" => pure .status
  | _ => .error s!"bad op {s}"

def firstDiff (a b : List Nat) (i : Nat := 0) : Option Nat :=
  match a, b with
  | [], [] => none
  | x :: xs, y :: ys => if x = y then firstDiff xs ys (i + 1) else some i
  | _, _ => some i

def history (inp impl : Json) : Except String Resp := do
  let ops ← (← arrF inp "ops").mapM (fun j => do parseOp (← asStr j))
  let model := (observations Tracker.new ops).map Status.toNat
  let spec := (Karp.Spec.HealthHistory.specObservations [] ops).map Status.toNat
  -- the property's verdict on what the real code did
  let (specOk, why) ← match fldOpt impl "status" with
    | none => pure (false, "implementation produced no status list (panic?)")
    | some st => do
      let got ← natList st
      match firstDiff got spec with
      | none => pure (true, "")
      | some i => pure (false, s!"observation {i}: sliding-window spec says {spec.getD i 99}, implementation reported {got.getD i 99}")
  pure { model := some (jObj [("status", jArr (model.map jNat))]), spec := some specOk, why := why }

def ringOps (inp impl : Json) : Except String Resp := do
  let cap ← natF inp "cap"
  let ops ← intList (← fld inp "ops")
  if cap = 0 then throw "cap = 0 is outside the model (the Go code panics)"
  let rec go (b : Ring Int) (log : List Int) (ops : List Int) (accI : List Json) (accL : List Json) (accS : List (List Int)) :
      List Json × List Json × List (List Int) :=
    match ops with
    | [] => (accI.reverse, accL.reverse, accS.reverse)
    | o :: rest =>
      let (b', log') := if o < 0 then (b.reset, []) else (b.insert o, log ++ [o])
      go b' log' rest (jArr (b'.items.map jInt) :: accI) (jNat b'.len :: accL) (Karp.Spec.Window.lastN cap log' :: accS)
  let (items, lens, windows) := go (Ring.new cap) [] ops [] [] []
  -- spec on the implementation: after every op the items are a permutation of the last `cap` inserts
  let (specOk, why) ← match fldOpt impl "items" with
    | none => pure (false, "implementation produced no items (panic?)")
    | some it => do
      let got ← listOf intList it
      let sortL (l : List Int) := (l.toArray.qsort (· < ·)).toList
      let ok := got.length == windows.length && (got.zip windows).all (fun (g, w) => sortL g == sortL w)
      pure (ok, if ok then "" else "items are not a permutation of the last `cap` inserted values")
  pure { model := some (jObj [("items", jArr items), ("len", jArr lens)]), spec := some specOk, why := why }

/-! ### c20.pool — event scripts through the real controllers -/

open Karp.PoolHealth (Ev Fault) in
/-- "Sa!" → ("Sa", patch), "Xs~" → ("Xs", get), "C" → ("C", none); `!` (409) and `?` (500) on the status patch
    differ only in how the controller asks for the retry -/
def splitEv (ev : String) : String × Fault :=
  if ev.endsWith "!" || ev.endsWith "?" then ((ev.dropEnd 1).toString, .patch)
  else if ev.endsWith "~" then ((ev.dropEnd 1).toString, .get)
  else (ev, .none)

open Karp.PoolHealth (Ev Fault) in
/-- what an event of the script means for pool `a` / pool `b` -/
def projectEv (pool : String) (ev : String) : Except String Ev :=
  let (base, f) := splitEv ev
  let mine (k : String) : Bool := base = k ++ pool
  let other (k : String) : Bool := base = k ++ (if pool = "a" then "b" else "a")
  if mine "S" then pure (.success f)
  else if mine "T" || mine "E" then pure (.lateSuccess f)
  else if mine "W" then pure (.slowSuccess f)
  else if mine "F" || mine "G" then pure (.failure f)
  else if mine "L" then pure (.launchFailure f)
  else if mine "Z" then pure (.lateFailure f)
  else if mine "P" then (if f = .get then .error s!"bad event {ev}" else pure (.poolEdit f))
  else if ["S", "T", "E", "W", "F", "G", "L", "Z"].any other then pure .noise
  else if other "P" then (if f = .get then .error s!"bad event {ev}" else pure .noise)
  else if base = "Xs" || base = "Xf" then pure .noise
  -- both pools are reconciled, pool a first: its patch (always issued after a NodeClass edit) meets the fault
  else if base = "C" then (if f = .get then .error s!"bad event {ev}" else pure (.classEdit (if pool = "a" then f else .none)))
  -- the NodeClass is deleted and re-created under its name: a fresh object, generation 1
  else if base = "D" then (if f = .get then .error s!"bad event {ev}" else pure (.classReplace 1 (if pool = "a" then f else .none)))
  -- NodeClass readiness flips and nodepool.readiness writes NodeClassReady, working from a copy of the NodePool that is
  -- 0..3 events old: not this condition's business
  else if ["Y0", "Y1", "Y2", "Y3"].contains ev then pure .noise
  else if ev = "R" then pure .restart
  else if ev = "N" then pure .resync
  else .error s!"bad event {ev}"

def firstDiffL (a b : List (List Nat)) (i : Nat := 0) : Option Nat :=
  match a, b with
  | [], [] => none
  | x :: xs, y :: ys => if x = y then firstDiffL xs ys (i + 1) else some i
  | _, _ => some i

def obsName (xs : List Nat) : String :=
  let c := match xs.getD 0 9 with | 0 => "Unknown" | 1 => "True" | 2 => "False" | 3 => "absent" | _ => "?"
  let st (n : Nat) := match n with | 0 => "Unknown" | 1 => "Healthy" | 2 => "Unhealthy" | _ => "?"
  s!"condition={c} tracker={st (xs.getD 1 9)} what-if(success)={st (xs.getD 2 9)} what-if(failure)={st (xs.getD 3 9)}"

def pool (inp impl : Json) : Except String Resp := do
  let steps ← (← arrF inp "steps").mapM asStr
  let one (name : String) : Except String (List (List Nat) × List (List Nat) × List (List Nat)) := do
    let evs ← steps.mapM (projectEv name)
    let model := Karp.PoolHealth.observe Karp.PoolHealth.Pool.started ::
      Karp.PoolHealth.observations Karp.PoolHealth.Pool.started evs
    let spec := Karp.Spec.PoolHealth.observe Karp.Spec.PoolHealth.S.init ::
      Karp.Spec.PoolHealth.observations Karp.Spec.PoolHealth.S.init evs
    let known := Karp.Spec.PoolHealth.observe Karp.Spec.PoolHealth.S.init ::
      Karp.Spec.PoolHealth.observationsKnown Karp.Spec.PoolHealth.S.init evs
    pure (model, spec, known)
  let (ma, sa, ka) ← one "a"
  let (mb, sb, kb) ← one "b"
  let jl (l : List (List Nat)) := jArr (l.map (fun o => jArr (o.map jNat)))
  -- the property's verdict on what the real controllers did
  let judge (name : String) (spec : List (List Nat)) : Except String (Bool × String) :=
    match fldOpt impl name with
    | none => pure (false, "implementation produced no observations (error/panic?)")
    | some j => do
      let got ← listOf natList j
      match firstDiffL got spec with
      | none => pure (true, "")
      | some i =>
        let ev := if i = 0 then "creation" else s!"step {i - 1} ({steps.getD (i - 1) "?"})"
        pure (false, s!"pool {name} after {ev}: the launch window requires [{obsName (spec.getD i [])}], the controllers left [{obsName (got.getD i [])}]")
  let (oka, whya) ← judge "a" sa
  let (okb, whyb) ← judge "b" sb
  -- classification of a violation: the known defect and nothing else iff what the controllers left is exactly the
  -- specification with every registration that met a failing NodePool call dropped (`Spec.PoolHealth.stepKnown`,
  -- written at the operator's level: it does not follow the model or the regenerated facts)
  let exactly (name : String) (want : List (List Nat)) : Bool :=
    match fldOpt impl name with
    | some j => match listOf natList j with
      | .ok got => got == want
      | .error _ => false
    | none => false
  let noAnomaly : Bool := match fldOpt impl "anomalies" with
    | some (.arr a) => a.isEmpty
    | _ => false
  let sig := if exactly "a" ka && exactly "b" kb && noAnomaly then "pool:success-lost-on-nodepool-api-failure" else "pool"
  pure { model := some (jObj [("a", jl ma), ("b", jl mb), ("anomalies", jArr [])]),
         spec := some (oka && okb), why := if !oka then whya else whyb,
         extra := if oka && okb then none else some (jObj [("signature", jStr sig)]) }

def handle : Handler := fun op inp impl =>
  match op with
  | "c20.history" => history inp impl
  | "c20.ring" => ringOps inp impl
  | "c20.pool" => pool inp impl
  | _ => .error s!"unknown op {op}"

end Karp.Driver.C20
