import Karp.Driver.Proto
import Karp.Model.Ring
import Karp.Spec.Window
import Karp.Spec.HealthHistory

namespace Karp.Driver.C20
open Lean Karp.Driver Karp.Ring

def parseOp (s : String) : Except String Op :=
  match s with
  | "u1" => pure (.update true)
  | "u0" => pure (.update false)
  | "reset" => pure .reset
  | "setH" => pure (.set .healthy)
  | "setU" => pure (.set .unhealthy)
  | "restart" => pure .restart
  | "dry1" => pure (.dry true)
  | "dry0" => pure (.dry false)
  | "status" => pure .status
  | _ => .error s!"bad op {s}"

def firstDiff (a b : List Nat) (i : Nat := 0) : Option Nat :=
  match a, b with
  | [], [] => none
  | x :: xs, y :: ys => if x = y then firstDiff xs ys (i + 1) else some i
  | _, _ => some i

def history (inp impl : Json) : Except String Resp := do
  let ops ← (← arrF inp "ops").mapM (fun j => do parseOp (← asStr j))
  let model := (observations Tracker.new ops).map Status.toNat
  let spec := (Karp.Spec.HealthHistory.specObservations [] ops).map Status.toNat
  -- the property's verdict on what the real code did
  let (specOk, why) ← match fldOpt impl "status" with
    | none => pure (false, "implementation produced no status list (panic?)")
    | some st => do
      let got ← natList st
      match firstDiff got spec with
      | none => pure (true, "")
      | some i => pure (false, s!"observation {i}: sliding-window spec says {spec.getD i 99}, implementation reported {got.getD i 99}")
  pure { model := some (jObj [("status", jArr (model.map jNat))]), spec := some specOk, why := why }

def ringOps (inp impl : Json) : Except String Resp := do
  let cap ← natF inp "cap"
  let ops ← intList (← fld inp "ops")
  if cap = 0 then throw "cap = 0 is outside the model (the Go code panics)"
  let rec go (b : Ring Int) (log : List Int) (ops : List Int) (accI : List Json) (accL : List Json) (accS : List (List Int)) :
      List Json × List Json × List (List Int) :=
    match ops with
    | [] => (accI.reverse, accL.reverse, accS.reverse)
    | o :: rest =>
      let (b', log') := if o < 0 then (b.reset, []) else (b.insert o, log ++ [o])
      go b' log' rest (jArr (b'.items.map jInt) :: accI) (jNat b'.len :: accL) (Karp.Spec.Window.lastN cap log' :: accS)
  let (items, lens, windows) := go (Ring.new cap) [] ops [] [] []
  -- spec on the implementation: after every op the items are a permutation of the last `cap` inserts
  let (specOk, why) ← match fldOpt impl "items" with
    | none => pure (false, "implementation produced no items (panic?)")
    | some it => do
      let got ← listOf intList it
      let sortL (l : List Int) := (l.toArray.qsort (· < ·)).toList
      let ok := got.length == windows.length && (got.zip windows).all (fun (g, w) => sortL g == sortL w)
      pure (ok, if ok then "" else "items are not a permutation of the last `cap` inserted values")
  pure { model := some (jObj [("items", jArr items), ("len", jArr lens)]), spec := some specOk, why := why }

def handle : Handler := fun op inp impl =>
  match op with
  | "c20.history" => history inp impl
  | "c20.ring" => ringOps inp impl
  | _ => .error s!"unknown op {op}"

end Karp.Driver.C20
