import Karp.Driver.Proto
import Karp.Model.Ring
import Karp.Spec.Window
import Karp.Spec.HealthHistory
import Karp.Model.PoolHealth
import Karp.Spec.PoolHealth

namespace Karp.Driver.C20
open Lean Karp.Driver Karp.Ring

def parseOp (s : String) : Except String Op :=
  match s with
  | "u1" => pure (.update true)
  | "u0" => pure (.update false)
  | "reset" => pure .reset
  | "setH" => pure (.set .healthy)
  | "setU" => pure (.set .unhealthy)
  | "restart" => pure .restart
  | "dry1" => pure (.dry true)
  | "dry0" => pure (.dry false)
  | "status" => pure .status
  | _ => .error s!"bad op {s}"

def firstDiff (a b : List Nat) (i : Nat := 0) : Option Nat :=
  match a, b with
  | [], [] => none
  | x :: xs, y :: ys => if x = y then firstDiff xs ys (i + 1) else some i
  | _, _ => some i

def history (inp impl : Json) : Except String Resp := do
  let ops ← (← arrF inp "ops").mapM (fun j => do parseOp (← asStr j))
  let model := (observations Tracker.new ops).map Status.toNat
  let spec := (Karp.Spec.HealthHistory.specObservations [] ops).map Status.toNat
  -- the property's verdict on what the real code did
  let (specOk, why) ← match fldOpt impl "status" with
    | none => pure (false, "implementation produced no status list (panic?)")
    | some st => do
      let got ← natList st
      match firstDiff got spec with
      | none => pure (true, "")
      | some i => pure (false, s!"observation {i}: sliding-window spec says {spec.getD i 99}, implementation reported {got.getD i 99}")
  pure { model := some (jObj [("status", jArr (model.map jNat))]), spec := some specOk, why := why }

def ringOps (inp impl : Json) : Except String Resp := do
  let cap ← natF inp "cap"
  let ops ← intList (← fld inp "ops")
  if cap = 0 then throw "cap = 0 is outside the model (the Go code panics)"
  let rec go (b : Ring Int) (log : List Int) (ops : List Int) (accI : List Json) (accL : List Json) (accS : List (List Int)) :
      List Json × List Json × List (List Int) :=
    match ops with
    | [] => (accI.reverse, accL.reverse, accS.reverse)
    | o :: rest =>
      let (b', log') := if o < 0 then (b.reset, []) else (b.insert o, log ++ [o])
      go b' log' rest (jArr (b'.items.map jInt) :: accI) (jNat b'.len :: accL) (Karp.Spec.Window.lastN cap log' :: accS)
  let (items, lens, windows) := go (Ring.new cap) [] ops [] [] []
  -- spec on the implementation: after every op the items are a permutation of the last `cap` inserts
  let (specOk, why) ← match fldOpt impl "items" with
    | none => pure (false, "implementation produced no items (panic?)")
    | some it => do
      let got ← listOf intList it
      let sortL (l : List Int) := (l.toArray.qsort (· < ·)).toList
      let ok := got.length == windows.length && (got.zip windows).all (fun (g, w) => sortL g == sortL w)
      pure (ok, if ok then "" else "items are not a permutation of the last `cap` inserted values")
  pure { model := some (jObj [("items", jArr items), ("len", jArr lens)]), spec := some specOk, why := why }

/-! ### c20.pool — event scripts through the real controllers -/

open Karp.PoolHealth (Ev) in
/-- what an event of the script means for pool `a` / pool `b` -/
def projectEv (pool : String) (ev : String) : Except String Ev :=
  match ev with
  | "Sa" => pure (if pool = "a" then .success else .noise)
  | "Fa" => pure (if pool = "a" then .failure else .noise)
  | "La" => pure (if pool = "a" then .failure else .noise)
  | "Za" => pure (if pool = "a" then .lateFailure else .noise)
  | "Pa" => pure (if pool = "a" then .poolEdit else .noise)
  | "Sb" => pure (if pool = "b" then .success else .noise)
  | "Fb" => pure (if pool = "b" then .failure else .noise)
  | "Lb" => pure (if pool = "b" then .failure else .noise)
  | "Zb" => pure (if pool = "b" then .lateFailure else .noise)
  | "Pb" => pure (if pool = "b" then .poolEdit else .noise)
  | "Xs" => pure .noise
  | "Xf" => pure .noise
  | "C" => pure .classEdit
  | "R" => pure .restart
  | "N" => pure .resync
  | _ => .error s!"bad event {ev}"

def firstDiffL (a b : List (List Nat)) (i : Nat := 0) : Option Nat :=
  match a, b with
  | [], [] => none
  | x :: xs, y :: ys => if x = y then firstDiffL xs ys (i + 1) else some i
  | _, _ => some i

def obsName (xs : List Nat) : String :=
  let c := match xs.getD 0 9 with | 0 => "Unknown" | 1 => "True" | 2 => "False" | 3 => "absent" | _ => "?"
  let st (n : Nat) := match n with | 0 => "Unknown" | 1 => "Healthy" | 2 => "Unhealthy" | _ => "?"
  s!"condition={c} tracker={st (xs.getD 1 9)} what-if(success)={st (xs.getD 2 9)} what-if(failure)={st (xs.getD 3 9)}"

/-- the specification's observations if every late launch failure counted as TWO failed attempts
    (the known defect); only used to classify a violation, never to judge -/
def specObsLateTwice (s : Karp.Spec.PoolHealth.S) : List Karp.PoolHealth.Ev → List (List Nat)
  | [] => []
  | e :: es =>
    let s' := match e with
      | .lateFailure => Karp.Spec.PoolHealth.step (Karp.Spec.PoolHealth.step s .failure) .failure
      | e => Karp.Spec.PoolHealth.step s e
    Karp.Spec.PoolHealth.observe s' :: specObsLateTwice s' es

def pool (inp impl : Json) : Except String Resp := do
  let steps ← (← arrF inp "steps").mapM asStr
  let one (name : String) : Except String (List (List Nat) × List (List Nat) × List (List Nat)) := do
    let evs ← steps.mapM (projectEv name)
    let model := Karp.PoolHealth.observe Karp.PoolHealth.Pool.started ::
      Karp.PoolHealth.observations Karp.PoolHealth.Pool.started evs
    let spec := Karp.Spec.PoolHealth.observe Karp.Spec.PoolHealth.S.init ::
      Karp.Spec.PoolHealth.observations Karp.Spec.PoolHealth.S.init evs
    let twice := Karp.Spec.PoolHealth.observe Karp.Spec.PoolHealth.S.init ::
      specObsLateTwice Karp.Spec.PoolHealth.S.init evs
    pure (model, spec, twice)
  let (ma, sa, ta) ← one "a"
  let (mb, sb, tb) ← one "b"
  let jl (l : List (List Nat)) := jArr (l.map (fun o => jArr (o.map jNat)))
  -- the property's verdict on what the real controllers did
  let judge (name : String) (spec : List (List Nat)) : Except String (Bool × String) :=
    match fldOpt impl name with
    | none => pure (false, "implementation produced no observations (error/panic?)")
    | some j => do
      let got ← listOf natList j
      match firstDiffL got spec with
      | none => pure (true, "")
      | some i =>
        let ev := if i = 0 then "creation" else s!"step {i - 1} ({steps.getD (i - 1) "?"})"
        pure (false, s!"pool {name} after {ev}: the launch window requires [{obsName (spec.getD i [])}], the controllers left [{obsName (got.getD i [])}]")
  let (oka, whya) ← judge "a" sa
  let (okb, whyb) ← judge "b" sb
  -- classification of a violation: the known defect and nothing else iff what the controllers left is exactly
  -- the specification with every late launch failure counted twice
  let exactly (name : String) (want : List (List Nat)) : Bool :=
    match fldOpt impl name with
    | some j => match listOf natList j with
      | .ok got => got == want
      | .error _ => false
    | none => false
  let sig := if exactly "a" ta && exactly "b" tb then "pool:late-launch-failure-recorded-twice" else "pool"
  pure { model := some (jObj [("a", jl ma), ("b", jl mb), ("anomalies", jArr [])]),
         spec := some (oka && okb), why := if !oka then whya else whyb,
         extra := if oka && okb then none else some (jObj [("signature", jStr sig)]) }

def handle : Handler := fun op inp impl =>
  match op with
  | "c20.history" => history inp impl
  | "c20.ring" => ringOps inp impl
  | "c20.pool" => pool inp impl
  | _ => .error s!"unknown op {op}"

end Karp.Driver.C20
