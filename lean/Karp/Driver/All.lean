import Karp.Driver.Proto
import Karp.Driver.C01
import Karp.Driver.C02
import Karp.Driver.C03
import Karp.Driver.C04
import Karp.Driver.C05
import Karp.Driver.C06
import Karp.Driver.C07
import Karp.Driver.C08
import Karp.Driver.C09
import Karp.Driver.C10
import Karp.Driver.C11
import Karp.Driver.C12
import Karp.Driver.C13
import Karp.Driver.C14
import Karp.Driver.C15
import Karp.Driver.C16
import Karp.Driver.C17
import Karp.Driver.C18
import Karp.Driver.C19
import Karp.Driver.C20

namespace Karp.Driver

/-- route `cNN.<name>` to the property's handler -/
def dispatch (op : String) : Except String Handler :=
  match (op.splitOn ".").head! with
  | "c01" => pure Karp.Driver.C01.handle
  | "c02" => pure Karp.Driver.C02.handle
  | "c03" => pure Karp.Driver.C03.handle
  | "c04" => pure Karp.Driver.C04.handle
  | "c05" => pure Karp.Driver.C05.handle
  | "c06" => pure Karp.Driver.C06.handle
  | "c07" => pure Karp.Driver.C07.handle
  | "c08" => pure Karp.Driver.C08.handle
  | "c09" => pure Karp.Driver.C09.handle
  | "c10" => pure Karp.Driver.C10.handle
  | "c11" => pure Karp.Driver.C11.handle
  | "c12" => pure Karp.Driver.C12.handle
  | "c13" => pure Karp.Driver.C13.handle
  | "c14" => pure Karp.Driver.C14.handle
  | "c15" => pure Karp.Driver.C15.handle
  | "c16" => pure Karp.Driver.C16.handle
  | "c17" => pure Karp.Driver.C17.handle
  | "c18" => pure Karp.Driver.C18.handle
  | "c19" => pure Karp.Driver.C19.handle
  | "c20" => pure Karp.Driver.C20.handle
  | _ => .error s!"unknown op {op}"

end Karp.Driver
