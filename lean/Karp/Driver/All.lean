import Karp.Driver.Proto
import Karp.Driver.C20

namespace Karp.Driver

/-- route `cNN.<name>` to the property's handler -/
def dispatch (op : String) : Except String Handler :=
  match (op.splitOn ".").head! with
  | "c20" => pure Karp.Driver.C20.handle
  | _ => .error s!"unknown op {op}"

end Karp.Driver
