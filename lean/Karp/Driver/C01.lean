import Karp.Driver.Proto

namespace Karp.Driver.C01
open Lean Karp.Driver

def handle : Handler := fun op _ _ => .error s!"unknown op {op}"

end Karp.Driver.C01
