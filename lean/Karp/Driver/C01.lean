import Karp.Driver.ScenarioJson
import Karp.Spec.Admissible

namespace Karp.Driver.C01
open Lean Karp.Driver Karp.Driver.ScenarioJson Karp.Scn Karp.Spec.Admissible

/-- `c01.pass`: judge the end state of a real scheduling pass by the admissibility specification -/
def opPass (inp impl : Json) : Except String Resp := do
  let s ← scenario inp
  match fldOpt impl "err" with
  | some (.str e) => if e != "" then return { allowed := some true, spec := some true, why := "pass returned an error: " ++ e } else pure ()
  | _ => pure ()
  if (fldOpt impl "panic").isSome then
    return { allowed := some false, spec := some false, why := "the scheduler panicked" }
  let out ← outcome impl
  let cands := scenarioCandidates s out
  match outcomeOK s out cands with
  | none => pure { allowed := some true, spec := some true }
  | some why =>
    -- a leading "[tag] " classifies the violation for known-finding matching
    let sig := if why.startsWith "[" then ((why.splitOn "]").head!.drop 1).toString else "pass"
    pure { allowed := some true, spec := some false, why := why, extra := some (jObj [("signature", jStr sig)]) }

def handle : Handler := fun op inp impl =>
  match op with
  | "c01.pass" => opPass inp impl
  | _ => .error s!"unknown op {op}"

end Karp.Driver.C01
