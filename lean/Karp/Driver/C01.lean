import Karp.Driver.ScenarioJson
import Karp.Spec.Admissible
import Karp.Model.Sched

namespace Karp.Driver.C01
open Lean Karp.Driver Karp.Driver.ScenarioJson Karp.Scn Karp.Spec.Admissible

/-- `c01.pass`: judge the end state of a real scheduling pass by the admissibility specification -/
def opPass (inp impl : Json) : Except String Resp := do
  let s ← scenario inp
  match fldOpt impl "err" with
  | some (.str e) => if e != "" then return { allowed := some true, spec := some true, why := "pass returned an error: " ++ e } else pure ()
  | _ => pure ()
  if (fldOpt impl "panic").isSome then
    return { allowed := some false, spec := some false, why := "the scheduler panicked" }
  let out ← outcome impl
  let cands := scenarioCandidates s out
  match outcomeOK s out cands with
  | none => pure { allowed := some true, spec := some true }
  | some why =>
    -- a leading "[tag] " classifies the violation for known-finding matching
    let sig := if why.startsWith "[" then ((why.splitOn "]").head!.drop 1).toString else "pass"
    pure { allowed := some true, spec := some false, why := why, extra := some (jObj [("signature", jStr sig)]) }

/-- `c01.existing`: one node, one pod without inter-pod constraints, no new capacity possible: is the pod placed on the
    node?  Model = `tryExisting (viewNode …)`; spec = admissibility of the placement the real scheduler made. -/
def opExisting (inp impl : Json) : Except String Resp := do
  let s ← scenario inp
  if (fldOpt impl "panic").isSome then return { allowed := some false, spec := some false, why := "the scheduler panicked" }
  let out ← outcome impl
  let n ← match s.nodes with | [n] => pure n | _ => throw "c01.existing: exactly one node expected"
  let p ← match s.pods with | [p] => pure p | _ => throw "c01.existing: exactly one pod expected"
  let tolPNS := s.pools.any (fun pl => pl.taints.any (fun t => t.effect == "PreferNoSchedule"))
  let fuel := p.required.length + p.preferred.length + 3
  let placedModel := match Karp.Sched.viewNode s n with
    | none => false
    | some ex => !n.deleting && Karp.Sched.tryExisting fuel ex (Karp.Sched.podSpecOf p) s.ignorePreferences tolPNS
  let placedImpl := !out.existing.isEmpty
  let cands := scenarioCandidates s out
  let (ok, why, sig) := match outcomeOK s out cands with
    | none => (true, "", "")
    | some w => (false, w, if w.startsWith "[" then ((w.splitOn "]").head!.drop 1).toString else "existing")
  let why := if ok && placedModel != placedImpl then s!"model says placed = {placedModel}, the real scheduler placed = {placedImpl}" else why
  pure { allowed := some (placedModel == placedImpl), spec := some ok, why := why,
         extra := if ok then none else some (jObj [("signature", jStr sig)]) }

def handle : Handler := fun op inp impl =>
  match op with
  | "c01.existing" => opExisting inp impl
  | "c01.pass" => opPass inp impl
  | _ => .error s!"unknown op {op}"

end Karp.Driver.C01
