import Karp.Driver.ScenarioJson
import Karp.Driver.ReqJson
import Karp.Spec.Admissible
import Karp.Spec.FilterSpec
import Karp.Model.Sched

namespace Karp.Driver.C01
open Lean Karp.Driver Karp.Driver.ScenarioJson Karp.Scn Karp.Spec.Admissible

/-- `c01.pass` / `c01.existingseq`: judge the end state of a real scheduling pass by the admissibility specification
    (`dflt` = the signature of an unclassified violation) -/
def opPass (inp impl : Json) (dflt : String := "pass") : Except String Resp := do
  let s ← scenario inp
  match fldOpt impl "err" with
  | some (.str e) => if e != "" then return { allowed := some true, spec := some true, why := "pass returned an error: " ++ e } else pure ()
  | _ => pure ()
  if (fldOpt impl "panic").isSome then
    return { allowed := some false, spec := some false, why := "the scheduler panicked" }
  let out ← outcome impl
  let cands := scenarioCandidates s out
  match outcomeOK s out cands with
  | none => pure { allowed := some true, spec := some true }
  | some why =>
    -- a leading "[tag] " classifies the violation for known-finding matching
    let sig := if why.startsWith "[" then ((why.splitOn "]").head!.drop 1).toString else dflt
    pure { allowed := some true, spec := some false, why := why, extra := some (jObj [("signature", jStr sig)]) }

/-- `c01.existing`: one node, one pod without inter-pod constraints, no new capacity possible: is the pod placed on the
    node?  Model = `tryExisting (viewNode …)`; spec = admissibility of the placement the real scheduler made. -/
def opExisting (inp impl : Json) : Except String Resp := do
  let s ← scenario inp
  if (fldOpt impl "panic").isSome then return { allowed := some false, spec := some false, why := "the scheduler panicked" }
  let out ← outcome impl
  let n ← match s.nodes with | [n] => pure n | _ => throw "c01.existing: exactly one node expected"
  let p ← match s.pods with | [p] => pure p | _ => throw "c01.existing: exactly one pod expected"
  let tolPNS := s.pools.any (fun pl => pl.taints.any (fun t => t.effect == "PreferNoSchedule"))
  let fuel := p.required.length + p.preferred.length + 3
  let placedModel := match Karp.Sched.viewNode s n with
    | none => false
    | some ex => !n.deleting && Karp.Sched.tryExisting fuel ex (Karp.Sched.podSpecOf p) s.ignorePreferences tolPNS
  let placedImpl := !out.existing.isEmpty
  let cands := scenarioCandidates s out
  let (ok, why, sig) := match outcomeOK s out cands with
    | none => (true, "", "")
    | some w => (false, w, if w.startsWith "[" then ((w.splitOn "]").head!.drop 1).toString else "existing")
  let why := if ok && placedModel != placedImpl then s!"model says placed = {placedModel}, the real scheduler placed = {placedImpl}" else why
  pure { allowed := some (placedModel == placedImpl), spec := some ok, why := why,
         extra := if ok then none else some (jObj [("signature", jStr sig)]) }

/-! ### `c01.filter`: `filterInstanceTypesByRequirements` / `fits` / `compatible` on one NodeClaim step -/

namespace Filter
open Karp.Req Karp.Sched Karp.Driver.ReqJson

abbrev KeyExprs := String × List ExprJ

def keyExprs (j : Json) : Except String KeyExprs := do
  pure (← strF j "key", ← (← arrF j "exprs").mapM parseExpr)

def resList (j : Json) : Except String (List (String × Int)) := do
  let l ← (← asArr j).mapM (fun e => do pure ((← strF e "name"), (← intF e "q")))
  -- canonical order (a Go map has none)
  pure (l.toArray.qsort (fun a b => a.1 < b.1)).toList

def resF (j : Json) (k : String) : Except String (List (String × Int)) := do resList (← fld j k)

/-- `scheduling.NewRequirements()` followed by `Add(NewRequirementWithFlexibility(key, op, minValues, values...))` for
    every expression in order; `none` when a constructor would panic -/
def buildReqs (l : List KeyExprs) : Option Reqs :=
  l.foldlM (fun (R : Reqs) (k, es) => do
    let rs ← es.mapM (fun e => match Req.new k e.op e.minValues e.values with
      | .ok r => some r
      | .error _ => none)
    pure (R.add rs)) []

def toKExprs (l : List KeyExprs) : List KExpr :=
  l.flatMap (fun (k, es) => es.map (fun e => ({ key := k, op := e.op, vals := e.values } : KExpr)))

structure OfferingJ where
  reqs : List KeyExprs
  available : Bool
  capOverride : List (String × Int)
  ovhOverride : Option (List (String × Int))

structure ITJ where
  name : String
  reqs : List KeyExprs
  capacity : List (String × Int)
  overhead : List (String × Int)
  offerings : List OfferingJ

structure GroupJ where
  its : List String
  overhead : List (String × Int)
  usage : List (String × List HostPort)

def offeringJ (j : Json) : Except String OfferingJ := do
  let ovh ← match fldOpt j "ovhOverride" with
    | none => pure none
    | some v => do pure (some (← resList v))
  pure { reqs := ← (← arrF j "reqs").mapM keyExprs, available := ← boolF j "available",
         capOverride := ← resF j "capOverride", ovhOverride := ovh }

def itJ (j : Json) : Except String ITJ := do
  pure { name := ← strF j "name", reqs := ← (← arrF j "reqs").mapM keyExprs, capacity := ← resF j "capacity",
         overhead := ← resF j "overhead", offerings := ← (← arrF j "offerings").mapM offeringJ }

def groupJ (j : Json) : Except String GroupJ := do
  let usage ← (← arrF j "usage").mapM (fun u => do
    pure ((← strF u "owner"), (← (← arrF u "ports").mapM ScenarioJson.hostPort)))
  pure { its := ← strList (← fld j "its"), overhead := ← resF j "overhead", usage := usage }

def toRaw (it : ITJ) : Option ITRaw := do
  let ofs ← it.offerings.mapM (fun o => do
    pure ({ reqs := ← buildReqs o.reqs, available := o.available, capOverride := o.capOverride, ovhOverride := o.ovhOverride } : OfferingRaw))
  pure { name := it.name, reqs := ← buildReqs it.reqs, capacity := it.capacity, overhead := it.overhead, offerings := ofs }

def toSpecIT (it : ITJ) : Karp.Spec.Filter.ITS :=
  { name := it.name, exprs := toKExprs it.reqs, capacity := it.capacity, overhead := it.overhead,
    offerings := it.offerings.map (fun o => { exprs := toKExprs o.reqs, available := o.available,
                                              capOverride := o.capOverride, ovhOverride := o.ovhOverride }) }

def jFlags (f : FilterFlags) (mv : Bool) : Json :=
  jObj [("minValuesErr", jBool mv), ("requirementsMet", jBool f.requirementsMet), ("fits", jBool f.fits), ("hasOffering", jBool f.hasOffering),
        ("requirementsAndFits", jBool f.requirementsAndFits), ("requirementsAndOffering", jBool f.requirementsAndOffering),
        ("fitsAndOffering", jBool f.fitsAndOffering)]

def sortStrings (l : List String) : List String := (l.toArray.qsort (· < ·)).toList

end Filter

/-- `c01.filter`: model = `filterResult` (+ the `(compatible, fits, hasOffering)` triple of every member of every daemon
    group) on instance types grouped by `allocGroups`; spec = feasibility of every instance type the REAL function kept. -/
def opFilter (inp impl : Json) : Except String Resp := do
  let its ← (← arrF inp "its").mapM Filter.itJ
  let eligible ← strList (← fld inp "eligible")
  let reqsJ ← (← arrF inp "reqs").mapM Filter.keyExprs
  let pod ← fld inp "pod"
  let podKey ← strF pod "name"
  let podPorts ← (← arrF pod "ports").mapM ScenarioJson.hostPort
  let groups ← (← arrF inp "groups").mapM Filter.groupJ
  let total ← Filter.resF inp "total"
  let relax ← boolF inp "relax"
  if (fldOpt impl "panic").isSome then
    return { allowed := some false, spec := some false, why := "filterInstanceTypesByRequirements panicked" }
  -- spec on what the implementation kept
  let names ← strList (← fld impl "names")
  let allExprs : List (List Karp.Driver.ReqJson.ExprJ) :=
    reqsJ.map (·.2) ++ its.flatMap (fun it => it.reqs.map (·.2) ++ it.offerings.flatMap (fun o => o.reqs.map (·.2)))
  let cands := Karp.Driver.ReqJson.candidates allExprs []
  let sinp : Karp.Spec.Filter.Input :=
    { its := its.map Filter.toSpecIT, eligible := eligible, reqs := Filter.toKExprs reqsJ, podKey := podKey, podPorts := podPorts,
      groups := groups.map (fun g => { its := g.its, overhead := g.overhead, usage := g.usage }), total := total }
  let v := Karp.Spec.Filter.allSurvivorsOK sinp cands names
  -- model
  let wk := Karp.Gen.Labels.wellKnownLabels
  let model : Option Json := do
    let raws ← its.mapM Filter.toRaw
    let R ← Filter.buildReqs reqsJ
    let options := (raws.filter (fun r => eligible.contains r.name)).map Karp.Sched.ITRaw.toITM
    let all := raws.map Karp.Sched.ITRaw.toITM
    let mgroups : List Karp.Sched.Group := groups.map (fun g => { its := g.its, overhead := g.overhead, usage := g.usage.map (fun (o, ps) => (o, Karp.Sched.hostPortsOf ps)) })
    let out := Karp.Sched.filterResult options mgroups R podKey (Karp.Sched.hostPortsOf podPorts) total wk relax
    let triples := mgroups.map (fun g => jArr (g.its.filterMap (fun n =>
      (all.find? (fun it => it.name == n)).map (fun it =>
        let c := Karp.Sched.criteria R total wk (g, it)
        jObj [("it", jStr n), ("c", jBool c.1), ("f", jBool c.2.1), ("o", jBool c.2.2)]))))
    let unsat := (out.unsat.toArray.qsort (fun a b => a.1 < b.1)).toList.map (fun (k, n) => jObj [("key", jStr k), ("n", jNat n)])
    pure (jObj [("names", jArr ((Filter.sortStrings (out.remaining.map (·.name))).map jStr)),
                ("err", jBool out.err.isSome),
                ("unsat", jArr unsat),
                ("flags", match out.err with | some (f, mv) => Filter.jFlags f mv | none => Json.null),
                ("triples", jArr triples)])
  match model with
  | none => pure { spec := some v.ok, why := "the model says a requirement constructor panics on this input (not generated)", allowed := some false }
  | some m =>
    pure { model := some m, spec := some v.ok, why := v.why,
           extra := if v.ok then none else some (jObj [("signature", jStr v.signature)]) }

def handle : Handler := fun op inp impl =>
  match op with
  | "c01.existing" => opExisting inp impl
  | "c01.pass" => opPass inp impl
  | "c01.existingseq" => opPass inp impl "existingseq"
  | "c01.filter" => opFilter inp impl
  | _ => .error s!"unknown op {op}"

end Karp.Driver.C01
