import Karp.Driver.Proto
import Karp.Model.OrchQueue
import Karp.Spec.OrchQueue

namespace Karp.Driver.C08
open Lean Karp.Driver Karp.OrchQueue Karp.Spec.OrchQueue

/-! ## JSON → model input -/

def parseKey (s : String) : Except String Key :=
  match s.splitOn "." with
  | ["get", "node", i] => pure (.getNode i.toNat!)
  | ["patch", "node", i] => pure (.patchNode i.toNat!)
  | ["get", "nc", i] => pure (.getNC i.toNat!)
  | ["status", "nc", i] => pure (.statusNC i.toNat!)
  | ["del", "nc", i] => pure (.delNC i.toNat!)
  | ["get", "pool", i] => pure (.getPool i.toNat!)
  | ["create", "repl", k, i] => pure (.createRepl k.toNat! i.toNat!)
  | ["get", "repl", k, i] => pure (.getRepl k.toNat! i.toNat!)
  | _ => .error s!"bad fault key {s}"

def parseFault (j : Json) : Except String Fault := do
  let key ← parseKey (← strF j "key")
  let cls ← strF j "class"
  pure { key := key, start := ← natF j "from", count := ← natF j "count", notFound := cls == "notfound" }

def parseStep (j : Json) : Except String Step := do
  let op ← strF j "op"
  let k := (← natO j "cmd").getD 0
  let i := (← natO j "repl").getD 0
  match op with
  | "start" => pure (.start k (← boolD j "via" false))
  | "reconcile" => pure (.reconcile k ((← natO j "on").getD 0))
  | "advance" => pure (.advance ((← intO j "ns").getD 0))
  | "launch" => pure (.env .launch k i)
  | "init" => pure (.env .init k i)
  | "vanish" => pure (.env .vanish k i)
  | "vanishStale" => pure (.env .vanishStale k i)
  | "candGone" => pure (.candGone ((← natO j "cand").getD 0))
  | "sync" => pure .sync
  | "restart" => pure .restart
  | "cleanup" => pure .cleanup
  | _ => .error s!"bad step op {op}"

structure Input where
  ncands : Nat
  cmds : List (List Nat × Nat)
  steps : List Step
  world : World

def parseInput (inp : Json) : Except String Input := do
  let ncands ← natF inp "ncands"
  let cmds ← (← arrF inp "cmds").mapM (fun c => do
    let cs ← natList (← fld c "cands")
    if cs.eraseDups.length != cs.length then throw "duplicate candidate in a command"
    pure (cs, ← natF c "repls"))
  let steps ← (← arrF inp "steps").mapM parseStep
  let faults ← (← arrD inp "faults").mapM parseFault
  let missing ← match fldOpt inp "missingPools" with | none => pure [] | some m => natList m
  let retrySteps ← natF inp "retrySteps"
  let mode := TimeoutMode.ofCode Karp.Gen.OrchQueue.timeoutMode
  pure { ncands := ncands, cmds := cmds, steps := steps,
         world := initWorld ncands cmds faults missing retrySteps mode }

/-! ## model output → JSON (the harness' canonical form) -/

def resStr : Res → String
  | .ok => "ok" | .skip => "skip" | .noop => "noop"
  | .notcand => "notcand" | .busy => "busy" | .mark => "mark" | .launch => "launch"
  | .nocmd => "nocmd" | .requeue => "requeue" | .succeeded => "succeeded" | .failed => "failed"
  | .unsynced => "unsynced" | .fail => "fail"

def apiStr : RApi → String
  | .absent => "absent" | .pending => "pending" | .launched => "launched" | .init => "init"

/-- stable insertion sort of the Delete events by candidate (the harness sorts the same way) -/
def insertEv (e : DelEvent) : List DelEvent → List DelEvent
  | [] => [e]
  | x :: xs => if e.cand < x.cand then e :: x :: xs else x :: insertEv e xs

def sortEvs (l : List DelEvent) : List DelEvent := l.foldl (fun acc e => insertEv e acc) []

def candJson (c : Cand) : Json :=
  jObj [("taint", jBool c.taint), ("cond", jBool c.cond), ("deleting", jBool c.deleting), ("mark", jBool (markObs c)),
        ("owner", match c.owner with | none => jInt (-1) | some k => jNat k), ("gone", jBool c.gone)]

def replJson (r : Repl) : Json :=
  jObj [("named", jBool r.named), ("latched", jBool r.latched), ("api", jStr (apiStr r.api)),
        ("known", jBool (r.created && r.known))]

def cmdJson (c : Cmd) : Json :=
  jObj [("started", jBool c.started), ("succeeded", jBool c.succeeded), ("repls", jArr (c.repls.map replJson))]

def stepJson (r : Res) (evs : List DelEvent) (w : World) : Json :=
  jObj [("res", jStr (resStr r)), ("nf", jNat w.fired),
        ("deletes", jArr ((sortEvs evs).map (fun e =>
          jObj [("cand", jNat e.cand), ("repls", jArr (e.repls.map (fun a => jStr (apiStr a)))), ("ok", jBool e.ok)]))),
        ("cands", jArr (w.cands.map candJson)), ("cmds", jArr (w.cmds.map cmdJson))]

/-! ## implementation output → observations for the specification -/

def verdictOf (s : String) : Verdict :=
  match s with
  | "ok" => .none | "skip" => .none | "noop" => .none
  | "notcand" => .startRejected | "busy" => .startRejected | "mark" => .startRejected | "launch" => .startRejected
  | "nocmd" => .nocmd | "requeue" => .requeue | "succeeded" => .succeeded | "failed" => .failed
  | "unsynced" => .cleanupNotRun | "fail" => .cleanupNotRun
  | _ => .none

def kindOf (cmds : List (List Nat × Nat)) : Step → Kind
  | .start k _ => .start k
  | .reconcile k on =>
    let cs := ((cmds[k]?).map (·.1)).getD []
    .reconcile ((cs[on]?).getD (cs.headD 0))
  | .advance ns => .advance ns
  | .restart => .restart
  | .cleanup => .cleanup
  | _ => .other

def parseObs (cmds : List (List Nat × Nat)) (s : Step) (j : Json) : Except String (Obs × List (List Bool)) := do
  let res ← strF j "res"
  let kind := kindOf cmds s
  let verdict : Verdict :=
    match kind, res with
    | .start _, "ok" => .startOk
    | .cleanup, "ok" => .cleanupOk
    | _, _ => verdictOf res
  let deletes ← (← arrF j "deletes").mapM (fun d => do
    let rs ← strList (← fld d "repls")
    pure ({ cand := ← natF d "cand", ready := rs.map (· == "init") } : ObsDelete))
  let cands ← (← arrF j "cands").mapM (fun c => do
    let ow ← intF c "owner"
    pure ({ taint := ← boolF c "taint", cond := ← boolF c "cond", deleting := ← boolF c "deleting",
            mark := ← boolF c "mark", owner := if ow < 0 then none else some ow.toNat,
            gone := ← boolD c "gone" false } : ObsCand))
  let latched ← (← arrF j "cmds").mapM (fun c => do
    (← arrF c "repls").mapM (fun r => boolF r "latched"))
  pure ({ kind := kind, verdict := verdict, faults := ← natF j "nf", deletes := deletes, cands := cands }, latched)

/-- refine the class of a violation into the signature used for known-finding matching -/
def signatureOf (sc : Scenario) (cls : String) (t : Track) (o : Obs) (latchedBefore : List (List Bool)) : String :=
  match cls with
  | "delete-before-ready" =>
    -- the one recorded class: the Delete is issued by the owning action's pass with every replacement created, and the
    -- replacements that are not Initialized at that instant are exactly ones whose readiness was latched by an earlier
    -- pass and which vanished afterwards
    match actingFor t o.kind with
    | none => cls
    | some K =>
      let lat := (latchedBefore[K]?).getD []
      let explained := o.deletes.all (fun d =>
        (candOf t.prev d.cand).owner == some K && d.ready.length == sc.replsOf K &&
          (List.range d.ready.length).all (fun i => (d.ready[i]?).getD false || (lat[i]?).getD false))
      if explained then "delete-after-latched-replacement-vanished" else cls
  | "failed-after-delete" =>
    match actingFor t o.kind with
    | none => cls
    | some K =>
      match startedAtOf t K with
      | some t0 => if t.now - t0 > (Karp.Gen.OrchQueue.minRetryDurationNs : Int) then "failed-after-delete:retry-window-passed" else cls
      | none => cls
  | _ => cls

def protocol (inp impl : Json) : Except String Resp := do
  let input ← parseInput inp
  let tr := trace input.world input.steps
  let model := jObj [("steps", jArr (tr.map (fun (r, evs, w) => stepJson r evs w)))]
  let sc : Scenario := { ncands := input.ncands, cmds := input.cmds }
  match fldOpt impl "steps" with
  | none => pure { model := some model, spec := some false, why := "implementation produced no trace (panic or harness error)" }
  | some st => do
    let js ← asArr st
    if js.length != input.steps.length then
      return { model := some model, spec := some false, why := "implementation trace has the wrong length" }
    let parsed ← (input.steps.zip js).mapM (fun (s, j) => parseObs input.cmds s j)
    let obs := parsed.map (·.1)
    match check sc obs with
    | none => pure { model := some model, spec := some true }
    | some (i, cls, t) =>
      let latchedBefore : List (List Bool) := if i = 0 then [] else ((parsed[i - 1]?).map (·.2)).getD []
      let sig := match obs[i]? with
        | some o => signatureOf sc cls t o latchedBefore
        | none => cls
      pure { model := some model, spec := some false,
             why := s!"step {i}: {sig}",
             extra := some (jObj [("signature", jStr sig), ("step", jNat i)]) }

/-! ## commands computed by the real method (`c08.staticpass`)

The input describes the static NodePools and nodes and a history with `pass` steps; the implementation reports which
commands the real `StaticDrift.ComputeCommands` returned (`cmds`, in start order) and how many every pass started
(`passes`).  The model is run on the history in which every pass is replaced by the starts of its commands; the
specification is the same independent observer, and additionally requires that a method only picks drifted nodes. -/

def parsePStep (j : Json) : Except String PStep := do
  match (← strF j "op") with
  | "pass" => pure .pass
  | "start" => .error "no start steps in a static-pass history"
  | _ => pure (.plain (← parseStep j))

def staticPass (inp impl : Json) : Except String Resp := do
  let nodes ← arrF inp "nodes"
  let drifted ← nodes.mapM (fun n => boolF n "drifted")
  let ncands := nodes.length
  let psteps ← (← arrF inp "steps").mapM parsePStep
  let faults ← (← arrD inp "faults").mapM parseFault
  let retrySteps ← natF inp "retrySteps"
  let mode := TimeoutMode.ofCode Karp.Gen.OrchQueue.timeoutMode
  match fldOpt impl "steps", fldOpt impl "cmds", fldOpt impl "passes" with
  | some st, some cj, some pj => do
    let cmds ← (← asArr cj).mapM (fun c => do pure ((← natList (← fld c "cands")), ← natF c "repls"))
    let passes ← natList pj
    let npass := (psteps.filter (· == .pass)).length
    let echo := fun (steps : Json) => jObj [
      ("cmds", jArr (cmds.map (fun (cs, n) => jObj [("cands", jArr (cs.map jNat)), ("repls", jNat n)]))),
      ("passes", jArr (passes.map jNat)), ("steps", steps)]
    if passes.length != npass || passes.foldl (· + ·) 0 != cmds.length then
      return { model := none, spec := some false, why := "the reported passes do not add up to the reported commands" }
    if cmds.any (fun (cs, _) => cs.isEmpty || cs.eraseDups.length != cs.length || cs.any (· ≥ ncands)) then
      return { model := none, spec := some false, why := "a computed command has no / duplicate / unknown candidates" }
    let steps := expand 0 passes psteps
    let world := initWorld ncands cmds faults [] retrySteps mode
    let tr := trace world steps
    let model := echo (jArr (tr.map (fun (r, evs, w) => stepJson r evs w)))
    let js ← asArr st
    if js.length != steps.length then
      return { model := some model, spec := some false, why := "implementation trace has the wrong length" }
    -- only drifted nodes are disrupted by a drift method
    match cmds.find? (fun (cs, _) => cs.any (fun c => !((drifted[c]?).getD false))) with
    | some (cs, _) =>
      return { model := some model, spec := some false, why := s!"a command over {cs} disrupts a node that has not drifted",
               extra := some (jObj [("signature", jStr "undrifted-node-disrupted")]) }
    | none => pure ()
    let sc : Scenario := { ncands := ncands, cmds := cmds }
    let parsed ← (steps.zip js).mapM (fun (s, j) => parseObs cmds s j)
    let obs := parsed.map (·.1)
    match check sc obs with
    | none => pure { model := some model, spec := some true }
    | some (i, cls, t) =>
      let latchedBefore : List (List Bool) := if i = 0 then [] else ((parsed[i - 1]?).map (·.2)).getD []
      let sig := match obs[i]? with
        | some o => signatureOf sc cls t o latchedBefore
        | none => cls
      pure { model := some model, spec := some false,
             why := s!"step {i} of the expanded history: {sig}",
             extra := some (jObj [("signature", jStr sig), ("step", jNat i)]) }
  | _, _, _ => pure { model := none, spec := some false, why := "implementation produced no trace (panic or harness error)" }

/-! ## leaf op: `Queue.GetMaxRetryDuration` -/

def retryDur (inp _impl : Json) : Except String Resp := do
  let n ← natF inp "entries"
  pure { model := some (jObj [("ns", jInt (retryDuration n))]) }

def handle : Handler := fun op inp impl =>
  match op with
  | "c08.protocol" => protocol inp impl
  | "c08.faults" => protocol inp impl
  | "c08.findings" => protocol inp impl
  | "c08.staticpass" => staticPass inp impl
  | "c08.retry" => retryDur inp impl
  | _ => .error s!"unknown op {op}"

end Karp.Driver.C08
