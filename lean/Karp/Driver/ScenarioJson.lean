/- JSON decoding of scenarios and pass outcomes (see harness/internal/world). -/
import Karp.Driver.ReqJson
import Karp.Spec.Scenario

namespace Karp.Driver.ScenarioJson
open Lean Karp.Driver Karp.Driver.ReqJson Karp.Req Karp.Scn

def labelsOf (j : Json) : Except String Labels :=
  match j with
  | .null => pure []
  | .obj kvs => kvs.toList.mapM (fun (k, v) => do pure (k, ← asStr v))
  | _ => throw "labels: expected object"

def labelsF (j : Json) (k : String) : Except String Labels :=
  match fldOpt j k with | none => pure [] | some v => labelsOf v

def listF (f : Json → Except String α) (j : Json) (k : String) : Except String (List α) :=
  match fldOpt j k with | none => pure [] | some v => listOf f v

def kexpr (j : Json) : Except String KExpr := do
  pure { key := ← strF j "key", op := parseOp (← strF j "op"), vals := ← (match fldOpt j "values" with | none => pure [] | some v => strList v) }

def taint (j : Json) : Except String Taint := do
  pure { key := ← strF j "key", value := ← strF j "value", effect := ← strF j "effect" }

def toleration (j : Json) : Except String Toleration := do
  pure { key := ← strF j "key", operator := ← strF j "operator", value := ← strF j "value", effect := ← strF j "effect" }

def hostPort (j : Json) : Except String HostPort := do
  pure { port := ← natF j "port", proto := (← strF j "protocol"), ip := ← strF j "ip" }

def offering (j : Json) : Except String Offering := do
  pure { zone := ← strF j "zone", ct := ← strF j "capacityType", price := ← natF j "price", available := ← boolF j "available",
         resID := ← strF j "reservationID", resN := ← natF j "reservationCapacity", cpuOverride := ← intO j "cpuOverride" }

def it (j : Json) : Except String IT := do
  pure { name := ← strF j "name", cpu := ← intF j "cpu", mem := ← intF j "mem", pods := ← intF j "pods",
         arch := (← strF j "arch"), os := ← listF asStr j "os", overhead := ← intF j "overheadCPU",
         offerings := ← listF offering j "offerings" }

def minExpr (j : Json) : Except String MinExpr := do
  pure { key := ← strF j "key", op := parseOp (← strF j "op"), vals := ← listF asStr j "values", minValues := ← intO j "minValues" }

def pool (j : Json) : Except String Pool := do
  pure { name := ← strF j "name", weight := ← intF j "weight", labels := ← labelsF j "labels",
         taints := ← listF taint j "taints", startupTaints := ← listF taint j "startupTaints",
         reqs := ← listF minExpr j "reqs", limitCPU := ← intO j "limitCPU", limitMem := ← intO j "limitMem" }

def labelSel (j : Json) : Except String LabelSel := do
  pure { matchLabels := ← labelsF j "matchLabels", matchExprs := ← listF kexpr j "matchExprs" }

/-- an optional selector: absent / null = unset, an object (possibly `{}`) = set -/
def labelSelO (j : Json) (k : String) : Except String (Option LabelSel) :=
  match fldOpt j k with
  | none => pure none
  | some .null => pure none
  | some v => do pure (some (← labelSel v))

def strD (j : Json) (k : String) (d : String) : Except String String :=
  match fldOpt j k with | none => pure d | some .null => pure d | some v => asStr v

def podAff (j : Json) : Except String PodAff := do
  pure { topologyKey := ← strF j "topologyKey", matchLabels := ← labelsF j "matchLabels", anti := ← boolF j "anti", required := ← boolF j "required",
         matchExprs := ← listF kexpr j "matchExprs", namespaces := ← listF asStr j "namespaces",
         namespaceSelector := ← labelSelO j "namespaceSelector", matchLabelKeys := ← listF asStr j "matchLabelKeys" }

def boolO (j : Json) (k : String) : Except String (Option Bool) :=
  match fldOpt j k with | none => pure none | some v => do pure (some (← asBool v))

def spread (j : Json) : Except String Spread := do
  pure { topologyKey := ← strF j "topologyKey", maxSkew := ← natF j "maxSkew", minDomains := ← natO j "minDomains",
         doNotSchedule := ← boolF j "doNotSchedule", matchLabels := ← labelsF j "matchLabels",
         nodeAffinityHonor := ← boolO j "nodeAffinityHonor", nodeTaintsHonor := ← boolO j "nodeTaintsHonor",
         matchExprs := ← listF kexpr j "matchExprs", matchLabelKeys := ← listF asStr j "matchLabelKeys" }

def volume (j : Json) : Except String Volume := do
  pure { name := ← strF j "name", claim := ← strF j "claim" }

def nsOrDefault (s : String) : String := if s == "" then "default" else s

def preferred (j : Json) : Except String Preferred := do
  pure { weight := ← intF j "weight", exprs := ← listF kexpr j "exprs" }

def pod (j : Json) : Except String Pod := do
  pure { name := ← strF j "name", labels := ← labelsF j "labels", cpu := ← intF j "cpu", mem := ← intF j "mem",
         nodeSelector := ← labelsF j "nodeSelector",
         required := ← listF (listOf kexpr) j "required", preferred := ← listF preferred j "preferred",
         tolerations := ← listF toleration j "tolerations", hostPorts := ← listF hostPort j "hostPorts",
         affinity := ← listF podAff j "affinity", spreads := ← listF spread j "spreads", daemon := ← boolD j "daemon" false,
         ns := nsOrDefault (← strD j "namespace" ""), volumes := ← listF volume j "volumes", owner := ← strD j "owner" "" }

def node (j : Json) : Except String Node := do
  pure { name := ← strF j "name", pool := ← strF j "pool", it := ← strF j "it", zone := ← strF j "zone", ct := ← strF j "capacityType",
         labels := ← labelsF j "labels", taints := ← listF taint j "taints", stage := ← strF j "stage",
         deleting := ← boolD j "deleting" false, pods := ← listF pod j "pods" }

def daemonSet (j : Json) : Except String DaemonSet := do
  pure { name := ← strF j "name", cpu := ← intF j "cpu", mem := ← intF j "mem", nodeSelector := ← labelsF j "nodeSelector",
         tolerations := ← listF toleration j "tolerations", hostPorts := ← listF hostPort j "hostPorts" }

def namespaceJ (j : Json) : Except String Namespace := do
  pure { name := ← strF j "name", labels := ← labelsF j "labels" }

def pv (j : Json) : Except String PV := do
  pure { name := ← strF j "name", terms := ← listF (listOf kexpr) j "terms" }

def storageClass (j : Json) : Except String StorageClass := do
  pure { name := ← strF j "name", topologies := ← listF (listOf kexpr) j "topologies", immediate := ← boolD j "immediate" false }

def pvc (j : Json) : Except String PVC := do
  pure { name := ← strF j "name", ns := nsOrDefault (← strD j "namespace" ""), volumeName := ← strD j "volumeName" "",
         storageClass := ← strD j "storageClass" "" }

def listFault (j : Json) : Except String (String × Nat) := do
  pure (← strF j "kind", ← natF j "nth")

/-- a Service selector: absent / null = none (selects nothing), an object (possibly `{}`) = an equality selector -/
def service (j : Json) : Except String Service := do
  let sel ← match fldOpt j "selector" with
    | none => pure none
    | some .null => pure none
    | some v => do pure (some (← labelsOf v))
  pure { name := ← strF j "name", ns := nsOrDefault (← strD j "namespace" ""), selector := sel }

def replicaSet (j : Json) : Except String ReplicaSet := do
  let sel ← match fldOpt j "selector" with
    | none => pure {}
    | some .null => pure {}
    | some v => labelSel v
  pure { name := ← strF j "name", ns := nsOrDefault (← strD j "namespace" ""), selector := sel }

def scenario (j : Json) : Except String Scenario := do
  pure { its := ← listF it j "its", pools := ← listF pool j "pools", nodes := ← listF node j "nodes",
         daemonsets := ← listF daemonSet j "daemonsets", pods := ← listF pod j "pods",
         ignorePreferences := ← boolD j "ignorePreferences" false, bestEffortMinValues := ← boolD j "bestEffortMinValues" false,
         parallelism := (← natO j "parallelism").getD 1, reservedCapacity := ← boolD j "reservedCapacity" false,
         namespaces := ← listF namespaceJ j "namespaces", storageClasses := ← listF storageClass j "storageClasses",
         pvs := ← listF pv j "pvs", pvcs := ← listF pvc j "pvcs",
         listFaults := ← listF listFault j "listFaults", defaultSpreads := ← listF spread j "defaultSpreads",
         services := ← listF service j "services", replicaSets := ← listF replicaSet j "replicaSets" }

def snapReq (j : Json) : Except String Req := do
  pure { key := ← strF j "key", complement := ← boolF j "complement", values := ← listF asStr j "values",
         gte := ← intO j "gte", lte := ← intO j "lte", minValues := ← intO j "minValues" }

def claim (j : Json) : Except String Claim := do
  let reqs ← match fldOpt j "reqs" with
    | some (.obj kvs) => kvs.toList.mapM (fun (k, v) => do pure (k, ← snapReq v))
    | _ => pure []
  pure { pool := ← strF j "pool", pods := ← listF asStr j "pods", reqs := reqs, its := ← listF asStr j "instanceTypes",
         reqCPU := ← intF j "reqCPU", reqMem := ← intF j "reqMem", reqPods := ← intF j "reqPods", taints := ← listF taint j "taints" }

def outcome (j : Json) : Except String Outcome := do
  let existing ← listF (fun e => do pure ((← strF e "node"), (← listF asStr e "pods"))) j "existing"
  let errors ← match fldOpt j "errors" with
    | some (.obj kvs) => kvs.toList.mapM (fun (k, v) => do pure (k, ← asStr v))
    | _ => pure []
  pure { existing := existing, claims := ← listF claim j "claims", errors := errors }

/-- strings worth trying as label values when a claim's requirement is a complement set -/
def scenarioCandidates (s : Scenario) (out : Outcome) : List String :=
  let fromPods := (s.pods ++ s.nodes.flatMap (·.pods)).flatMap (fun p =>
    p.nodeSelector.map (·.2) ++ (p.required.flatten.flatMap (·.vals)) ++ (p.preferred.flatMap (fun pr => pr.exprs.flatMap (·.vals))))
  let fromPools := s.pools.flatMap (fun p => p.labels.map (·.2) ++ p.reqs.flatMap (·.vals))
  let fromClaims := out.claims.flatMap (fun c => c.reqs.flatMap (fun (_, r) => r.values))
  (fromPods ++ fromPools ++ fromClaims ++ ["zz-fresh-value", "0", "1"]).eraseDups

end Karp.Driver.ScenarioJson
