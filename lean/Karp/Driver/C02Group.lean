import Karp.Driver.ReqJson
import Karp.Model.Topo
import Karp.Spec.TopoSpec

/-! `c02.group`: operation sequences on the real `TopologyGroup` replayed on the model.  After every operation the
    counters and the `emptyDomains` index must agree; every `Get` answer must be one the model allows (the model
    returns the set of answers a Go map iteration can produce) and must satisfy the property's statement
    evaluated on the implementation's own counters. -/
namespace Karp.Driver.C02Group
open Lean Karp.Driver Karp.Driver.ReqJson Karp.Req Karp.Topo

def hostnameKey : String := "kubernetes.io/hostname"

def parseKind (s : String) : Except String Kind :=
  match s with
  | "spread" => pure .spread | "affinity" => pure .affinity | "anti" => pure .anti
  | _ => throw s!"bad kind {s}"

def sortS (l : List Val) : List Val := (l.toArray.qsort (· < ·)).toList
def sameSet (a b : List Val) : Bool := sortS a.eraseDups == sortS b.eraseDups

def parseSnap (j : Json) : Except String (DMap × List Val) := do
  let ds ← (← arrF j "domains").mapM (fun p => do
    pure ((← strF p "d"), (← natF p "c")))
  let em ← strList (← fld j "empty")
  pure (ds, em)

def snapEq (t : TG) (snap : DMap × List Val) : Bool :=
  let a := (t.domains.toArray.qsort (fun x y => x.1 < y.1)).toList
  let b := (snap.1.toArray.qsort (fun x y => x.1 < y.1)).toList
  a == b && sameSet t.empty snap.2 && t.empty.length == snap.2.length

def showSnap (t : TG) : String :=
  let a := (t.domains.toArray.qsort (fun x y => x.1 < y.1)).toList
  s!"domains={a} empty={sortS t.empty}"

def mkReq (key : String) (j : Json) : Except String Req := do
  let es ← (← asArr j).mapM parseExpr
  build key es

structure St where
  t    : TG
  snap : DMap × List Val     -- the implementation's snapshot before the next op
  i    : Nat := 0

def opGroup (inp impl : Json) : Except String Resp := do
  let kind ← parseKind (← strF inp "kind")
  let key ← strF inp "key"
  let maxSkew ← intF inp "maxSkew"
  let minDomains ← intO inp "minDomains"
  let ai ← boolF inp "affinityIgnore"
  let ds0 ← strList (← fld inp "domains")
  let ops ← arrF inp "ops"
  if (fldOpt impl "panic").isSome then
    return { allowed := some false, spec := some false, why := "the implementation panicked" }
  let isHost := key == hostnameKey
  let t0 := TG.new kind isHost maxSkew minDomains ai ds0
  let init ← parseSnap (← fld impl "init")
  if !snapEq t0 init then
    return { allowed := some false, why := s!"NewTopologyGroup: model {showSnap t0}, implementation differs" }
  if !Karp.Spec.Topo.indexOK init.1 init.2 then
    return { allowed := some true, spec := some false, why := "NewTopologyGroup: emptyDomains is not the set of zero-count domains" }
  let steps ← arrF impl "steps"
  if steps.length != ops.length then throw "steps/ops length mismatch"
  let mut st : St := { t := t0, snap := init }
  for (o, s) in ops.zip steps do
    let name ← strF o "op"
    let t := st.t
    let mut t' := t
    match name with
    | "record" => t' := t.record (← strList (← fld o "ds"))
    | "register" => t' := t.register (← strList (← fld o "ds"))
    | "unregister" => t' := t.unregister (← strList (← fld o "ds"))
    | "get" =>
      let self ← boolF o "self"
      let pod ← mkReq key (← fld o "pod")
      let node ← mkReq key (← fld o "node")
      let out ← strList (← fld s "out")
      let recorded ← strList (← fld s "recorded")
      -- the property's statement on the implementation's own counters
      let specOK := match kind with
        | .anti => Karp.Spec.Topo.antiOK st.snap.1 out
        | .affinity => Karp.Spec.Topo.affinityOK st.snap.1 self pod.has out
        | .spread => Karp.Spec.Topo.spreadOK st.snap.1 isHost maxSkew minDomains self (fun d => ai || pod.has d) out
      if !specOK then
        return { allowed := some true, spec := some false,
                 why := s!"step {st.i}: Get offered {sortS out} with counters {showSnap t}; this breaks the {repr kind} rule" }
      -- membership in the model relation
      let (ok, expect) := match kind with
        | .anti => (sameSet (t.antiGet pod node) out, s!"{sortS (t.antiGet pod node)}")
        | .affinity => ((t.affGet self pod node).allows out, s!"{repr (t.affGet self pod node)}")
        | .spread =>
          let valid := (fldOpt s "valid").bind (fun v => (strList v).toOption) |>.getD []
          ((t.spreadGet self pod node).allows out valid, s!"{repr (t.spreadGet self pod node)}")
      if !ok then
        return { allowed := some false,
                 why := s!"step {st.i}: Get returned {sortS out} (valid {(fldOpt s "valid")}), the model allows {expect}; state {showSnap t}" }
      t' := t.record recorded
    | _ => throw s!"bad op {name}"
    let snap' ← parseSnap s
    if !snapEq t' snap' then
      return { allowed := some false, why := s!"step {st.i} ({name}): model {showSnap t'}, implementation differs" }
    if !Karp.Spec.Topo.indexOK snap'.1 snap'.2 then
      return { allowed := some true, spec := some false, why := s!"step {st.i} ({name}): emptyDomains is not the set of zero-count domains" }
    st := { t := t', snap := snap', i := st.i + 1 }
  pure { allowed := some true, spec := some true }

end Karp.Driver.C02Group
