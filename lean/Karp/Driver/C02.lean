import Karp.Driver.ScenarioJson
import Karp.Spec.InterPod
import Karp.Driver.C02Group

namespace Karp.Driver.C02
open Lean Karp.Driver Karp.Driver.ScenarioJson Karp.Scn

/-- `c02.pass`: judge the end state of a real scheduling pass by the inter-pod specification -/
def opPass (inp impl : Json) : Except String Resp := do
  let s ← scenario inp
  match fldOpt impl "err" with
  | some (.str e) => if e != "" then return { allowed := some true, spec := some true, why := "pass returned an error: " ++ e } else pure ()
  | _ => pure ()
  if (fldOpt impl "panic").isSome then
    return { allowed := some false, spec := some false, why := "the scheduler panicked" }
  let out ← outcome impl
  match Karp.Spec.InterPod.outcomeOK s out with
  | none => pure { allowed := some true, spec := some true }
  | some why =>
    -- CLASSIFIES (never excuses): the scheduler itself logged "failed updating topology" (Topology.Update failed after a
    -- relaxation, here because of an injected API fault) and went on.  Update has by then removed the pod from all its topology
    -- groups, so the pod was placed without its inter-pod constraints (repaired in /repo by e23d5522f; the label is kept so that a regression is reported under a telling signature - no known finding matches it).  Violations of terms carried by pods that
    -- were already running do not go through that path and keep their plain signature.
    let logs := match fldOpt impl "errorLogs" with
      | some v => (listOf asStr v).toOption.getD []
      | none => []
    let degraded := logs.contains "failed updating topology"
    let (why, sigOverride) :=
      if degraded then
        match Karp.Spec.InterPod.runningCarriersOK s out with
        | some w => (w, none)
        | none => (why, some "continued-after-failed-topology-update")
      else (why, none)
    let sig := sigOverride.getD (why.splitOn ":").head!
    pure { allowed := some true, spec := some false, why := why, extra := some (jObj [("signature", jStr sig)]) }

def handle : Handler := fun op inp impl =>
  match op with
  | "c02.pass" => opPass inp impl
  | "c02.group" => Karp.Driver.C02Group.opGroup inp impl
  | _ => .error s!"unknown op {op}"

end Karp.Driver.C02
