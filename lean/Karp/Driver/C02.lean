import Karp.Driver.ScenarioJson
import Karp.Spec.InterPod
import Karp.Driver.C02Group

namespace Karp.Driver.C02
open Lean Karp.Driver Karp.Driver.ScenarioJson Karp.Scn

/-- `c02.pass`: judge the end state of a real scheduling pass by the inter-pod specification -/
def opPass (inp impl : Json) : Except String Resp := do
  let s ← scenario inp
  match fldOpt impl "err" with
  | some (.str e) => if e != "" then return { allowed := some true, spec := some true, why := "pass returned an error: " ++ e } else pure ()
  | _ => pure ()
  if (fldOpt impl "panic").isSome then
    return { allowed := some false, spec := some false, why := "the scheduler panicked" }
  let out ← outcome impl
  match Karp.Spec.InterPod.outcomeOK s out with
  | none => pure { allowed := some true, spec := some true }
  | some why =>
    let sig := (why.splitOn ":").head!
    pure { allowed := some true, spec := some false, why := why, extra := some (jObj [("signature", jStr sig)]) }

def handle : Handler := fun op inp impl =>
  match op with
  | "c02.pass" => opPass inp impl
  | "c02.group" => Karp.Driver.C02Group.opGroup inp impl
  | _ => .error s!"unknown op {op}"

end Karp.Driver.C02
