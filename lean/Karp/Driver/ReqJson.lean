/- JSON encoding of requirements / selector expressions shared by the C12, C13 (… C01) drivers. -/
import Karp.Driver.Proto
import Karp.Model.Req
import Karp.Spec.K8sSelector

namespace Karp.Driver.ReqJson
open Lean Karp.Driver Karp.Req Karp.Spec.K8s

def parseOp (s : String) : Op :=
  match s with
  | "In" => .in_ | "NotIn" => .notIn | "Exists" => .exists_ | "DoesNotExist" => .doesNotExist
  | "Gt" => .gt | "Lt" => .lt | "Gte" => .gte | "Lte" => .lte
  | _ => .other

def opName : Op → String
  | .in_ => "In" | .notIn => "NotIn" | .exists_ => "Exists" | .doesNotExist => "DoesNotExist"
  | .gt => "Gt" | .lt => "Lt" | .gte => "Gte" | .lte => "Lte" | .other => "Other"

structure ExprJ where
  op : Op
  values : List Val
  minValues : Option Int

def parseExpr (j : Json) : Except String ExprJ := do
  let op := parseOp (← strF j "op")
  let values ← strList (← fld j "values")
  let mv ← intO j "minValues"
  pure { op, values, minValues := mv }

/-- sorted, duplicate-free -/
def canonVals (l : List Val) : List Val := sortedVals l

def snap (r : Req) : Json :=
  jObj [("key", jStr r.key), ("complement", jBool r.complement), ("values", jArr ((canonVals r.values).map jStr)),
        ("gte", jOptInt r.gte), ("lte", jOptInt r.lte), ("minValues", jOptInt r.minValues)]

/-- build a requirement the way the harness does: `New(e0).Intersection(New(e1))…` (receiver = accumulated) -/
def build (key : String) (es : List ExprJ) : Except String Req := do
  match es with
  | [] => throw "no expressions"
  | e :: rest =>
    let mk (e : ExprJ) : Except String Req :=
      match Req.new key e.op e.minValues e.values with
      | .ok r => pure r
      | .error _ => throw "panic"
    let r0 ← mk e
    rest.foldlM (fun acc e => do pure (acc.inter (← mk e))) r0

/-- the Kubernetes reading of the same expression list on a present label value -/
def specHas (es : List ExprJ) (v : Val) : Bool := es.all (fun e => k8sMatch e.op e.values (some v))
def allValid (es : List ExprJ) : Bool := es.all (fun e => validOperands e.op e.values)

/-- candidate witnesses: complete for "∃ value satisfying the conjunction" (see DESIGN C12 tie) -/
def candidates (ess : List (List ExprJ)) (extra : List Val) : List Val :=
  let es := ess.flatten
  let mentioned := (es.map (·.values)).flatten ++ extra
  let ints : List Int := (es.filterMap (fun e =>
      match e.op, e.values with
      | .gt, [n] | .lt, [n] | .gte, [n] | .lte, [n] => atoi n
      | _, _ => none)).flatMap (fun j => [j - 1, j, j + 1])
  let ints := ints.filter (fun i => decide (minInt ≤ i) && decide (i ≤ maxInt))
  let pads := List.range (mentioned.length + 2)
  let padded : List Val := ints.flatMap (fun i => pads.map (fun k =>
      let body := toString i.natAbs
      let z := String.ofList (List.replicate k '0')
      if i < 0 then "-" ++ z ++ body else z ++ body))
  let fresh : Val := String.ofList (List.replicate ((mentioned.foldl (fun m s => max m s.length) 0) + 1) 'z')
  (mentioned ++ padded ++ [fresh]).eraseDups

end Karp.Driver.ReqJson
