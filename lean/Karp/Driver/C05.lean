import Karp.Driver.Proto
import Karp.Model.Budget
import Karp.Spec.BudgetWindow
import Karp.Spec.Cron

/-!
Driver for C05.  Ops:

* `c05.active`   — `Budget.IsActive` / `GetAllowedDisruptions` of one budget at one instant
* `c05.allowed`  — `NodePool.GetAllowedDisruptionsByReason` / `MustGetAllowedDisruptions`
* `c05.reasons`  — the same, on budget lists with a non-nil empty `reasons` list (known finding C05-empty-reasons)
* `c05.mapping`  — `disruption.BuildDisruptionBudgetMapping` on a cluster
* `c05.select`   — one method's `ComputeCommands` (+ its real validator) on a cluster
* `c05.rounds`   — histories through the real `Controller.Reconcile` with the real orchestration queue; the queue's
  life cycle (`start` / `finish` / informer `sync`, `Model/Budget.lean` §queue) is replayed along the event log and its
  prediction of `StateNode.MarkedForDeletion()` compared with the real cluster state before every round

The cron parameter of the model is instantiated with the answers the real `robfig/cron` gave for exactly the
`(schedule, checkpoint)` pairs the code asks (table `cron` in the implementation's output); `allowed` also says whether
those answers satisfy the cron specification (`Spec/Cron.lean`: same strings parse, `Next` = least activation after).
-/

namespace Karp.Driver.C05
open Lean Karp.Driver Karp.Budget
open Karp.Spec.BudgetWindow

/-! ### decoding -/

def nsPerMin : Int := 60000000000

def parseBudget (j : Json) : Except String Budget := do
  let reasons ← match fldOpt j "reasons" with
    | none => pure none
    | some v => do pure (some (← strList v))
  let nodes ← strF j "nodes"
  let schedule ← strO j "schedule"
  let dur ← intO j "durationMin"
  pure { reasons := reasons, nodes := nodes.toList, schedule := schedule, duration := dur.map (· * nsPerMin) }

def parseBudgets (j : Json) (k : String) : Except String (List Budget) := do
  (← arrD j k).mapM parseBudget

structure CronEntry where
  s    : String
  t    : Int
  ok   : Bool
  next : Option Int

def parseCronTable (impl : Json) : Except String (List CronEntry) := do
  (← arrD impl "cron").mapM (fun e => do
    pure { s := ← strF e "s", t := ← intF e "t", ok := ← boolF e "ok", next := ← intO e "next" })

/-- the model's cron parameter, from what the real library answered -/
def cronOf (tbl : List CronEntry) : Cron := fun s =>
  let es := tbl.filter (fun e => e.s == s)
  if es.isEmpty || es.any (fun e => !e.ok) then none
  else some (fun t => match es.find? (fun e => e.t == t) with
    | some e => e.next
    | none => none)

/-- how far the least-activation claim of `Next` is checked, in minutes -/
def scanMinutes : Int := 1500

/-- does the library's answer satisfy the cron specification? -/
def cronEntryOK (e : CronEntry) : Bool :=
  match Karp.Spec.Cron.parse e.s with
  | none => !e.ok
  | some sc =>
    e.ok &&
    (match e.next with
     | some h =>
       Karp.Spec.Cron.hit sc h && decide (e.t < h) &&
       !((minuteMultiples e.t (min (h - 1) (e.t + scanMinutes * nsPerMin))).any (Karp.Spec.Cron.hit sc))
     | none => !((minuteMultiples e.t (e.t + scanMinutes * nsPerMin)).any (Karp.Spec.Cron.hit sc)))

def cronTableOK (tbl : List CronEntry) : Bool × String :=
  match tbl.find? (fun e => !cronEntryOK e) with
  | none => (true, "")
  | some e => (false, s!"cron library disagrees with the cron specification for schedule {repr e.s} after t={e.t}: ok={e.ok} next={repr e.next}")

def jCron (tbl : List CronEntry) : Json :=
  jArr (tbl.map (fun e => jObj [("s", jStr e.s), ("t", jInt e.t), ("ok", jBool e.ok), ("next", jOptInt e.next)]))

def hitOf : HitOf := Karp.Spec.Cron.hitOf

/-- admission precondition on `nodes` (CRD pattern): `<digits>` or `<digits>%` -/
def nodesAdmissible (bs : List Budget) : Bool := bs.all (fun b => nodesSpec b.nodes != .malformed)

/-! ### c05.active -/

def opActive (inp impl : Json) : Except String Resp := do
  let b ← parseBudget (← fld inp "budget")
  let now ← intF inp "nowNs"
  let total ← intF inp "numNodes"
  let tbl ← parseCronTable impl
  let cron := cronOf tbl
  let act := isActive cron b now
  let ba := budgetAllowed cron b now total
  let model := jObj [
    ("active", jBool (act == some true)), ("err", jBool act.isNone),
    ("allowed", jInt ba.1), ("allowedErr", jBool ba.2), ("cron", jCron tbl)]
  let (cok, cwhy) := cronTableOK tbl
  -- the property on what the real code answered
  let iActive ← boolF impl "active"
  let iErr ← boolF impl "err"
  let iAllowed ← intF impl "allowed"
  let iAllowedErr ← boolF impl "allowedErr"
  let noneCase := tbl.any (fun e => e.ok && e.next.isNone)
  let mal := malformed hitOf b
  let sAct := active hitOf b now
  let schedMal := match b.schedule with | none => false | some s => (hitOf s).isNone
  let (ok, why) :=
    if schedMal then
      if iErr && iAllowedErr && iAllowed == 0 then (true, "")
      else (false, "a budget with an unreadable schedule must be reported as an error and allow 0")
    else if iErr then
      -- failing closed on a readable schedule is on the safe side (e.g. a duration without a schedule)
      if iAllowed == 0 then (true, "") else (false, "IsActive reports an error but the budget does not allow 0")
    else if sAct && !iActive then (false, "the instant lies in [hit, hit+duration) of some activation but IsActive is false")
    else if !sAct && iActive && !noneCase then (false, "no activation h with h ≤ now < h+duration, yet IsActive is true")
    else if !iActive then
      (true, "")
    else if b.nodes.head? == some '+' || b.nodes.head? == some '-' then
      (true, "")   -- a signed value is outside the admission pattern: judged by the model comparison only
    else if mal then
      if iAllowed ≤ 0 then (true, "") else (false, "an active budget with a malformed `nodes` value must allow 0")
    else if nodesSpec b.nodes == .malformed then (true, "")
    else if total < 0 then (true, "")
    else if iAllowed > (limit b total.toNat : Int) then
      (false, s!"active budget allows {iAllowed}, more than its limit {limit b total.toNat}")
    else if (limit b total.toNat : Int) ≤ 2147483647 && iAllowed != (limit b total.toNat : Int) then
      (false, s!"active budget allows {iAllowed}, but its count / percentage rounded up is {limit b total.toNat}")
    else (true, "")
  pure { model := some model, allowed := some cok, spec := some ok, why := if cok then why else cwhy }

/-! ### c05.allowed -/

def opAllowed (inp impl : Json) : Except String Resp := do
  let bs ← parseBudgets inp "budgets"
  let now ← intF inp "nowNs"
  let total ← intF inp "numNodes"
  let reason ← strF inp "reason"
  let tbl ← parseCronTable impl
  let cron := cronOf tbl
  let r := allowedByReason cron bs now total reason
  let must := mustAllowed cron bs now total reason
  let per := bs.map (fun b => let x := budgetAllowed cron b now total; jObj [("val", jInt x.1), ("err", jBool x.2)])
  let model := jObj [("byReason", jInt r.1), ("err", jBool r.2), ("must", jInt must), ("per", jArr per), ("cron", jCron tbl)]
  let (cok, cwhy) := cronTableOK tbl
  let iMust ← intF impl "must"
  let (spec, why) :=
    if total < 0 then (none, "")
    else if nodesAdmissible bs then
      let s := specAllowed hitOf bs now total.toNat reason
      if leAllowed iMust s then (some true, "")
      else (some false, s!"MustGetAllowedDisruptions = {iMust} for reason {reason}, but the most restrictive active budget allows {repr s}")
    else
      -- outside the admission precondition on `nodes`: only the fail-closed part is judged
      if bs.any (fun b => nodesSpec b.nodes == .malformed && !(b.nodes.head? == some '+' || b.nodes.head? == some '-') && active hitOf b now) then
        if iMust ≤ 0 then (some true, "") else (some false, "an active budget with a malformed `nodes` value must make the pool allow 0")
      else (none, "")
  pure { model := some model, allowed := some cok, spec := spec, why := if cok then why else cwhy }

/-! ### clusters -/

def parseNode (j : Json) : Except String Node := do
  let unmanaged ← boolD j "unmanaged" false
  let ready ← boolD j "ready" false
  let readyMissing ← boolD j "readyMissing" false
  let marked ← boolD j "marked" false
  let deleting ← boolD j "deleting" false
  pure {
    name := ← strF j "name", pool := ← strF j "pool",
    managed := !unmanaged, initialized := ← boolD j "initialized" false,
    terminating := ← boolD j "terminating" false,
    ready := ready && !readyMissing,
    -- "being deleted": marked by an in-flight command, or the NodeClaim has a deletion timestamp
    marked := marked || deleting }

structure PoolIn where
  pool      : Pool
  unmanaged : Bool
  static    : Bool
  replicas  : Int
  nodeLimit : Int

def parsePool (j : Json) : Except String PoolIn := do
  pure {
    pool := { name := ← strF j "name", budgets := ← parseBudgets j "budgets" },
    unmanaged := ← boolD j "unmanaged" false,
    static := ← boolD j "static" false,
    replicas := (← intO j "replicas").getD 0,
    nodeLimit := (← intO j "nodeLimit").getD (-1) }

def sortPairs (l : List (String × Nat)) : List (String × Nat) := (l.toArray.qsort (fun a b => a.1 < b.1)).toList

def jPairs (l : List (String × Nat)) : Json := jArr ((sortPairs l).map (fun (k, v) => jArr [jStr k, jNat v]))

def parsePairs (j : Json) : Except String (List (String × Nat)) := do
  (← asArr j).mapM (fun e => do
    match ← asArr e with
    | [k, v] => pure (← asStr k, ← asNat v)
    | _ => throw "bad pair")

/-! ### c05.mapping -/

def opMapping (inp impl : Json) : Except String Resp := do
  let pools ← (← arrF inp "pools").mapM parsePool
  let nodes ← (← arrF inp "nodes").mapM parseNode
  let now ← intF inp "nowNs"
  let reason ← strF inp "reason"
  let tbl ← parseCronTable impl
  let cron := cronOf tbl
  let managed := (pools.filter (fun p => !p.unmanaged)).map (·.pool)
  let m := buildMapping cron managed nodes now reason
  let model := jObj [("mapping", jPairs m), ("cron", jCron tbl)]
  let (cok, cwhy) := cronTableOK tbl
  let im ← parsePairs (← fld impl "mapping")
  let remaining : String → Nat := fun k => (im.lookup k).getD 0
  let (spec, why) :=
    if managed.all (fun p => nodesAdmissible p.budgets) then
      match managed.find? (fun p => !poolBoundOK hitOf p nodes now reason (remaining p.name)) with
      | none => (some true, "")
      | some p => (some false, s!"pool {p.name}: the mapping allows {remaining p.name} more disruptions for {reason} with {alreadyDisrupting nodes p.name} of its {poolSize nodes p.name} initialized nodes already not ready or being deleted, but the most restrictive active budget allows {repr (specAllowed hitOf p.budgets now (poolSize nodes p.name) reason)}")
    else (none, "")
  pure { model := some model, allowed := some cok, spec := spec, why := if cok then why else cwhy }

/-! ### c05.select -/

def methodOf (s : String) : Except String Method :=
  match s with
  | "emptiness" => pure .emptiness
  | "static" => pure .staticDrift
  | "drift" => pure .drift
  | "multi" => pure .multi
  | "single" => pure .single
  | _ => throw s!"bad method {s}"

/-- the world after the mutations the harness applies while the validator "waits" -/
def applyLater (nodes : List Node) (later : Json) : Except String (List Node × Int × List String) := do
  let notReady ← (← arrD later "notReady").mapM asStr
  let mark ← (← arrD later "mark").mapM asStr
  let nominate ← (← arrD later "nominate").mapM asStr
  let adv ← match fldOpt later "advanceSec" with | none => pure 0 | some v => asInt v
  let nodes' := nodes.map (fun n =>
    { n with ready := n.ready && !notReady.contains n.name, marked := n.marked || mark.contains n.name })
  pure (nodes', adv * 1000000000, nominate)

def countIn (nodes : List Node) (pool : String) (names : List String) : Nat := selectedIn nodes pool names

def opSelect (inp impl : Json) : Except String Resp := do
  let pools ← (← arrF inp "pools").mapM parsePool
  let nodes ← (← arrF inp "nodes").mapM parseNode
  let now ← intF inp "nowNs"
  let method ← methodOf (← strF inp "method")
  let reason := method.reason
  let nop := ((← strO inp "validator").getD "real") == "nop"
  let later := if nop then Json.mkObj [] else (fldOpt inp "later").getD (Json.mkObj [])
  let (nodesL, advNs, nominated) ← applyLater nodes later
  let laterNoop := advNs == 0 && nodesL == nodes && nominated.isEmpty
  let tbl ← parseCronTable impl
  let cron := cronOf tbl
  let (cok, cwhy) := cronTableOK tbl
  let managed := (pools.filter (fun p => !p.unmanaged)).map (·.pool)
  -- what the real code did
  let iMap ← parsePairs (← fld impl "mapping")
  let cands ← strList (← fld impl "candidates")
  let cmds ← listOf strList (← fld impl "commands")
  let validated ← boolD impl "validated" false
  let accepted := cmds.flatten
  -- per node: (pods, driftedAgoSec)
  let extras ← (← arrF inp "nodes").mapM (fun j => do
    pure ((← strF j "name"), (((← natO j "pods").getD 0), ((← intO j "driftedAgoSec").getD 0))))
  let statics ← (← arrD impl "static").mapM (fun j => do
    pure ((← strF j "pool"), ((← intF j "running"), (← intF j "deleting"), (← intF j "pending"))))
  let m := buildMapping cron managed nodes now reason
  let mL := buildMapping cron managed nodesL (now + advNs) reason
  let mf : Mapping := Mapping.ofList m
  let mLf : Mapping := Mapping.ofList mL
  -- the model relation (budget accounting given the candidate set the real code computed)
  let mappingEq := sortPairs m == sortPairs iMap
  let sub := accepted.all (fun a => cands.contains a) && accepted.eraseDups.length == accepted.length
  let perPool (f : String → Nat → Nat → Bool) : Bool :=
    managed.all (fun p => f p.name (countIn nodes p.name accepted) (countIn nodes p.name cands))
  let validatedMethod := !nop && (method == .emptiness || method == .multi || method == .single)
  let laterBound := !validatedMethod || !validated || perPool (fun p k _ => k ≤ mLf p)
  let rel : Bool × String :=
    if !mappingEq then (false, "mapping differs from the model")
    else if !sub then (false, "an accepted node is not a candidate, or is accepted twice")
    else if !laterBound then (false, "accepted more than the mapping rebuilt at validation time")
    else match method with
      | .emptiness =>
        if cmds.length > 1 then (false, "emptiness returned more than one command")
        else if laterNoop then
          (perPool (fun p k c => k == min (mf p) c), "emptiness must take min(mapping, empty candidates) of each pool")
        else (perPool (fun p k c => k ≤ min (mf p) c), "emptiness took more than min(mapping, candidates)")
      | .multi =>
        if cmds.length > 1 then (false, "multi returned more than one command")
        else (perPool (fun p k c => k ≤ min (mf p) c) && accepted.length != 1, "multi took more than min(mapping, candidates), or a single node")
      | .single =>
        if accepted.length > 1 then (false, "more than one candidate")
        else (perPool (fun p k _ => k == 0 || mf p != 0), "candidate of a pool whose mapping is 0")
      | .drift =>
        if accepted.length > 1 then (false, "more than one candidate")
        else if !perPool (fun p k _ => k == 0 || mf p != 0) then (false, "candidate of a pool whose mapping is 0")
        else
          -- empty candidates come first, oldest drift first; an empty candidate always passes the simulation
          let poolOf (n : String) : String := match nodes.find? (fun x => x.name == n) with | some x => x.pool | none => ""
          let eligible := cands.filter (fun c => mf (poolOf c) != 0 && (extras.lookup c).map (·.1) == some 0)
          match eligible with
          | [] => (true, "")
          | e :: es =>
            let ago (n : String) : Int := ((extras.lookup n).map (·.2)).getD 0
            let best := es.foldl (fun b c => if ago c > ago b then c else b) e
            (accepted == [best], s!"drift must pick the empty candidate that drifted first among pools with budget ({best})")
      | .staticDrift =>
        if cmds.any (fun c => c.length != 1) then (false, "static drift commands have exactly one candidate")
        else
          let exact := pools.all (fun p =>
            p.unmanaged || (
              let k := countIn nodes p.pool.name accepted
              let c := countIn nodes p.pool.name cands
              match statics.find? (fun s => s.1 == p.pool.name) with
              | none => k == 0
              | some (_, running, deleting, pending) =>
                let limit : Int := if p.nodeLimit < 0 then 9223372036854775807 else p.nodeLimit
                k == staticCount (mf p.pool.name) c (decide ((running + pending : Int) > p.replicas)) (limit - (running + deleting + pending : Int))))
          (exact, "static drift must disrupt exactly staticCount(mapping, candidates, replicas, node limit) nodes of each pool")
  let relOk := rel.1
  -- the property on what the real code accepted: bound on the world the budget was last computed on
  let (dNodes, dNow) := if validatedMethod && validated then (nodesL, now + advNs) else (nodes, now)
  let (spec, why) :=
    if managed.all (fun p => nodesAdmissible p.budgets) then
      match managed.find? (fun p => !poolBoundOK hitOf p dNodes dNow reason (countIn nodes p.name accepted)) with
      | none => (some true, "")
      | some p => (some false, s!"{reason}: {countIn nodes p.name accepted} node(s) of pool {p.name} newly selected with {alreadyDisrupting dNodes p.name} of its {poolSize dNodes p.name} initialized nodes already not ready or being deleted; the most restrictive active budget allows {repr (specAllowed hitOf p.budgets dNow (poolSize dNodes p.name) reason)}")
    else (none, "")
  let okAll := cok && relOk
  pure { allowed := some okAll, spec := spec,
         why := if spec == some false then why else if !cok then cwhy else if !relOk then rel.2 else why,
         extra := some (jObj [("modelMapping", jPairs m), ("modelLaterMapping", jPairs mL)]) }

/-! ### c05.rounds -/

/-- a node of a round snapshot: "being deleted" for the specification is what an observer of the queue and the API
    server sees (initially marked / held by a queued command / NodeClaim deleting in the API), never the cluster
    state's own mark -/
def parseSnapNode (j : Json) : Except String Node := do
  let n ← parseNode j
  let inFlight ← boolD j "inFlight" false
  let apiDeleting ← boolD j "apiDeleting" false
  pure { n with marked := n.marked || inFlight || apiDeleting }

def ensureTracks (names : List String) (ts : List Track) : List Track :=
  names.foldl (fun acc n => qstepCode acc (.appear n)) ts

def trackOf (ts : List Track) (name : String) : Track :=
  (ts.find? (fun t => t.name == name)).getD (Track.fresh name)

/-- the life-cycle state the history starts from -/
def initialTracks (nodes : List Json) : Except String (List Track) :=
  nodes.mapM (fun j => do
    let unmanaged ← boolD j "unmanaged" false
    let deleting := (← boolD j "deleting" false) && !unmanaged
    pure { name := ← strF j "name", mark := ← boolD j "marked" false, seen := deleting, api := deleting, inFlight := false })

def opRounds (inp impl : Json) : Except String Resp := do
  let pools ← (← arrF inp "pools").mapM parsePool
  let tbl ← parseCronTable impl
  let cron := cronOf tbl
  let (cok, cwhy) := cronTableOK tbl
  let managed := (pools.filter (fun p => !p.unmanaged)).map (·.pool)
  let rounds ← arrD impl "rounds"
  let mut relWhy := ""
  let mut specWhy := ""
  let adm := managed.all (fun p => nodesAdmissible p.budgets)
  let mut idx := 0
  for r in rounds do
    let nodes ← (← arrF r "nodes").mapM parseSnapNode
    let now ← intF r "nowNs"
    let cmds ← arrD r "commands"
    -- all commands of one reconcile come from one method, hence one reason
    for c in cmds do
      let reason ← strF c "reason"
      let names ← strList (← fld c "names")
      let m : Mapping := Mapping.ofList (buildMapping cron managed nodes now reason)
      -- commands of the same reconcile and reason share the mapping
      let sameReason ← cmds.filterM (fun c' => do pure ((← strF c' "reason") == reason))
      let all := (← sameReason.mapM (fun c' => do strList (← fld c' "names"))).flatten
      for p in managed do
        let k := selectedIn nodes p.name all
        if k > m p.name && relWhy.isEmpty then
          relWhy := s!"round {idx}: {k} nodes of pool {p.name} accepted for {reason}, the model mapping allows {m p.name}"
        if adm && !poolBoundOK hitOf p nodes now reason k && specWhy.isEmpty then
          specWhy := s!"round {idx}, {reason}: {k} node(s) of pool {p.name} newly accepted ({names}) with {alreadyDisrupting nodes p.name} of its {poolSize nodes p.name} initialized nodes already not ready or being deleted; the most restrictive active budget allows {repr (specAllowed hitOf p.budgets now (poolSize nodes p.name) reason)}"
      if names.any (fun n => nodes.any (fun x => x.name == n && x.marked)) && relWhy.isEmpty then
        relWhy := s!"round {idx}: a node already marked for deletion was accepted again"
    idx := idx + 1
  -- the queue's life cycle along the event log: where "being deleted" lives (in-memory mark / API / cluster state's
  -- copy / queue), replayed with the model's step function and compared with the real cluster state before each round
  let mut ts ← initialTracks (← arrD inp "nodes")
  for e in (← arrD impl "log") do
    let kind ← strF e "kind"
    if kind == "reconcile" then
      let ri := (← intF e "round").toNat
      match rounds[ri]? with
      | none => throw s!"log refers to round {ri}, which does not exist"
      | some r =>
        for j in (← arrF r "nodes") do
          match fldOpt j "stateMarked" with
          | none => pure ()
          | some sm =>
            let name ← strF j "name"
            let t := trackOf ts name
            let stateMarked ← asBool sm
            let terminating ← boolD j "terminating" false
            let inFlight ← boolD j "inFlight" false
            let apiDeleting ← boolD j "apiDeleting" false
            if relWhy.isEmpty then
              if (inFlight || apiDeleting) && !stateMarked then
                relWhy := s!"round {ri}: node {name} is held by a queued command or its NodeClaim is deleting in the API server (inFlight={inFlight}, apiDeleting={apiDeleting}), but the cluster state does not count it as marked for deletion (life-cycle invariant of the model, C05_lag_counted)"
              else if t.inFlight != inFlight || t.api != apiDeleting then
                relWhy := s!"round {ri}: node {name}: the model's queue/API state (inFlight={t.inFlight}, api={t.api}) differs from the real one (inFlight={inFlight}, apiDeleting={apiDeleting})"
              else if (t.stateMarked || terminating) != stateMarked then
                relWhy := s!"round {ri}: node {name}: the model predicts MarkedForDeletion()={t.stateMarked || terminating} (mark={t.mark}, seen={t.seen}), the real cluster state says {stateMarked}"
        for c in (← arrD r "commands") do
          let names ← strList (← fld c "names")
          ts := ensureTracks names ts
          if !(QStep.start names).pre ts && relWhy.isEmpty then
            relWhy := s!"round {ri}: the command {names} was started on a node that the model has as marked for deletion or in flight"
          ts := qstepCode ts (.start names)
    else
      for c in (← arrD e "cmds") do
        let names ← strList (← fld c "names")
        let ok ← boolF c "succeeded"
        ts := ensureTracks names ts
        if !(QStep.finish names ok).pre ts && relWhy.isEmpty then
          relWhy := s!"event {kind}: the command {names} finished but the model does not have it in the queue"
        ts := qstepCode ts (.finish names ok)
    let synced ← match fldOpt e "synced" with | none => pure [] | some v => strList v
    ts := ensureTracks synced ts
    ts := qstepCode ts (.sync synced)
    if !ts.all Track.inv && relWhy.isEmpty then
      relWhy := s!"event {kind}: the life-cycle invariant of the model is violated"
  let relOk := relWhy.isEmpty
  pure { allowed := some (cok && relOk), spec := if adm then some specWhy.isEmpty else none,
         why := if !specWhy.isEmpty then specWhy else if !cok then cwhy else if !relOk then relWhy else specWhy }

def handle : Handler := fun op inp impl =>
  match op with
  | "c05.active" => opActive inp impl
  | "c05.allowed" => opAllowed inp impl
  | "c05.reasons" => opAllowed inp impl
  | "c05.mapping" => opMapping inp impl
  | "c05.select" => opSelect inp impl
  | "c05.rounds" => opRounds inp impl
  | _ => .error s!"unknown op {op}"

end Karp.Driver.C05
