import Karp.Driver.ScenarioJson
import Karp.Model.ConsolidateScn
import Karp.Spec.Consolidation

namespace Karp.Driver.C06
open Lean Karp.Driver Karp.Driver.ReqJson Karp.Driver.ScenarioJson Karp.Req Karp.Scn
open Karp.Consolidate (IType Cand Sim Decision offeringOf itypeOf candOf)
abbrev MClaim := Karp.Consolidate.Claim


def ridKey : String := Karp.Gen.C06Facts.testReservationIDLabel

/-! ### scenario → model vocabulary -/

/-! ### JSON -/

structure ClaimJ where
  pool : String
  pods : List String
  reqs : Reqs
  its : List String

def claimJ (j : Json) : Except String ClaimJ := do
  let reqs ← match fldOpt j "reqs" with
    | some (.obj kvs) => kvs.toList.mapM (fun (k, v) => do pure (k, ← snapReq v))
    | _ => pure []
  pure { pool := ← strF j "pool", pods := ← listF asStr j "pods", reqs := reqs, its := ← listF asStr j "its" }

def ClaimJ.toScn (c : ClaimJ) : Scn.Claim :=
  { pool := c.pool, pods := c.pods, reqs := c.reqs, its := c.its, reqCPU := 0, reqMem := 0, reqPods := 0, taints := [] }

def ClaimJ.toModel (s : Scenario) (c : ClaimJ) : MClaim :=
  { reqs := c.reqs, its := (c.its.filterMap s.it?).map itypeOf }

def podInfo (j : Json) : Except String Karp.Spec.Consolidation.PodInfo := do
  let phase := (← strO j "phase").getD ""
  pure { pod := ← strF j "pod", delCost := ← intO j "delCost", prio := ← intO j "priority", terminal := phase == "Succeeded" || phase == "Failed" }

def simOf (s : Scenario) (j : Json) (view : String → Scenario := fun _ => s) : Except String (Option Sim) := do
  if (← strF j "err") != "" then return none
  let claims ← listF claimJ j "claims"
  -- the options of a new NodeClaim are its NodePool's instance types (that NodePool's prices)
  pure (some { allScheduled := ← boolF j "allScheduled", claims := claims.map (fun c => ClaimJ.toModel (view c.pool) c) })

def reqEq (a b : Req) : Bool :=
  a.key == b.key && a.complement == b.complement && sortedVals a.values == sortedVals b.values &&
  a.gte == b.gte && a.lte == b.lte && a.minValues == b.minValues

def reqsEq (A B : Reqs) : Bool :=
  A.length == B.length && A.all (fun (k, r) => match B.lookup k with | some q => reqEq r q | none => false)

def sortS (l : List String) : List String := (l.toArray.qsort (· < ·)).toList

/-! ### price tables per NodePool (`tables` of the input) -/

abbrev Tables := Karp.Spec.Consolidation.Tables

def tablesOf (inp : Json) : Except String Tables :=
  match fldOpt inp "tables" with
  | some (.arr a) => a.toList.mapM (fun j => do pure ((← strF j "pool"), (← listF it j "its")))
  | _ => pure []

/-- the scenario as NodePool `pool` is charged for the catalog -/
def viewOf (t : Tables) (s : Scenario) (pool : String) : Scenario := Karp.Spec.Consolidation.poolView t s pool

/-- a candidate of the model: the node with the offerings of its type in ITS NodePool's table -/
def candOfT (t : Tables) (s : Scenario) (n : Scn.Node) : Cand := candOf (viewOf t s n.pool) n

/-- the tables must differ from the catalog in prices only (same types, same offerings in the same order) -/
def tablesPriceOnly (t : Tables) (s : Scenario) : Bool :=
  t.all (fun (_, its) => its.length == s.its.length && (its.zip s.its).all (fun (a, b) =>
    a.name == b.name && a.cpu == b.cpu && a.mem == b.mem && a.pods == b.pods && a.arch == b.arch && a.overhead == b.overhead &&
    a.offerings.length == b.offerings.length && (a.offerings.zip b.offerings).all (fun (x, y) =>
      x.zone == y.zone && x.ct == y.ct && x.available == y.available && x.resID == y.resID)))

/-- churn `unavail` reaches every NodePool's table -/
def churnTables (t : Tables) (ch : Option Json) : Except String Tables :=
  match ch with
  | none => pure t
  | some c => (c :: (match fldOpt c "also" with | some (.arr a) => a.toList | _ => [])).foldlM (fun t e => do
      if (← strF e "kind") != "unavail" then pure t else
      let itn ← strF e "it"
      pure (t.map (fun (p, its) => (p, its.map (fun it =>
        if it.name == itn then { it with offerings := it.offerings.map (fun o => { o with available := false }) } else it))))) t

/-- one change applied to the scenario (the specification judges the command against the cluster as it is when
    the command is released) -/
def applyChurn1 (s : Scenario) (c : Json) : Except String Scenario := do
  let kind ← strF c "kind"
  match kind with
  | "pod" => do let p ← pod (← fld c "pod"); pure { s with pods := s.pods ++ [p] }
  | "bound" => do
    let p ← pod (← fld c "pod")
    let nn ← strF c "node"
    pure { s with nodes := s.nodes.map (fun n => if n.name == nn then { n with pods := n.pods ++ [p] } else n) }
  | "unavail" => do
    let itn ← strF c "it"
    pure { s with its := s.its.map (fun it => if it.name == itn then { it with offerings := it.offerings.map (fun o => { o with available := false }) } else it) }
  | "delnode" => do
    let nn ← strF c "node"
    pure { s with nodes := s.nodes.map (fun n => if n.name == nn then { n with deleting := true } else n) }
  -- a nomination changes no object of the cluster (it is state of the autoscaler)
  | "nominate" => pure s
  | k => throw s!"bad churn {k}"

/-- the change and the changes delivered with it (`also`), in order -/
def churnEvents (c : Json) : List Json :=
  c :: (match fldOpt c "also" with | some (.arr a) => a.toList | _ => [])

/-- the churn applied to the scenario -/
def applyChurn (s : Scenario) (ch : Option Json) : Except String Scenario :=
  match ch with
  | none => pure s
  | some c => (churnEvents c).foldlM applyChurn1 s

/-- does the real command agree with the model's decision?  Relational where the code may choose
    (the order among price ties decides which options survive the spot-to-spot cut). -/
def agrees (dec : Decision) (simClaim : Option MClaim) (cmd : Option (String × List ClaimJ)) : Bool × String :=
  match dec, cmd with
  | .noop, none => (true, "")
  | .noop, some (d, _) => (false, s!"model: no command; implementation: {d}")
  | .delete, some ("delete", _) => (true, "")
  | .delete, some (d, _) => (false, s!"model: delete; implementation: {d}")
  | .delete, none => (false, "model: delete; implementation: no command")
  | .replace _ _ _, none => (false, "model: replace; implementation: no command")
  | .replace R kept n, some (d, repl) =>
    if d != "replace" then (false, s!"model: replace; implementation: {d}") else
    match repl with
    | [c] =>
      if !reqsEq R c.reqs then (false, "the replacement's final requirements differ from the model's") else
      let keptNames := kept.map (·.name)
      if n ≥ kept.length then
        if sortS keptNames == sortS c.its then (true, "") else
          (false, s!"replacement options: model {sortS keptNames}, implementation {sortS c.its}")
      else
        -- truncated to the cheapest `n` (ties in the sort key may fall either way)
        let okSubset := c.its.all keptNames.contains && c.its.eraseDups.length == c.its.length
        let okLen := if Karp.Consolidate.hasMinValues R then decide (min Karp.Consolidate.minSpot kept.length ≤ c.its.length) else c.its.length == n
        let key (it : IType) : Option Nat := match simClaim with | some sc => Karp.Consolidate.orderKey ridKey sc.reqs it | none => none
        let dropped := kept.filter (fun it => !c.its.contains it.name)
        let chosen := kept.filter (fun it => c.its.contains it.name)
        let okCheapest := dropped.all (fun d => chosen.all (fun k => !Karp.Consolidate.priceLt (key d) (key k)))
        if okSubset && okLen && okCheapest then (true, "") else
          (false, s!"truncated replacement options are not the cheapest {n} of the model's {kept.length} (subset {okSubset}, length {okLen}, cheapest-first {okCheapest})")
    | _ => (false, "model: one replacement")

def specVerdict (v : Karp.Spec.Consolidation.Verdict) (allowed : Bool) (whyA : String) : Resp :=
  match v with
  | none => { allowed := some allowed, spec := some true, why := whyA }
  | some (sig, why) => { allowed := some allowed, spec := some false, why := why, extra := some (jObj [("signature", jStr sig)]) }

/-- the command's replacement as `validateCommand` reads it: its requirements and the names of its options -/
def replArg (repl : List ClaimJ) : Option (Reqs × List String) :=
  match repl with
  | c :: _ => some (c.reqs, c.its)
  | [] => none

/-- `c06.validate`, a command that reached validation and was REJECTED with class `cls`: does the model agree?
    `pre` = that command (recomputed by the harness), `simO` / `simErr` = the harness's re-simulation of its candidates on the
    changed cluster.
    * `churn`      — validateCandidates: the candidates are no longer (all) candidates ⇔ the harness's candidate lookup says so
    * `budget`     — validateCandidates' budget / nomination test: C05's subject, taken as given
    * `scheduling` / `unknown` — validateCommand itself: the model's `validateCommand` must reject
    * `unobserved` — the multi-node method publishes no rejection event: changed candidates explain the rejection,
                     otherwise the model's `validateCommand` must reject -/
def rejectedAgrees (_s : Scenario) (cls : String) (pre : Option Json) (simO : Option Sim) (simErr : Except String (Option String)) :
    Except String (Bool × String) := do
  let simErr := (← simErr).getD "missing"
  if cls == "budget" then return (true, "") else
  if cls == "churn" then
    return (simErr == "candidates-changed",
      if simErr == "candidates-changed" then "" else
        "implementation: rejected because candidates are no longer valid; the harness finds every candidate of the command still eligible")
  -- (the multi-node method does not report the class: a changed candidate set explains the rejection)
  if simErr == "candidates-changed" && cls == "unobserved" then return (true, "")
  if simErr == "candidates-changed" then
    return (false, s!"implementation: rejected by validateCommand ({cls}); the harness finds that the command's candidates are no longer all eligible (class churn expected)")
  match pre with
  | none => return (true, "the rejected command could not be recomputed")
  | some pj =>
    let repl ← listF claimJ pj "repl"
    match simO with
    | none => return (true, "")   -- the re-simulation failed: the model has no simulation to accept
    | some sim =>
      let ok := Karp.Consolidate.validateCommand (replArg repl) sim
      return (!ok, if ok then s!"model: validateCommand accepts the command on the re-simulation; implementation rejected it ({cls})" else "")

/-- `c06.single` / `c06.multi` / `c06.empty`: one real `ComputeCommands` call -/
def opRun (inp impl : Json) : Except String Resp := do
  if let some e := fldOpt impl "harness_error" then throw s!"harness error: {e.compress}"
  if (fldOpt impl "panic").isSome then
    return { allowed := some false, spec := some false, why := "the disruption method panicked", extra := some (jObj [("signature", jStr "panic")]) }
  let s0 ← scenario (← fld inp "scn")
  let method ← strF inp "method"
  let gate ← boolD inp "spotToSpot" false
  let infos ← listF podInfo inp "podExt"
  let churned ← boolD impl "churned" false
  let s ← if churned then applyChurn s0 (fldOpt inp "churn") else pure s0
  let tb0 ← tablesOf inp
  if !tablesPriceOnly tb0 s0 then throw "harness error: a NodePool's price table differs from the catalog in more than prices"
  let tb ← if churned then churnTables tb0 (fldOpt inp "churn") else pure tb0
  if (← strF impl "err") != "" then
    return { allowed := some true, spec := some true, why := "ComputeCommands returned an error" }
  let passed ← listF asStr impl "passed"
  let simO ← match fldOpt impl "sim" with | some j => simOf s j (viewOf tb s) | none => pure none
  let verdict := (← strO impl "verdict").getD ""
  let expect := (← strO inp "expect").getD ""
  if expect != "" && expect != (if verdict == "" then "no-validation" else verdict) then
    return { allowed := some false, spec := some true,
             why := s!"validation was expected to end in '{expect}', the implementation's verdict is '{if verdict == "" then "no-validation" else verdict}'" }
  -- (corpus witnesses) the decision the witness documents: none | delete | replace
  let expectD := (← strO inp "expectDecision").getD ""
  let gotD ← match fldOpt impl "cmd" with | some cj => strF cj "decision" | none => pure "none"
  let whyE := if expectD != "" && expectD != gotD then
      s!"the witness documents the decision '{expectD}'; the implementation's decision is '{gotD}'" else ""
  -- (a released command is judged by the specification first: a violated property is the stronger verdict)
  if whyE != "" && (fldOpt impl "cmd").isNone then
    return { allowed := some false, spec := some true, why := whyE }
  match fldOpt impl "cmd" with
  | none =>
    if churned && verdict.startsWith "rejected:" then
      -- a command reached validation and was rejected: the model must reject it, too, on the same re-simulation
      let (ok, why) ← rejectedAgrees s ((verdict.drop 9).toString) (fldOpt impl "pre") simO (match fldOpt impl "sim" with | some j => (strO j "err") | none => pure none)
      return { allowed := some ok, spec := some true, why := why }
    -- no command: nothing the property speaks about.  When exactly one candidate was evaluated on an unchanged
    -- cluster, the model must agree that it yields no command.
    let budget := (← intO inp "budget").getD 1
    -- (a Balanced pool's scoring may veto any command: not modelled, it can only remove commands)
    let balanced := (← listF (fun j => strF j "policy") inp "poolExt").any (· == "Balanced")
    match simO, passed with
    | some sim, [cn] =>
      if churned || budget ≤ 0 || balanced then pure { allowed := some true, spec := some true } else
      match s.node? cn with
      | none => throw s!"unknown candidate {cn}"
      | some n =>
        let dec := Karp.Consolidate.compute ridKey gate [candOfT tb s n] sim
        let (ok, why) := agrees dec sim.claims.head? none
        pure { allowed := some ok, spec := some true, why := why }
    | _, _ => pure { allowed := some true, spec := some true }
  | some cj =>
    let decision ← strF cj "decision"
    let candNames ← (← arrF cj "cands").mapM (fun c => strF c "node")
    let repl ← listF claimJ cj "repl"
    let results ← outcome (← fld cj "results")
    let newClaims ← natF cj "newClaims"
    let cmd : Karp.Spec.Consolidation.Command :=
      { method := method, cands := candNames, repl := repl.map (fun c => c.toScn),
        existing := results.existing, errors := results.errors, newClaims := newClaims }
    let cands := scenarioCandidates s { existing := results.existing, claims := cmd.repl, errors := results.errors }
    let v := Karp.Spec.Consolidation.commandOKT tb s ridKey gate infos cmd cands (witnessOnly := !churned)
    -- the model: the decision computed from the simulation of the command's candidate set
    let (ok, why) ← if method == "empty" then
        -- Emptiness: the candidates must be empty by the model's `isEmpty`
        let bad := (candNames.filterMap s.node?).find? (fun n =>
          !Karp.Consolidate.isEmpty ((Karp.Spec.Consolidation.reschedulable infos n).map (fun p => let i := Karp.Spec.Consolidation.infoOf infos p.name; { delCost := i.delCost, prio := i.prio })))
        pure (match bad with | some n => (false, s!"model: node {n.name} is not empty") | none => (decision == "delete", "an Emptiness command must be a delete"))
      else if churned then
        -- the cluster changed during the wait: the released command must pass the model's `validateCommand` (instance-type
        -- names AND replacement requirements) on the re-simulation of the changed cluster; the converse — a rejected
        -- command must be rejected by the model — is `rejectedAgrees`
        match simO with
        | none => pure (false, "model: the candidates are no longer valid after the change; implementation released the command")
        | some sim =>
          let ok := Karp.Consolidate.validateCommand (replArg repl) sim
          pure (ok, if ok then "" else "model: validateCommand rejects the command on the re-simulation; implementation released it")
      else match simO with
      | none => pure (true, "")
      | some sim =>
        let mc := (candNames.filterMap s.node?).map (candOfT tb s)
        -- prices the implementation attached to the candidates
        let implPrices ← (← arrF cj "cands").mapM (fun c => do pure ((← strF c "node"), (← natF c "price")))
        let priceBad := mc.find? (fun c => implPrices.lookup c.name != some c.price)
        match priceBad with
        | some c => pure (false, s!"candidate {c.name}: model price {c.price}, implementation {(implPrices.lookup c.name).getD 0}")
        | none =>
          let dec := if method == "multi" then Karp.Consolidate.multiStep ridKey gate mc sim else Karp.Consolidate.compute ridKey gate mc sim
          pure (agrees dec sim.claims.head? (some (decision, repl)))
    pure (specVerdict v (ok && whyE == "") (if whyE != "" then whyE else why))

/-- `c06.compute`: `computeConsolidation` (before validation) on an arbitrary candidate subset, then
    `filterOutSameInstanceType`; exact comparison with `compute` / `multiStep`, specification on every decision -/
def opCompute (inp impl : Json) : Except String Resp := do
  if let some e := fldOpt impl "harness_error" then throw s!"harness error: {e.compress}"
  if (fldOpt impl "panic").isSome then
    return { allowed := some false, spec := some false, why := "computeConsolidation panicked", extra := some (jObj [("signature", jStr "panic")]) }
  let s ← scenario (← fld inp "scn")
  let gate ← boolD inp "spotToSpot" false
  let infos ← listF podInfo inp "podExt"
  if (← strF impl "err") != "" then
    return { allowed := some true, spec := some true, why := "computeConsolidation returned an error" }
  let passed ← listF asStr impl "passed"
  if passed.isEmpty then return { allowed := some true, spec := some true }
  let tb ← tablesOf inp
  if !tablesPriceOnly tb s then throw "harness error: a NodePool's price table differs from the catalog in more than prices"
  let simO ← match fldOpt impl "sim" with | some j => simOf s j (viewOf tb s) | none => pure none
  let mc := (passed.filterMap s.node?).map (candOfT tb s)
  let cmdO ← match fldOpt impl "cmd" with
    | none => pure none
    | some cj => do
      let decision ← strF cj "decision"
      let repl ← listF claimJ cj "repl"
      pure (some (cj, decision, repl))
  -- the model
  let (ok, why) ← match simO with
    | none => pure (cmdO.isNone, "the simulation failed; a command was produced")
    | some sim => do
      let dec := Karp.Consolidate.compute ridKey gate mc sim
      let (ok1, why1) := agrees dec sim.claims.head? (cmdO.map (fun (_, d, r) => (d, r)))
      if !ok1 then pure (false, why1) else
      -- the same-type step
      match fldOpt impl "sameType" with
      | none => pure (true, "")
      | some st => do
        let err ← boolF st "err"
        let its ← listF asStr st "its"
        match Karp.Consolidate.multiStep ridKey gate mc sim with
        | .replace _ kept _ =>
          if !err && sortS its == sortS (kept.map (·.name)) then pure (true, "") else
            pure (false, s!"filterOutSameInstanceType: model keeps {sortS (kept.map (·.name))}, implementation (error {err}) {sortS its}")
        | _ => if err || its.isEmpty then pure (true, "") else
            pure (false, s!"filterOutSameInstanceType: model invalidates the replacement, implementation keeps {sortS its}")
  match cmdO with
  | none => pure { allowed := some ok, spec := some true, why := why }
  | some (cj, _, repl) =>
    let candNames ← (← arrF cj "cands").mapM (fun c => strF c "node")
    let results ← outcome (← fld cj "results")
    let newClaims ← natF cj "newClaims"
    let implPrices ← (← arrF cj "cands").mapM (fun c => do pure ((← strF c "node"), (← natF c "price")))
    let priceBad := mc.find? (fun c => implPrices.lookup c.name != some c.price)
    let (ok, why) := match priceBad with
      | some c => (false, s!"candidate {c.name}: model price {c.price}, implementation {(implPrices.lookup c.name).getD 0}")
      | none => (ok, why)
    let cmd : Karp.Spec.Consolidation.Command :=
      { method := "compute", cands := candNames, repl := repl.map (fun c => c.toScn),
        existing := results.existing, errors := results.errors, newClaims := newClaims }
    let cands := scenarioCandidates s { existing := results.existing, claims := cmd.repl, errors := results.errors }
    pure (specVerdict (Karp.Spec.Consolidation.commandOKT tb s ridKey gate infos cmd cands) ok why)

/-- the reschedulable pods of a node as the model's `isEmpty` reads them -/
def podCosts (infos : List Karp.Spec.Consolidation.PodInfo) (n : Scn.Node) : List Karp.Consolidate.PodCost :=
  (Karp.Spec.Consolidation.reschedulable infos n).map (fun p => let i := Karp.Spec.Consolidation.infoOf infos p.name; { delCost := i.delCost, prio := i.prio })

/-- `c06.emptyvalidate`: one real `Emptiness.ComputeCommands` call during which the cluster changed while the command
    waited for validation.  `emptyVal` = what the harness observed on identical fresh worlds: `pre` the candidates of the
    command handed to the validator, `current` what `GetCandidates` returns after the change and the wait, the budgets and
    the nominated nodes at that moment.
    * spec : the RELEASED command against the cluster as it is at release (the `empty` rule);
    * model: released candidates = `emptinessRelease` (order-free; when a budget binds: a subset of the right size), every
             released node is empty by the model's `isEmpty`, and — the hypothesis of `C06_empty_release_spec` — every
             still-valid candidate of the command is empty by `isEmpty`. -/
def opEmptyValidate (inp impl : Json) : Except String Resp := do
  if let some e := fldOpt impl "harness_error" then throw s!"harness error: {e.compress}"
  if (fldOpt impl "panic").isSome then
    return { allowed := some false, spec := some false, why := "the disruption method panicked", extra := some (jObj [("signature", jStr "panic")]) }
  let churned ← boolD impl "churned" false
  -- no command reached validation, or nothing changed: an ordinary Emptiness run
  if !churned then return (← opRun inp impl)
  if (← strF impl "err") != "" then
    return { allowed := some true, spec := some true, why := "ComputeCommands returned an error" }
  let s0 ← scenario (← fld inp "scn")
  let gate ← boolD inp "spotToSpot" false
  let infos ← listF podInfo inp "podExt"
  let s ← applyChurn s0 (fldOpt inp "churn")
  let passed ← listF asStr impl "passed"
  let budget := (← intO inp "budget").getD 1
  let ev ← fld impl "emptyVal"
  let preKnown ← boolF ev "preKnown"
  let pre0 ← listF asStr ev "pre"
  let current ← listF asStr ev "current"
  let nominatedL ← listF asStr ev "nominated"
  let budgets ← match fldOpt ev "budgets" with
    | some (.obj kvs) => kvs.toList.mapM (fun (k, v) => do pure (k, (← asInt v).toNat))
    | _ => pure []
  -- the released command
  let (released, v) ← match fldOpt impl "cmd" with
    | none => pure (([] : List String), (none : Karp.Spec.Consolidation.Verdict))
    | some cj => do
      let candNames ← (← arrF cj "cands").mapM (fun c => strF c "node")
      let repl ← listF claimJ cj "repl"
      let results ← outcome (← fld cj "results")
      let newClaims ← natF cj "newClaims"
      let cmd : Karp.Spec.Consolidation.Command :=
        { method := "empty", cands := candNames, repl := repl.map (fun c => c.toScn),
          existing := results.existing, errors := results.errors, newClaims := newClaims }
      let v := if (← strF cj "decision") != "delete" then some ("empty", "an Emptiness command must delete nodes without replacement")
        else Karp.Spec.Consolidation.commandOK s ridKey gate infos cmd [] (witnessOnly := false)
      pure (candNames, v)
  -- the model
  -- (1) the command handed to the validator: every candidate the method was given passed `ShouldDisrupt`, so it is
  --     empty, and is selected while its pool's budget lasts
  let pre := if preKnown then pre0 else passed
  let why1 := if preKnown && decide ((passed.length : Int) ≤ budget) && sortS pre != sortS passed then
      s!"model: the command handed to validation holds every candidate {sortS passed}; implementation (no change, same world): {sortS pre}" else ""
  -- (2) the validator
  let poolOf (n : String) : String := match s.node? n with | some nd => nd.pool | none => ""
  let nominated (n : String) : Bool := nominatedL.contains n
  let exp := Karp.Consolidate.emptinessRelease poolOf nominated budgets pre current
  let stillValid := (Karp.Consolidate.mapCandidates pre current).filter (fun n => !nominated n)
  let binding := budgets.any (fun (p, b) => decide (b < (stillValid.filter (fun n => poolOf n == p)).length)) ||
    stillValid.any (fun n => (budgets.lookup (poolOf n)).isNone)
  let ok2 := if binding then released.all stillValid.contains && released.length == exp.length && released.eraseDups.length == released.length
    else sortS released == sortS exp
  let why2 := if ok2 then "" else
    s!"model: Emptiness releases the command narrowed to {sortS exp} (computed for {sortS pre}, still candidates after the change: {sortS current}); implementation: {sortS released}"
  -- (3) the released nodes, and the still-valid candidates, are empty by the model's `isEmpty` on the changed cluster
  let notEmpty (names : List String) := (names.filterMap s.node?).find? (fun n => !Karp.Consolidate.isEmpty (podCosts infos n))
  let why3 := match notEmpty released with
    | some n => s!"model: released node {n.name} is not empty"
    | none => match notEmpty (Karp.Consolidate.mapCandidates pre current) with
      | some n => s!"model: node {n.name} is not empty after the change; GetCandidates (Emptiness.ShouldDisrupt) still returns it"
      | none => ""
  -- (corpus witnesses) the released nodes the witness documents
  let why0 ← match fldOpt inp "expectReleased" with
    | some (.arr a) => do
      let want ← a.toList.mapM asStr
      pure (if sortS want == sortS released then "" else s!"the witness documents the release of {sortS want}; the implementation released {sortS released}")
    | _ => pure ""
  let why := [why0, why1, why2, why3].foldl (fun acc w => if acc == "" then w else acc) ""
  pure (specVerdict v (why == "") why)

/-! ### leaf ops -/

def offeringJ (j : Json) : Except String Karp.Consolidate.Offering := do
  pure { zone := ← strF j "zone", ct := ← strF j "capacityType", price := ← natF j "price", available := ← boolF j "available",
         resID := (← strO j "reservationID").getD "" }

/-- requirements given as `[{key, exprs:[{op, values, minValues}]}]`, each key built as the harness does -/
def reqsJ (j : Json) : Except String Reqs := do
  (← asArr j).mapM (fun e => do
    let k ← strF e "key"
    let es ← (← arrF e "exprs").mapM parseExpr
    let r ← build k es
    pure (r.key, r))

def jPrice : Option Nat → Json
  | some p => jNat p
  | none => jInt (-1)

def priceJ (j : Json) : Except String (Option Nat) := do
  let i ← asInt j
  pure (if i < 0 then none else some i.toNat)

/-- `c06.worst`: `Offerings.Compatible`, `Available().WorstLaunchPrice`, `WorstLaunchPrice`, `Cheapest`, `MostExpensive` -/
def opWorst (inp _impl : Json) : Except String Resp := do
  let ofs ← listF offeringJ inp "offerings"
  let R ← reqsJ (← fld inp "reqs")
  let compat := ofs.map (Karp.Consolidate.offeringCompat ridKey R)
  let model := jObj [
    ("compat", jArr (compat.map jBool)),
    ("worst", jPrice (Karp.Consolidate.worstLaunchPrice ridKey R ofs)),
    ("worstAvailable", jPrice (Karp.Consolidate.worstLaunchPrice ridKey R (Karp.Consolidate.available ofs))),
    ("cheapest", jPrice (Karp.Consolidate.cheapest (Karp.Consolidate.compatible ridKey R ofs))),
    ("dearest", jPrice (Karp.Consolidate.dearest (Karp.Consolidate.compatible ridKey R ofs)))]
  pure { model := some model }

def itJ (j : Json) : Except String IType := do pure (itypeOf (← it j))

/-- the pin `computeConsolidation` applies after the filter -/
def pinned (R : Reqs) : Reqs :=
  let ct := R.get Karp.Consolidate.ctKey
  if ct.has Karp.Consolidate.spot && ct.has Karp.Consolidate.onDemand then R.add1 Karp.Consolidate.spotReq else R

/-- the hypotheses of `C06_price` on one filter call (provider contract + the scheduler's reserved pin) -/
def priceHyps (R : Reqs) (its : List IType) : Bool :=
  its.all (fun it => (Karp.Consolidate.available it.offerings).all (fun o =>
    (!Karp.Consolidate.offeringCompat ridKey R o) ||
    ((o.ct == Karp.Consolidate.reserved || o.ct == Karp.Consolidate.spot || o.ct == Karp.Consolidate.onDemand) &&
     (o.ct != Karp.Consolidate.reserved || (!(R.get Karp.Consolidate.ctKey).has Karp.Consolidate.spot && !(R.get Karp.Consolidate.ctKey).has Karp.Consolidate.onDemand)))))

/-- `c06.remove`: `NodeClaim.RemoveInstanceTypeOptionsByPriceAndMinValues` -/
def opRemove (inp impl : Json) : Except String Resp := do
  let its ← listF itJ inp "its"
  let R ← reqsJ (← fld inp "reqs")
  let maxPrice ← priceJ (← fld inp "maxPrice")
  -- `SatisfiesMinValues` on the whole list: (options needed to meet every floor, error)
  let (needed, nerr) := Karp.Consolidate.satisfiesMinValues R its
  let tail := [("needed", jInt (needed : Int)), ("neededErr", jBool nerr)]
  let model := match Karp.Consolidate.removeByPrice ridKey R maxPrice its with
    | none => jObj ([("err", jBool true), ("kept", jArr [])] ++ tail)
    | some kept => jObj ([("err", jBool false), ("kept", jArr (kept.map (fun it => jStr it.name)))] ++ tail)
  -- the property's price clause on what the real filter kept, under the hypotheses of C06_price
  let spec ← match fldOpt impl "kept", maxPrice with
    | some k, some mp => do
      let names ← strList k
      if !priceHyps R its then pure none else
      let R' := pinned R
      let bad := (its.filter (fun it => names.contains it.name)).find? (fun it =>
        (Karp.Consolidate.available it.offerings).any (fun o => Karp.Consolidate.offeringCompat ridKey R' o && decide (mp ≤ o.price)))
      pure (some (bad.isNone, match bad with | some it => s!"kept option {it.name} may launch at or above the price bound {mp}" | none => ""))
    | _, _ => pure none
  match spec with
  | some (ok, why) => pure { model := some model, spec := some ok, why := why }
  | none => pure { model := some model }

/-- `c06.isempty`: `EvictionCost` per pod and `Candidate.IsEmpty` -/
def opIsEmpty (inp impl : Json) : Except String Resp := do
  let pods ← (← arrF inp "pods").mapM (fun j => do
    pure ((← boolD j "daemon" false), (← strO j "phase").getD "", (← intO j "delCost"), (← intO j "priority")))
  let costs := pods.map (fun (_, _, d, p) => Karp.Consolidate.evictionCostScaled { delCost := d, prio := p })
  let resched := pods.filter (fun (dm, ph, _, _) => !dm && ph != "Succeeded" && ph != "Failed")
  let empty := Karp.Consolidate.isEmpty (resched.map (fun (_, _, d, p) => { delCost := d, prio := p }))
  let model := jObj [("costs", jArr (costs.map jInt)), ("candidate", jBool true), ("empty", jBool empty)]
  -- the property's rule on the implementation's answer
  let specEmpty := resched.all (fun (_, _, d, p) => !Karp.Spec.Consolidation.evictionCostPositive { pod := "", delCost := d, prio := p, terminal := false })
  let spec := match fldOpt impl "empty" with
    | some (.bool b) => some (b == specEmpty)
    | _ => none
  pure { model := some model, spec := spec, why := if spec == some false then s!"IsEmpty disagrees with 'no reschedulable pod has a positive eviction cost' ({specEmpty})" else "" }

def handle : Handler := fun op inp impl =>
  match op with
  | "c06.single" | "c06.multi" | "c06.empty" | "c06.validate" | "c06.tables" | "c06.cap" => opRun inp impl
  | "c06.emptyvalidate" => opEmptyValidate inp impl
  | "c06.compute" => opCompute inp impl
  | "c06.worst" => opWorst inp impl
  | "c06.remove" => opRemove inp impl
  | "c06.isempty" => opIsEmpty inp impl
  | _ => .error s!"unknown op {op}"

end Karp.Driver.C06
