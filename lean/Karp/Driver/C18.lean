import Karp.Driver.Proto
import Karp.Spec.NoEffect
import Karp.Model.Effects
import Karp.Model.EffectFacts

/-
C18 driver: the harness ran REAL simulations / provisioning passes / deep copies and digested the observable world before
and after.  Here
  * `spec`    = the property's verdict on what the real code did (`Karp/Spec/NoEffect.lean`),
  * `allowed` = whether what the real code did is within the *model*: the changed components lie in the footprint derived
                from the regenerated write-effect facts (`Karp/Model/EffectFacts.lean`) and the nominations / pod
                bookkeeping are exactly what the model of `Results.Record` + `MarkPodSchedulingDecisions` predicts.
-/
namespace Karp.Driver.C18
open Lean Karp.Driver Karp.Spec.NoEffect

def entry (j : Json) : Except String Entry := do
  pure { sec := ← strF j "s", obj := ← strF j "o", fld := ← strF j "f", dig := ← strF j "d" }

def snap (j : Json) : Except String Snap := listOf entry j

def nodeVal (j : Json) : Except String NodeVal := do
  pure { providerID := ← strF j "providerID", name := ← strF j "name", nodeClaim := ← strF j "nodeClaim",
         nominatedUntil := ← intF j "nominatedUntil", marked := ← boolF j "marked" }

def podVal (j : Json) : Except String PodVal := do
  pure { key := ← strF j "key", ack := ← intF j "ack", attempted := ← intF j "attempted", schedulable := ← intF j "schedulable",
         healthy := ← intF j "healthy", nodeClaim := ← strF j "nodeClaim" }

def live (j : Json) : Except String Live := do
  pure { nodes := ← listOf nodeVal (← fld j "nodes"), pods := ← listOf podVal (← fld j "pods") }

def placedPod (j : Json) : Except String PlacedPod := do
  pure { name := ← strF j "name", bound := ← boolF j "bound" }

def existingPlacement (j : Json) : Except String ExistingPlacement := do
  pure { providerID := ← strF j "providerID", nodeClaim := ← strF j "nodeClaim", pool := ← strF j "pool",
         pods := ← listOf placedPod (← fld j "pods") }

def claimPlacement (j : Json) : Except String ClaimPlacement := do
  pure { pool := ← strF j "pool", pods := ← listOf placedPod (← fld j "pods") }

def getIdx (l : List α) (i : Nat) (what : String) : Except String α :=
  match l[i]? with
  | some x => pure x
  | none => throw s!"{what}: index {i} out of range"

/-- components of a snapshot that belong to a live region of the model footprint (a field of the cluster / of a node), or
    are derived from one (the accessors that read the nomination) -/
def inFootprint (fp : List (String × String)) (e : Entry) : Bool :=
  fp.contains (e.sec, e.fld) ||
  (e.sec == "accessor" && (e.fld == "Nominated" || e.fld == "IsNodeNominated") && fp.contains ("node", "nominatedUntil"))

def showEntries (es : List Entry) : String :=
  String.intercalate ", " ((es.take 6).map Entry.show) ++ (if es.length > 6 then s!" … ({es.length} components)" else "")

/-- the components the recorded findings move (see known_findings.json): they are looked at last, so that any other
    change in the same run decides the signature.  For a cached CapacityBuffer virtual pod these are the two parts the
    scheduler is known to decorate in place and the digest of the whole pod (which moves with any of its parts) -/
def knownLeakComponent (e : Entry) : Bool :=
  (e.sec == "input" && (e.fld == "pod.topologySpreadConstraints" || e.fld == "pod.preferredNodeAffinity.order")) ||
  (e.sec == "virtualpods" && (e.fld == "pod" || e.fld == "pod.topologySpreadConstraints" || e.fld == "pod.preferredNodeAffinity.order"))

/-- the digest of a whole cached pod: says that the pod moved, not what moved in it -/
def wholePod (e : Entry) : Bool := e.sec == "virtualpods" && e.fld == "pod"

/-- the offender that classifies a violation: the first one that is not a recorded finding's component, if any; otherwise
    the most specific recorded component -/
def pickOffender (es : List Entry) : Option Entry :=
  match es.find? (fun e => !knownLeakComponent e) with
  | some e => some e
  | none =>
    match es.find? (fun e => !wholePod e) with
    | some e => some e
    | none => es.head?

/-- signature of a violation: which kind of component moved -/
def sigOf (pfx : String) (e : Entry) : String :=
  -- default constraints stamped onto a shared pod that declared none ("0:<digest>" before) vs. any other change
  if e.sec == "input" && e.fld == "pod.topologySpreadConstraints" then
    s!"{pfx}:input:pod.topologySpreadConstraints:{if e.dig.startsWith "0:" then "stamped-on-empty" else "changed"}"
  else
  -- a cached CapacityBuffer virtual pod: the same class whether a simulation or a provisioning pass did it (no prefix)
  if e.sec == "virtualpods" && e.fld == "pod.topologySpreadConstraints" then
    s!"virtualpods:pod.topologySpreadConstraints:{if e.dig.startsWith "0:" then "stamped-on-empty" else "changed"}"
  else if e.sec == "virtualpods" && e.obj.startsWith "pod:" then s!"virtualpods:{e.fld}"
  else
  if e.sec == "api" then s!"{pfx}:api:{(e.obj.splitOn "/").headD ""}"
  else if e.sec == "provider" then s!"{pfx}:provider:{if e.fld.startsWith "Offerings" then "Offerings" else e.fld}"
  else s!"{pfx}:{e.sec}:{e.fld}"

/-- verdict on one simulation run: (violates the property, reason, signature, is a recorded finding's component only) -/
def judgeSim (now : Int) (ignored : List String) (k : Nat) (cls : String) (run : Run) : Option (String × String × Bool) :=
  if simulationOk now ignored run then none
  else if run.writes != 0 then
    some (s!"run {k} ({cls}): the simulation made {run.writes} write call(s) on the API client", "sim:client-writes", false)
  else
    let ch := (changed run.before run.after).filter (fun e => !simulationMayChange (!ignored.isEmpty) e)
    match pickOffender ch with
    | some e => some (s!"run {k} ({cls}): the simulation changed {showEntries ch}", sigOf "sim" e, knownLeakComponent e)
    | none =>
      let dn := (run.valsBefore.nodes.zip run.valsAfter.nodes).filter (fun x => x.1 != x.2)
      let dp := (run.valsBefore.pods.zip run.valsAfter.pods).filter (fun x => x.1 != x.2)
      some (s!"run {k} ({cls}): nominations / deletion marks / pod bookkeeping moved in a way a simulation may not move them (refused pods {ignored}); nodes before→after {repr (dn.take 3)}; pods before→after {repr (dp.take 3)}",
            "sim:values", false)

def simulate (_inp impl : Json) : Except String Resp := do
  if (fldOpt impl "snaps").isNone then
    return { spec := some false, why := "implementation produced no snapshots (panic / harness error?)",
             extra := some (jObj [("signature", jStr "sim:no-output")]) }
  let now ← intF impl "now"
  let ignored ← strList (← fld impl "ignored")
  let snaps ← listOf snap (← fld impl "snaps")
  let vals ← listOf live (← fld impl "vals")
  let runs ← arrF impl "runs"
  let fp := Karp.EffectFacts.footprint .sim
  let mut verdicts : List (String × String × Bool) := []
  let mut allowed := true
  let mut whyModel := ""
  let mut k := 0
  for r in runs do
    let b ← natF r "before"
    let a ← natF r "after"
    let run : Run := { before := ← getIdx snaps b "snaps", after := ← getIdx snaps a "snaps",
                       valsBefore := ← getIdx vals b "vals", valsAfter := ← getIdx vals a "vals", writes := ← natF r "writes" }
    let cls ← strF r "class"
    -- the property's verdict
    match judgeSim now ignored k cls run with
    | some v => verdicts := verdicts ++ [v]
    | none => pure ()
    -- the model's verdict: inside the static footprint, values as the model of GetPendingPods predicts
    let outside := (changed run.before run.after).filter (fun e => !inFootprint fp e)
    let predicted := Karp.Effects.simulationPass now ignored run.valsBefore
    if allowed && (!outside.isEmpty || !(run.valsAfter == run.valsBefore || run.valsAfter == predicted)) then
      allowed := false
      whyModel := s!"run {k} ({cls}): outside the footprint of the write-effect facts: {showEntries outside}"
    k := k + 1
  -- a violation that is not one of the recorded findings decides the report
  let chosen := match verdicts.find? (fun v => !v.2.2) with
    | some v => some v
    | none => verdicts.head?
  match chosen with
  | some (why, sig, _) =>
    pure { allowed := some allowed, spec := some false, why := why, extra := some (jObj [("signature", jStr sig)]) }
  | none => pure { allowed := some allowed, spec := some true, why := whyModel }

def provision (_inp impl : Json) : Except String Resp := do
  if (fldOpt impl "snaps").isNone then
    return { spec := some false, why := "implementation produced no snapshots (panic / harness error?)",
             extra := some (jObj [("signature", jStr "prov:no-output")]) }
  let ignored ← strList (← fld impl "ignored")
  let healthy ← strList (← fld impl "healthy")
  let batch ← intF impl "batchMaxNs"
  let snaps ← listOf snap (← fld impl "snaps")
  let vals ← listOf live (← fld impl "vals")
  let passes ← arrF impl "passes"
  let fp := Karp.EffectFacts.footprint .sched
  let mut specOk := true
  let mut allowed := true
  let mut why := ""
  let mut sig := ""
  let mut sigKnownOnly := false
  let mut k := 0
  for p in passes do
    let b ← natF p "before"
    let a ← natF p "after"
    let now ← intF p "now"
    let cls ← strF p "class"
    let run : Run := { before := ← getIdx snaps b "snaps", after := ← getIdx snaps a "snaps",
                       valsBefore := ← getIdx vals b "vals", valsAfter := ← getIdx vals a "vals", writes := ← natF p "writes" }
    let o : Outcome := { existing := ← listOf existingPlacement (← fld p "existing"),
                         claims := ← listOf claimPlacement (← fld p "claims"),
                         errors := ← strList (← fld p "errors") }
    -- every violating pass is judged; a violation that is not a recorded finding's component decides the report
    if !provisioningOk now ignored o run && (specOk || sigKnownOnly) then
      let mut w := ""
      let mut sg := ""
      let mut knownOnly := false
      if run.writes != 0 then
        w := s!"pass {k} ({cls}): Provisioner.Schedule made {run.writes} write call(s) on the API client"
        sg := "prov:client-writes"
      else
        let ch := (changed run.before run.after).filter (fun e => !provisioningMayChange e)
        match pickOffender ch with
        | some e =>
          w := s!"pass {k} ({cls}): the pass changed more than nominations and pod bookkeeping: {showEntries ch}"
          sg := sigOf "prov" e
          knownOnly := knownLeakComponent e
        | none =>
          let dn := (run.valsBefore.nodes.zip run.valsAfter.nodes).filter (fun x => x.1 != x.2)
          let dp := (run.valsBefore.pods.zip run.valsAfter.pods).filter (fun x => x.1 != x.2)
          w := s!"pass {k} ({cls}): nominations / deletion marks / pod bookkeeping moved outside the frame of a provisioning pass (outcome: placed on {o.existing.map (·.providerID)}, errors {o.errors}, refused {ignored}); nodes before→after {repr (dn.take 3)}; pods before→after {repr (dp.take 3)}"
          sg := "prov:values"
      if specOk || !knownOnly then
        why := w
        sig := sg
        sigKnownOnly := knownOnly
      specOk := false
    let outside := (changed run.before run.after).filter (fun e => !inFootprint fp e)
    -- a pass that returned an error produced no results: only the refusal records of GetPendingPods can have moved
    let predicted :=
      if cls == "ok" then Karp.Effects.provisionPass now batch healthy ignored o run.valsBefore
      else Karp.Effects.failedPass now ignored run.valsBefore
    let valuesOk := run.valsAfter == predicted || (cls != "ok" && run.valsAfter == run.valsBefore)
    if allowed && (!outside.isEmpty || !valuesOk) then
      allowed := false
      if specOk then
        if !outside.isEmpty then
          why := s!"pass {k} ({cls}): outside the footprint of the write-effect facts: {showEntries outside}"
        else
          let dn := (run.valsAfter.nodes.zip predicted.nodes).filter (fun x => x.1 != x.2)
          let dp := (run.valsAfter.pods.zip predicted.pods).filter (fun x => x.1 != x.2)
          why := s!"pass {k} ({cls}): nominations / bookkeeping differ from the model of Results.Record + MarkPodSchedulingDecisions: nodes {repr (dn.take 2)} pods {repr (dp.take 2)}"
    k := k + 1
  pure { allowed := some allowed, spec := some specOk, why := why,
         extra := if sig.isEmpty then none else some (jObj [("signature", jStr sig)]) }

def deepcopy (_inp impl : Json) : Except String Resp := do
  if (fldOpt impl "snaps").isNone then
    return { spec := some false, why := "implementation produced no snapshots (panic / harness error?)",
             extra := some (jObj [("signature", jStr "deepcopy:no-output")]) }
  let snaps ← listOf snap (← fld impl "snaps")
  let before ← getIdx snaps 0 "snaps"
  let after ← getIdx snaps 1 "snaps"
  let copyEqual ← boolF impl "copyEqual"
  let ch := changed before after
  let ok := ch.isEmpty && copyEqual
  let why :=
    if !copyEqual then "a copy handed out by the cluster state does not show what its original shows"
    else if !ch.isEmpty then s!"overwriting everything reachable from the copies changed the live state: {showEntries ch}"
    else ""
  let sig := if !copyEqual then "deepcopy:unfaithful" else match ch with | e :: _ => sigOf "deepcopy" e | [] => ""
  -- the model: copies share nothing (C18_simulation_unobservable), so nothing may change
  pure { allowed := some ok, spec := some ok, why := why,
         extra := if sig.isEmpty then none else some (jObj [("signature", jStr sig)]) }

def handle : Handler := fun op inp impl =>
  match op with
  | "c18.simulate" => simulate inp impl
  | "c18.simdecide" => simulate inp impl
  | "c18.provision" => provision inp impl
  | "c18.deepcopy" => deepcopy inp impl
  | _ => .error s!"unknown op {op}"

end Karp.Driver.C18
