/-
Line protocol between the Go correspondence harness (`kdiff`) and the Lean model.

One JSON object per input line:
  {"op": "<prop>.<name>", "in": <input>, "impl": <canonical output observed on the real code>}
One JSON object per output line:
  {"model": <model output>?, "allowed": <bool>?, "spec": <bool>?, "why": <string>?, "err": <string>?}

* `model`   : output of the executable model for a deterministic op (compared with `impl` by kdiff)
* `allowed` : for relational ops (the code may legitimately pick "any"), whether `impl` is
              one of the outputs the model relation allows
* `spec`    : verdict of the *independent* specification predicate of the property evaluated on
              the implementation's output (`impl`), i.e. "does the property hold of what the real
              code did on this input"
* `why`     : free text explaining a negative verdict
Core Lean only (no Mathlib) so that the driver also links as a `lean_exe`.
-/
import Lean.Data.Json

namespace Karp.Driver
open Lean

structure Resp where
  model   : Option Json := none
  allowed : Option Bool := none
  spec    : Option Bool := none
  why     : String := ""
  /-- extra, op-specific diagnostics (e.g. the model state) -/
  extra   : Option Json := none

def Resp.toJson (r : Resp) : Json :=
  Json.mkObj <|
    (match r.model with | some m => [("model", m)] | none => []) ++
    (match r.allowed with | some b => [("allowed", Json.bool b)] | none => []) ++
    (match r.spec with | some b => [("spec", Json.bool b)] | none => []) ++
    (if r.why.isEmpty then [] else [("why", Json.str r.why)]) ++
    (match r.extra with | some m => [("extra", m)] | none => [])

abbrev Handler := (op : String) → (inp : Json) → (impl : Json) → Except String Resp

/-! JSON access helpers (total, error-returning; never default silently). -/

def fld (j : Json) (k : String) : Except String Json := j.getObjVal? k
def fldOpt (j : Json) (k : String) : Option Json :=
  match j.getObjVal? k with
  | .ok .null => none
  | .ok v => some v
  | .error _ => none

def asNat (j : Json) : Except String Nat := j.getNat?
def asInt (j : Json) : Except String Int := j.getInt?
def asStr (j : Json) : Except String String := j.getStr?
def asBool (j : Json) : Except String Bool := j.getBool?
def asArr (j : Json) : Except String (List Json) := do
  let a ← j.getArr?
  pure a.toList

def natF (j : Json) (k : String) : Except String Nat := do asNat (← fld j k)
def intF (j : Json) (k : String) : Except String Int := do asInt (← fld j k)
def strF (j : Json) (k : String) : Except String String := do asStr (← fld j k)
def boolF (j : Json) (k : String) : Except String Bool := do asBool (← fld j k)
def arrF (j : Json) (k : String) : Except String (List Json) := do asArr (← fld j k)

/-- optional field readers: absent or null ⇒ `none` -/
def natO (j : Json) (k : String) : Except String (Option Nat) :=
  match fldOpt j k with | none => pure none | some v => do pure (some (← asNat v))
def intO (j : Json) (k : String) : Except String (Option Int) :=
  match fldOpt j k with | none => pure none | some v => do pure (some (← asInt v))
def strO (j : Json) (k : String) : Except String (Option String) :=
  match fldOpt j k with | none => pure none | some v => do pure (some (← asStr v))
def boolD (j : Json) (k : String) (d : Bool) : Except String Bool :=
  match fldOpt j k with | none => pure d | some v => asBool v
def arrD (j : Json) (k : String) : Except String (List Json) :=
  match fldOpt j k with | none => pure [] | some v => asArr v

def listOf (f : Json → Except String α) (j : Json) : Except String (List α) := do
  (← asArr j).mapM f

def strList (j : Json) : Except String (List String) := listOf asStr j
def natList (j : Json) : Except String (List Nat) := listOf asNat j
def intList (j : Json) : Except String (List Int) := listOf asInt j
def boolList (j : Json) : Except String (List Bool) := listOf asBool j

def jNat (n : Nat) : Json := Json.num (JsonNumber.fromNat n)
def jInt (n : Int) : Json := Json.num (JsonNumber.fromInt n)
def jStr (s : String) : Json := Json.str s
def jBool (b : Bool) : Json := Json.bool b
def jArr (l : List Json) : Json := Json.arr l.toArray
def jObj (l : List (String × Json)) : Json := Json.mkObj l
def jOptNat : Option Nat → Json | none => Json.null | some n => jNat n
def jOptInt : Option Int → Json | none => Json.null | some n => jInt n
def jOptStr : Option String → Json | none => Json.null | some n => jStr n

/-- structural equality of JSON values as used by relational handlers -/
partial def jsonEq : Json → Json → Bool
  | .null, .null => true
  | .bool a, .bool b => a == b
  | .num a, .num b => a == b
  | .str a, .str b => a == b
  | .arr a, .arr b => a.size == b.size && (a.toList.zip b.toList).all (fun (x, y) => jsonEq x y)
  | .obj a, .obj b =>
      let la := a.toList
      let lb := b.toList
      la.length == lb.length && (la.zip lb).all (fun (x, y) => x.1 == y.1 && jsonEq x.2 y.2)
  | _, _ => false

end Karp.Driver
