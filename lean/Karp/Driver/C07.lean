import Karp.Driver.Proto
import Karp.Model.Candidate
import Karp.Spec.Protected
import Karp.Model.CandidateHistory
import Karp.Spec.ProtectedHistory

namespace Karp.Driver.C07
open Lean Karp.Driver Karp.Candidate

/-! ## JSON → vocabulary -/

def parseAnn (j : Json) : Except String Ann := do
  match (← strF j "k") with
  | "none" | "" => pure .none
  | "true" => pure .true_
  | "dur" => pure (.dur (← intF j "ns"))
  | "bad" => pure .bad
  | k => throw s!"bad annotation kind {k}"

def annD (j : Json) (k : String) : Except String Ann :=
  match fldOpt j k with
  | none => pure .none
  | some v => parseAnn v

def parseLbl (s : String) : Lbl :=
  if s = "" then .absent else if s = "true" then .true_ else .other

def parseCond (s : String) : Except String Cond :=
  match s with
  | "" => pure .absent
  | "True" => pure .true_
  | "False" => pure .false_
  | "Unknown" => pure .unknown
  | _ => throw s!"bad condition status {s}"

def strD (j : Json) (k : String) : Except String String :=
  match fldOpt j k with
  | none => pure ""
  | some v => asStr v

def parseMeta (j : Json) : Except String Meta := do
  let pool ← match (← strD j "pool") with
    | "" => pure PoolRef.none
    | "this" => pure PoolRef.this
    | "ghost" => pure PoolRef.ghost
    | s => throw s!"bad pool {s}"
  let it ← match (← strD j "it") with
    | "" => pure ItRef.none
    | "known" => pure ItRef.known
    | "unknown" => pure ItRef.unknown
    | s => throw s!"bad it {s}"
  pure { dnd := ← annD j "dnd", pool := pool, it := it, ct := ← boolD j "ct" false, zone := ← boolD j "zone" false }

def parseNode (j : Json) : Except String Node := do
  pure { md := ← parseMeta j, init := parseLbl (← strD j "init"), reg := parseLbl (← strD j "reg"),
         deleting := ← boolD j "deleting" false }

def parseClaim (j : Json) : Except String Claim := do
  pure { md := ← parseMeta j,
         deleting := ← boolD j "deleting" false,
         terminating := ← parseCond (← strD j "terminating"),
         tgp := ← boolD j "tgp" false,
         drifted := ← parseCond (← strD j "drifted"),
         consolidatable := ← parseCond (← strD j "consolidatable"),
         initialized := ← parseCond (← strD j "initialized"),
         initAt := (← intO j "initAt").getD 0,
         lastPodEvent := ← intO j "lastPodEvent" }

def parsePolicy (s : String) : Except String Policy :=
  match s with
  | "WhenEmpty" => pure .whenEmpty
  | "WhenEmptyOrUnderutilized" => pure .whenEmptyOrUnderutilized
  | "Balanced" => pure .balanced
  | _ => throw s!"bad policy {s}"

def parsePool (j : Json) : Except String Pool := do
  pure { present := ← boolD j "exists" false, managed := ← boolD j "managed" false, static := ← boolD j "static" false,
         consolidateAfter := ← intO j "consolidateAfter", policy := ← parsePolicy (← strF j "policy"),
         hasITs := ← boolD j "hasITs" false }

def parseTol (s : String) : Except String Tol :=
  match s with
  | "" | "none" => pure .none
  | "key-exists" => pure .keyExists
  | "key-equal" => pure .keyEqual
  | "all" => pure .all
  | "other-key" => pure .otherKey
  | "key-noexecute" => pure .keyNoExecute
  | "key-noschedule" => pure .keyNoSchedule
  | _ => throw s!"bad toleration {s}"

def parsePod (j : Json) : Except String Pod := do
  let phase ← strF j "phase"
  let terminal ← match phase with
    | "Running" | "Pending" => pure false
    | "Succeeded" | "Failed" => pure true
    | _ => throw s!"bad phase {phase}"
  pure { onNode := ← boolD j "onNode" false, ns := (← natO j "ns").getD 0, app := ← natO j "app",
         terminal := terminal, terminating := ← boolD j "terminating" false,
         daemon := ← boolD j "daemon" false, mirror := ← boolD j "mirror" false, sts := ← boolD j "sts" false,
         tol := ← parseTol (← strD j "tol"), dnd := ← annD j "dnd", start := ← intO j "start",
         notReady := ← boolD j "notReady" false, delCost := ← intO j "delCost", prio := ← intO j "prio" }

def parsePdb (j : Json) : Except String Pdb := do
  let sel ← match (← strF j "sel") with
    | "nil" => pure Sel.nothing
    | "all" => pure Sel.everything
    | "app" => pure (Sel.app (← natF j "app"))
    | s => throw s!"bad selector {s}"
  let allowed ← intF j "allowed"
  if allowed < 0 then throw "negative disruptionsAllowed is outside the model"
  pure { ns := (← natO j "ns").getD 0, sel := sel, allowed := allowed.toNat, alwaysAllow := ← boolD j "alwaysAllow" false }

def optObj (j : Json) (k : String) (f : Json → Except String α) : Except String (Option α) :=
  match fldOpt j k with
  | none => pure none
  | some v => do pure (some (← f v))

/-- the faults injected into one run of the nodeclaim.disruption controller: `{"drift": kind, "poolGet": kind,
    "patch": kind}`, each kind a string ("" / absent = no fault; the kinds of one position behave alike for the
    persisted condition: drift ∈ isDrifted | notFound | instanceTypes, poolGet ∈ error, patch ∈ conflict | notFound | error) -/
def parseFaults (j : Json) (k : String) : Except String RFaults :=
  match fldOpt j k with
  | none => pure {}
  | some v => do
    let drift ← strD v "drift"
    let poolGet ← strD v "poolGet"
    let patch ← strD v "patch"
    if !["", "isDrifted", "notFound", "instanceTypes"].contains drift then throw s!"bad drift fault {drift}"
    if !["", "error"].contains poolGet then throw s!"bad poolGet fault {poolGet}"
    if !["", "conflict", "notFound", "error"].contains patch then throw s!"bad patch fault {patch}"
    pure { drift := drift != "", poolGet := poolGet != "", patch := patch != "" }

def parseWorld (j : Json) : Except String World := do
  pure { now := ← intF j "now", batchMax := ← intF j "batchMax",
         claim := ← optObj j "claim" parseClaim, node := ← optObj j "node" parseNode,
         marked := ← boolD j "marked" false, nominatedAt := ← intO j "nominatedAt",
         inQueue := ← boolD j "inQueue" false, buffer := (← natO j "buffer").getD 0,
         pool := ← parsePool (← fld j "pool"),
         pods := ← (← arrD j "pods").mapM parsePod, pdbs := ← (← arrD j "pdbs").mapM parsePdb }

/-! ## vocabulary → JSON (canonical output, the shape of the Go `CandOut`) -/

def condStr : Cond → String
  | .absent => ""
  | .true_ => "True"
  | .false_ => "False"
  | .unknown => "Unknown"

def verdictStr : CandVerdict → String
  | .ok => "ok"
  | .podBlocked => "pod-blocked"
  | .blocked => "blocked"

def okBlocked (b : Bool) : String := if b then "ok" else "blocked"

/-- the world after the optional run of the nodeclaim.disruption controller (with the faults of that run) -/
def applyReconcile (w : World) (reconcile : Bool) (f : RFaults) : World :=
  if reconcile then { w with claim := w.claim.map (fun c => reconcileClaimF f w.pool c w.now) } else w

def modelOut (w : World) : Json :=
  let sn := stateNode w
  let methods := Method.all
  let base : List (String × Json) :=
    [ ("tracked", jBool sn.isSome),
      ("hasNode", jBool (match sn with | some s => s.node.isSome | none => false)),
      ("consolidatable", jStr (match w.claim with | some c => condStr c.consolidatable | none => "")) ]
  match sn with
  | none =>
    jObj (base ++ [("node", jStr ""), ("pods", jStr ""), ("cand", jObj []), ("class", jObj []), ("sel", jObj []), ("get", jObj [])])
  | some s =>
    let sel := jObj (methods.map (fun m => (m.name, jBool (selected w m))))
    jObj (base ++
      [ ("node", jStr (okBlocked (s.validateNode w.now))),
        ("pods", jStr (okBlocked (s.validatePods w.now w.pods w.pdbs))),
        ("cand", jObj [ (Class.graceful.name, jStr (verdictStr (newCandidate w .graceful))),
                        (Class.eventual.name, jStr (verdictStr (newCandidate w .eventual))) ]),
        ("class", jObj (methods.map (fun m => (m.name, jStr (classOf m).name)))),
        ("sel", sel),
        ("get", sel) ])

/-! ## the property evaluated on what the implementation did -/

open Karp.Spec.Protected in
/-- every violation of the specification by the implementation's output `impl`, as text -/
def specViolations (w : World) (impl : Json) : Except String (List String) := do
  if !wellFormed w then return []     -- outside the specification's lifecycle hypothesis: model equality only
  let mut bad : List String := []
  let tracked := (← boolD impl "tracked" false)
  if !tracked then return []
  let blockers : String :=
    s!"[unmanaged={unmanaged w} uninitialized={uninitialized w} deleting={deleting w} nominated={recentlyNominated w} nodeDnd={nodeDoNotDisrupt w} podDnd={podDoNotDisrupt w} pdb={pdbBlocks w} tgp={hasTGP w}]"
  -- the per-method selections, both through NewCandidate+ShouldDisrupt and through GetCandidates
  for key in ["sel", "get"] do
    match fldOpt impl key with
    | none => pure ()
    | some o =>
      for m in Method.all do
        match fldOpt o m.name with
        | none => pure ()
        | some v =>
          if (← asBool v) && !allowed w m then
            let why :=
              if nodeLevelBlocker w then "a node-level blocker is present"
              else if podLevelBlocker w && !mayOverride w m then "a pod-level blocker is present and the method may not override it"
              else "a consolidation requirement is not met"
            bad := bad ++ [s!"{key}.{m.name}: selected although {why} {blockers} [consolidatable={consolidatable w} static={w.pool.static} enabled={w.pool.consolidateAfter.isSome} empty={empty w}]"]
  -- NewCandidate per class
  match fldOpt impl "cand" with
  | none => pure ()
  | some o =>
    for (cls, ev) in [(Class.graceful, false), (Class.eventual, true)] do
      match fldOpt o cls.name with
      | none => pure ()
      | some v =>
        if (← asStr v) == "ok" && !candidateAllowed w ev then
          bad := bad ++ [s!"cand.{cls.name}: NewCandidate succeeded for a protected node {blockers}"]
  -- the two validators
  if (← strD impl "node") == "ok" && (uninitialized w || deleting' w || recentlyNominated w || nodeDoNotDisrupt w || w.claim.isNone) then
    bad := bad ++ [s!"node: ValidateNodeDisruptable accepted a protected node {blockers}"]
  if (← boolD impl "hasNode" false) && (← strD impl "pods") == "ok" && podLevelBlocker w then
    bad := bad ++ [s!"pods: ValidatePodsDisruptable accepted a node with a pod-level blocker {blockers}"]
  return bad
where
  /-- deletion as far as the StateNode alone can know it (the queue is checked by NewCandidate) -/
  deleting' (w : World) : Bool :=
    w.marked || (match w.claim with | some c => c.deleting || c.terminating == .true_ | none => false)

def candidate (inp impl : Json) : Except String Resp := do
  let w0 ← parseWorld inp
  let reconcile ← boolD inp "reconcile" false
  let faults ← parseFaults inp "rfault"
  let w := applyReconcile w0 reconcile faults
  -- the property on what the implementation selected, in the world the SPECIFICATION says the controller leaves
  -- behind (the specification's own reading of the run: `afterController`), not the model's
  let wSpec : World :=
    if reconcile then
      { w0 with claim := w0.claim.map (fun c => Karp.Spec.ProtectedHistory.afterController faults w0.pool c w0.now) }
    else w0
  let mut bad ← specViolations wSpec impl
  -- "Consolidatable (consolidateAfter elapsed since the last pod event)": when the real controller has just
  -- maintained the condition, True is only allowed if the window has elapsed (and a stale True must have been
  -- withdrawn) — unless the controller had no say in that run (pool unreadable / status write refused)
  if reconcile then
    match w0.claim with
    | some c =>
      let got ← parseCond (← strD impl "consolidatable")
      if !Karp.Spec.Protected.conditionAcceptable faults w0.pool c w0.now got then
        bad := bad ++ [s!"consolidatable: after the run of the nodeclaim.disruption controller (drift check failed={faults.drift}) the NodeClaim is Consolidatable=True although consolidateAfter has not elapsed since the last pod event (or the NodeClaim is not initialized / consolidation is disabled / the controller must not touch it)"]
    | none => pure ()
  pure { model := some (modelOut w), spec := some bad.isEmpty, why := "; ".intercalate bad }

/-! ## c07.history -/

def parseEv (j : Json) : Except String Ev := do
  match (← strF j "k") with
  | "tick" => pure (.tick (← natF j "d"))
  | "claim" => pure (.claim (← optObj j "claim" parseClaim))
  | "node" => pure (.node (← optObj j "node" parseNode))
  | "mark" => pure .mark
  | "unmark" => pure .unmark
  | "nominate" => pure .nominate
  | "podEvent" => pure .podEvent
  | "reconcile" => pure (.reconcile (← parseFaults j "f"))
  | k => throw s!"bad event {k}"

open Karp.Spec.ProtectedHistory in
def history (inp impl : Json) : Except String Resp := do
  let start ← intF inp "start"
  let env : World :=
    { now := start, batchMax := ← intF inp "batchMax", claim := none, node := none, marked := false,
      nominatedAt := none, inQueue := false, buffer := 0, pool := ← parsePool (← fld inp "pool"),
      pods := ← (← arrD inp "pods").mapM parsePod, pdbs := ← (← arrD inp "pdbs").mapM parsePdb }
  let evs ← (← arrF inp "events").mapM parseEv
  let model := hobserve env { now := start, sn := none } evs
  -- the property on what the implementation selected, step by step, against the LOG semantics of the specification
  let implRows ← match fldOpt impl "sel" with
    | some v => listOf boolList v
    | none => throw "implementation produced no selections"
  let rec go (l : Log) (evs : List Ev) (rows : List (List Bool)) (i : Nat) (bad : List String) : List String :=
    match evs, rows with
    | e :: es, row :: rs =>
      let l' := specStep env.pool l e
      let bad' := (Method.all.zip row).foldl (fun acc (m, sel) =>
        if sel && Karp.Spec.Protected.wellFormed (l'.world env) && !allowedAfter env l' m then
          acc ++ [s!"after event {i}: {m.name} selects the node although the log says it is protected (marked={l'.marked} recentlyNominated={l'.recentlyNominated (Karp.Spec.Protected.window env)} tracked={l'.tracked} allowed={Karp.Spec.Protected.allowed (l'.world env) m})"]
        else acc) bad
      go l' es rs (i + 1) bad'
    | _, _ => bad
  let bad := go { now := start } evs implRows 0 []
  let lenOk := implRows.length == evs.length
  pure { model := some (jObj [("sel", jArr (model.map (fun r => jArr (r.map jBool))))]),
         spec := some (bad.isEmpty && lenOk),
         why := if lenOk then "; ".intercalate (bad.take 3) else "implementation reported a different number of steps" }

/-! ## c07.commands -/

def natD0 (j : Json) (k : String) : Except String Nat :=
  match fldOpt j k with
  | none => pure 0
  | some v => asNat v

def parseQEv (j : Json) : Except String QEv := do
  match (← strF j "k") with
  | "record" =>
    pure (.record (← natD0 j "real") (← natD0 j "virt") ((← natD0 j "newClaims") * (← natD0 j "newPods")))
  | "start" =>
    let name ← strF j "m"
    match Method.all.find? (fun m => m.name == name) with
    | some m => pure (.start m)
    | none => throw s!"unknown method {name}"
  | "queue" =>
    match (← strD j "qf") with
    | "" => pure (.queue .none)
    | "delete-error" => pure (.queue .deleteError)
    | "replacement-lost" => pure (.queue .replacementLost)
    | f => throw s!"bad queue fault {f}"
  | "sync" => pure .sync
  | "mark" | "unmark" => throw "raw mark/unmark are not part of c07.commands"
  | _ => pure (.base (← parseEv j))

open Karp.Spec.ProtectedHistory in
def commands (inp impl : Json) : Except String Resp := do
  let start ← intF inp "start"
  let env : World :=
    { now := start, batchMax := ← intF inp "batchMax", claim := none, node := none, marked := false,
      nominatedAt := none, inQueue := false, buffer := 0, pool := ← parsePool (← fld inp "pool"),
      pods := ← (← arrD inp "pods").mapM parsePod, pdbs := ← (← arrD inp "pdbs").mapM parsePdb }
  let evs ← (← arrF inp "events").mapM parseQEv
  let model := qobserve env { h := { now := start, sn := none } } evs
  let implRows ← match fldOpt impl "sel" with
    | some v => listOf boolList v
    | none => throw "implementation produced no selections"
  let implDid ← match fldOpt impl "did" with
    | some v => strList v
    | none => throw "implementation did not report what it did"
  -- the property on what the implementation selected, step by step, against the LOG of recorded scheduling results
  -- and commands (what the implementation says it started / carried out is taken from its own report)
  let rec go (l : QLog) (evs : List QEv) (rows : List (List Bool)) (dids : List String) (i : Nat) (bad : List String) : List String :=
    match evs, rows, dids with
    | e :: es, row :: rs, d :: ds =>
      let l' := qspecStep env.pool l e d
      let bad' := (Method.all.zip row).foldl (fun acc (m, sel) =>
        if sel && Karp.Spec.Protected.wellFormed (l'.log.world env) && !allowedAfterQ env l' m then
          acc ++ [s!"after event {i}: {m.name} selects the node although it is protected (commandInQueue={l'.queued} deletionRequestedByCompletedCommand={l'.deleteRequested} marked={l'.log.marked} recentlyNominated={l'.log.recentlyNominated (Karp.Spec.Protected.window env)} tracked={l'.log.tracked} allowed={Karp.Spec.Protected.allowed (l'.log.world env) m})"]
        else acc) bad
      go l' es rs ds (i + 1) bad'
    | _, _, _ => bad
  let bad := go { log := { now := start } } evs implRows implDid 0 []
  let lenOk := implRows.length == evs.length && implDid.length == evs.length
  pure { model := some (jObj [("sel", jArr (model.map (fun r => jArr (r.2.map jBool)))), ("did", jArr (model.map (fun r => jStr r.1)))]),
         spec := some (bad.isEmpty && lenOk),
         why := if lenOk then "; ".intercalate (bad.take 3) else "implementation reported a different number of steps" }

/-! ## leaf ops -/

/-- one-directional check: whenever the specification's predicate `premise` holds, the implementation's answer for
    `k` must be `want` (the property is a safety property: being more protective than required is allowed) -/
def checkImplies (impl : Json) (k : String) (premise : Bool) (want : Bool) (what : String) : Except String (List String) := do
  match fldOpt impl k with
  | none => pure [s!"{k}: missing in the implementation output"]
  | some v =>
    let got ← asBool v
    pure (if premise && got != want then [s!"{k}: implementation says {got} although {what}"] else [])

open Karp.Spec.Protected in
def podOp (inp impl : Json) : Except String Resp := do
  let now ← intF inp "now"
  let p ← parsePod (← fld inp "pod")
  let model := jObj [
    ("active", jBool (isActive p)), ("reschedulable", jBool (isReschedulable p)),
    ("evictable", jBool (isEvictable now p)), ("disruptable", jBool (isDisruptable now p)),
    ("dndActive", jBool (dndActive now p)), ("dndActiveNilRecorder", jBool (dndActive now p)),
    ("tolerates", jBool p.tol.tolerates), ("costPositive", jBool (costPositive p))]
  -- the specification's reading of the same words, in the direction that protects
  let act := annotationActive now p
  let bad := (← checkImplies impl "dndActive" act true "the do-not-disrupt annotation is active (spec)")
    ++ (← checkImplies impl "dndActiveNilRecorder" act true "the do-not-disrupt annotation is active (spec)")
    ++ (← checkImplies impl "disruptable" (running p && act) false "the pod is running with an active do-not-disrupt annotation (spec)")
    ++ (← checkImplies impl "evictable" (wouldEvict now p) true "the drain would evict the pod, so its PDB counts (spec)")
    ++ (← checkImplies impl "reschedulable" (mustMove p) true "the pod would have to move, so the node is not empty (spec)")
    ++ (← checkImplies impl "costPositive" (contributes p) true "the pod contributes disruption cost, so the node is not empty (spec)")
  pure { model := some model, spec := some bad.isEmpty, why := "; ".intercalate bad }

open Karp.Spec.Protected in
def pdbOp (inp impl : Json) : Except String Resp := do
  let now ← intF inp "now"
  let pods ← (← arrD inp "pods").mapM parsePod
  let pdbs ← (← arrD inp "pdbs").mapM parsePdb
  let r := canEvictPods now pdbs pods
  let refused := pods.any (fun p => wouldEvict now p && evictionRefused pdbs p)
  let bad ← checkImplies impl "ok" refused false "a PDB refuses the eviction of one of the pods (spec)"
  pure { model := some (jObj [("ok", jBool r.2), ("keys", jNat r.1)]), spec := some bad.isEmpty, why := "; ".intercalate bad }

open Karp.Spec.Protected in
def consolidatableOp (inp impl : Json) : Except String Resp := do
  let now ← intF inp "now"
  let pool ← parsePool (← fld inp "pool")
  let c ← parseClaim (← fld inp "claim")
  let faults ← parseFaults inp "fault"
  let after := reconcileClaimF faults pool c now
  let got ← strD impl "consolidatable"
  -- safety: True may only be the result when the window has elapsed (or the controller had no say — NodeClaim it must
  -- not touch, pool unreadable, status write refused — and it was True before); a failing drift check is no excuse
  let ran := controllerActs faults pool c
  let bad :=
    if got == "True" && ran && !mayBeConsolidatable pool c now then
      [s!"Consolidatable=True after the run (drift check failed={faults.drift}) although consolidateAfter has not elapsed since the last pod event / the NodeClaim is not initialized / consolidation is disabled"]
    else if got == "True" && !ran && c.consolidatable != .true_ then
      ["Consolidatable=True appeared on a NodeClaim the sub-reconciler must not touch"]
    else []
  pure { model := some (jObj [("consolidatable", jStr (condStr after.consolidatable))]),
         spec := some bad.isEmpty, why := "; ".intercalate bad }

/-! ## c07.controller (relational) -/

def parseMethod (s : String) : Except String Method :=
  match Method.all.find? (fun m => m.name == s) with
  | some m => pure m
  | none => throw s!"unknown method {s}"

open Karp.Spec.Protected in
def controllerOp (inp impl : Json) : Except String Resp := do
  let now ← intF inp "now"
  let batchMax ← intF inp "batchMax"
  let m ← parseMethod (← strF inp "method")
  let pool ← parsePool (← fld inp "pool")
  let pdbs ← (← arrD inp "pdbs").mapM parsePdb
  let worlds ← (← arrF inp "nodes").mapM (fun j => do
    let w : World :=
      { now := now, batchMax := batchMax, claim := ← optObj j "claim" parseClaim, node := ← optObj j "node" parseNode,
        marked := ← boolD j "marked" false, nominatedAt := ← intO j "nominatedAt", inQueue := ← boolD j "inQueue" false,
        buffer := (← natO j "buffer").getD 0, pool := pool, pods := ← (← arrD j "pods").mapM parsePod, pdbs := pdbs }
    pure w)
  let cands ← match fldOpt impl "cands" with
    | some v => natList v
    | none => throw "implementation produced no candidate list"
  -- the change that arrived during the validation delay (if the controller waited at all)
  let injected ← boolD impl "injected" false
  let inj : Option (Nat × String) ← match fldOpt inp "inject" with
    | some j => do pure (some ((← natF j "node"), (← strF j "kind")))
    | none => pure none
  -- when the change arrives: during the first validation delay, or between listing the candidates and computing
  -- the commands ("compute")
  let atCompute : Bool ← match fldOpt inp "inject" with
    | some j => do
      match (← strD j "when") with
      | "" | "validation" => pure false
      | "compute" => pure true
      | s => throw s!"bad injection point {s}"
    | none => pure false
  let injPod (dnd : Ann) (ns : Nat) (app : Option Nat) : Pod :=
    { onNode := true, ns := ns, app := app, terminal := false, terminating := false, daemon := true, mirror := false,
      sts := false, tol := .none, dnd := dnd, start := some (floorSec now), notReady := false, delCost := none, prio := none }
  let after (i : Nat) (w : World) : Except String World :=
    match inj with
    | some (k, kind) =>
      if !injected then pure w
      -- a method without a validation phase acts on the candidates it was given: of a change that races with the
      -- pass it must (and does) only notice that the node started deleting (the in-memory state of the controller
      -- itself); everything else is seen by the next pass
      else if atCompute && !revalidates m && !["mark", "claim-delete", "claim-terminating"].contains kind then pure w
      else match kind with
        | "pod-dnd" => pure (if k == i then { w with pods := w.pods ++ [injPod .true_ 0 none] } else w)
        | "pdb-pod" =>
          -- the PDB is cluster wide; the pod it selects is on node k only
          let w' := { w with pdbs := w.pdbs ++ [{ ns := 5, sel := .app 9, allowed := 0, alwaysAllow := false }] }
          pure (if k == i then { w' with pods := w'.pods ++ [injPod .none 5 (some 9)] } else w')
        | "mark" => pure (if k == i then LateDeletion.mark.apply w else w)
        | "node-dnd" =>
          pure (if k == i then { w with node := w.node.map (fun n => { n with md := { n.md with dnd := .true_ } }) } else w)
        | "claim-delete" => pure (if k == i then LateDeletion.claimDelete.apply w else w)
        | "claim-terminating" => pure (if k == i then LateDeletion.claimTerminating.apply w else w)
        | other => throw s!"bad injection {other}"
    | none => pure w
  let mut notSelected : List String := []
  let mut notAllowed : List String := []
  -- classification of the violation for known_findings.json: "staticdrift-late-deletion" iff EVERY violation is of
  -- that one class — a StaticDrift command contains the node that started deleting between the listing of the
  -- candidates and the computation of the commands, and nothing else is wrong with that node or any other
  let mut otherBad := false
  let injNode : Option Nat := inj.map (·.1)
  for i in cands do
    match worlds[i]? with
    | none => notSelected := notSelected ++ [s!"node {i} does not exist"]
    | some w0 =>
      let w1 ← after i w0
      -- the model: listed in w0, then whatever the method looks at again in w1
      if !mayCommand m w0 w1 then
        notSelected := notSelected ++ [s!"node {i} is in a {m.name} command but the model rules that out (selected when the reconcile began={selected w0 m}, final look of the scheduling simulation={finalLook w1}, selected after the change={selected w1 m})"]
      for (w, late, whenTxt) in [(w0, false, "when the reconcile began"), (w1, true, if atCompute then "after the change that arrived between listing the candidates and computing the command" else "after the change that arrived during validation")] do
        if wellFormed w && !allowed w m then
          notAllowed := notAllowed ++ [s!"node {i} is a candidate of a {m.name} command although it is protected or ineligible {whenTxt} (nodeLevel={nodeLevelBlocker w} podLevel={podLevelBlocker w} override={mayOverride w m} consolidationOk={consolidationOk w m} deleting={deleting w})"]
          let knownClass := late && atCompute && injected && m == .staticDrift && injNode == some i &&
            allowed w0 m && LateDeletion.all.any (fun e => e.apply w0 == w1)
          if !knownClass then otherBad := true
  let sel := (List.range worlds.length).filter (fun i => match worlds[i]? with | some w => selected w m | none => false)
  let signature := if !notAllowed.isEmpty && !otherBad && notSelected.isEmpty then "staticdrift-late-deletion" else "controller"
  pure { allowed := some notSelected.isEmpty, spec := some notAllowed.isEmpty,
         why := "; ".intercalate (notAllowed ++ notSelected),
         extra := some (jObj [("modelSelected", jArr (sel.map jNat)), ("signature", jStr signature)]) }

def handle : Handler := fun op inp impl =>
  match op with
  | "c07.candidate" => candidate inp impl
  | "c07.history" => history inp impl
  | "c07.commands" => commands inp impl
  | "c07.pod" => podOp inp impl
  | "c07.pdb" => pdbOp inp impl
  | "c07.consolidatable" => consolidatableOp inp impl
  | "c07.controller" => controllerOp inp impl
  | _ => .error s!"unknown op {op}"

end Karp.Driver.C07
