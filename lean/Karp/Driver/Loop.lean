import Karp.Driver.Proto
/-! The JSON-lines loop shared by the all-in-one driver (`Main.lean`) and the per-property drivers (`Mains/Cxx.lean`). -/
namespace Karp.Driver
open Lean

/-- Dispatch one request line. Any failure is reported as `{"err": ...}`; the driver never invents a default answer. -/
def handleLineWith (dispatch : String → Except String Handler) (line : String) : Json :=
  match Json.parse line with
  | .error e => Json.mkObj [("err", Json.str s!"parse: {e}")]
  | .ok j =>
    match (do
      let op ← strF j "op"
      let inp ← fld j "in"
      let impl := (fldOpt j "impl").getD Json.null
      let h ← dispatch op
      h op inp impl : Except String Resp) with
    | .ok r => r.toJson
    | .error e => Json.mkObj [("err", Json.str e)]

partial def loopWith (dispatch : String → Except String Handler) (hin hout : IO.FS.Stream) : IO Unit := do
  let line ← hin.getLine
  if line.isEmpty then return ()
  let t := line.trimAscii.toString
  if t.isEmpty then
    loopWith dispatch hin hout
  else
    hout.putStrLn (handleLineWith dispatch t).compress
    hout.flush
    loopWith dispatch hin hout

def runDriver (dispatch : String → Except String Handler) : IO Unit := do
  let hin ← IO.getStdin
  let hout ← IO.getStdout
  loopWith dispatch hin hout
  hout.flush

end Karp.Driver
