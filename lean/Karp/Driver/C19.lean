import Karp.Driver.Proto
import Karp.Model.WeightOrder
import Karp.Model.PriceOrder
import Karp.Model.FirstSuccess
import Karp.Model.ReservedFallback
import Karp.Model.PoolFilter
import Karp.Model.Relax
import Karp.Model.MinValuesFilter
import Karp.Spec.WeightPrice
import Karp.Spec.PoolPass

namespace Karp.Driver.C19
open Lean Karp.Driver Karp.WeightOrder Karp.PriceOrder Karp.FirstSuccess Karp.ReservedFallback Karp.Spec.WeightPrice Karp.Spec.PoolPass

/-! ## parsing -/

def bytesOf (s : String) : List Nat := s.toUTF8.toList.map (·.toNat)

def parseOp (s : String) : Except String Op :=
  match s with
  | "In" => pure .isIn
  | "NotIn" => pure .notIn
  | "Exists" => pure .exists_
  | "DoesNotExist" => pure .doesNotExist
  | _ => .error s!"operator {s} is outside the model"

def parseReq (j : Json) : Except String Req := do
  pure { key := ← strF j "key", op := ← parseOp (← strF j "op"), vals := ← (do strList (← fld j "vals")) }

def parseReqs (j : Json) (k : String) : Except String (List Req) := do (← arrD j k).mapM parseReq

def parseOffering (j : Json) : Except String Offering := do
  pure { zone := ← strF j "zone", ct := ← strF j "ct", price := ← natF j "price", available := ← boolF j "avail" }

def parseType (j : Json) : Except String IType := do
  pure { name := ← strF j "name", offerings := ← (← arrD j "offerings").mapM parseOffering }

def parsePType (j : Json) : Except String PType := do
  pure { name := ← strF j "name", offerings := ← (← arrD j "offerings").mapM parseOffering,
         cpu := (← natO j "cpu").getD 0, pods := (← natO j "pods").getD 0, overhead := (← natO j "overhead").getD 0 }

def findType (its : List IType) (n : String) : Option IType := its.find? (·.name == n)

/-- the named types, `none` if a name is unknown -/
def typesNamed (its : List IType) (ns : List String) : Option (List IType) := ns.mapM (findType its)

def distinctNames (its : List IType) : Bool := noDuplicates (its.map (·.name))

/-! ## c19.weight -/

def poolOfJson (j : Json) : Except String (Pool × String) := do
  let name ← strF j "name"
  let w := (← intO j "weight").getD 0
  pure ({ name := bytesOf name, weight := w }, name)

def weight (inp impl : Json) : Except String Resp := do
  let ps ← (← arrF inp "pools").mapM poolOfJson
  let pools := ps.map (·.1)
  let nameOf (p : Pool) : String := ((ps.find? (fun q => q.1.name == p.name)).map (·.2)).getD "?"
  let model := orderByWeight pools
  let modelJ := jObj [("order", jArr (model.map (fun p => jObj [("name", jStr (nameOf p)), ("weight", jInt p.weight)])))]
  let (specOk, why) ← match fldOpt impl "order" with
    | none => pure (false, "implementation produced no order (panic?)")
    | some o => do
      let got ← (← asArr o).mapM poolOfJson
      let ok := weightOrderSpec pools (got.map (·.1))
      pure (ok, if ok then "" else "the returned order is not the input pools by weight descending (ties: name descending)")
  pure { model := some modelJ, spec := some specOk, why := why }

/-! ## c19.price -/

/-- `kept` (in the order given) can be the `n`-prefix of a sorted permutation of `its`:
    witness = `kept` followed by the remaining types in model order -/
def prefixAllowed (reqs : List Req) (n : Int) (its kept : List IType) : Bool :=
  let rest := its.filter (fun t => !kept.contains t)
  allowedTruncation reqs n its (kept ++ orderByPrice reqs rest) kept

def price (inp impl : Json) : Except String Resp := do
  let reqs ← parseReqs inp "reqs"
  let its ← (← arrF inp "types").mapM parseType
  let max ← intF inp "max"
  let minTypes ← natO inp "min_types"
  let bestEffort ← boolD inp "best_effort" false
  if !distinctNames its then throw "duplicate type names are outside the model"
  match fldOpt impl "ordered" with
  | none => pure { spec := some false, why := "implementation produced no output (panic?)" }
  | some o => do
    let orderedN ← strList o
    let truncN ← strList (← fld impl "truncated")
    let err ← strF impl "err"
    match typesNamed its orderedN, typesNamed its truncN with
    | some ordered, some trunc =>
      let okOrder := allowedSort (cheaper reqs) its ordered
      -- what the model says about the error: decided on the prefix of ANY sorted permutation (its length is fixed)
      let keptLen := (sliceTo max ordered)
      let failsM := truncateFails minTypes bestEffort keptLen
      let okTrunc :=
        if failsM then err == "minvalues" && allowedSort (cheaper reqs) its trunc
        else err == "" && prefixAllowed reqs max its trunc
      let allowed := okOrder && okTrunc
      let whyA := if okOrder then (if okTrunc then "" else s!"Truncate: model expects error={failsM}, a {max}-prefix of a price-sorted permutation")
                  else "OrderByPrice: not a price-sorted permutation of the input"
      let specRank := rankedSpec reqs its orderedN
      let specTrunc := if err == "" then cheapestKeptSpec reqs max its truncN else rankedSpec reqs its truncN
      let whyS := if !specRank then "OrderByPrice ranks a dearer type (by cheapest compatible available offering) before a cheaper one, or loses/invents a type"
                  else if !specTrunc then s!"Truncate to {max} dropped a cheaper type in favour of a dearer one (or kept the wrong number)"
                  else ""
      pure { allowed := some allowed, spec := some (specRank && specTrunc), why := if whyS.isEmpty then whyA else whyS }
    | _, _ => pure { allowed := some false, spec := some false, why := "the implementation returned a type that is not in the input" }

/-! ## c19.offerings -/

def offerings (inp impl : Json) : Except String Resp := do
  let reqs ← parseReqs inp "reqs"
  let ofs ← (← arrF inp "offerings").mapM parseOffering
  let sel := (ofs.filter (·.available)).filter (offeringCompat reqs)
  let model := jObj [("cheapest", jOptNat (cheapestAvailableCompatible reqs ofs)),
                     ("dearest", jOptNat (dearestAvailableCompatible reqs ofs)),
                     ("count", jNat sel.length), ("has", jBool (!sel.isEmpty))]
  -- spec: the reported cheapest price is the least price of a usable offering
  let us := (ofs.filter (usable reqs)).map (·.price)
  let (specOk, why) ← match impl.getObjVal? "count" with
    | .error _ => pure (false, "implementation produced no output (panic?)")
    | .ok _ => do
      let c ← natO impl "cheapest"
      let d ← natO impl "dearest"
      let okC := match c with
        | none => us.isEmpty
        | some p => us.contains p && us.all (fun q => decide (p ≤ q))
      let okD := match d with
        | none => us.isEmpty
        | some p => us.contains p && us.all (fun q => decide (q ≤ p))
      pure (okC && okD, if okC && okD then "" else "Cheapest/MostExpensive is not the least/greatest price among the available compatible offerings")
  pure { model := some model, spec := some specOk, why := why }

/-! ## c19.tonodeclaim -/

/-- a set of names (any order) can be what `OrderByPrice` + `Slice(0, n)` keeps -/
def keptSetAllowed (reqs : List Req) (n : Int) (its : List IType) (names : List String) : Bool :=
  match typesNamed its names with
  | none => false
  | some kept => noDuplicates names && prefixAllowed reqs n its (orderByPrice reqs kept)

def toNodeClaim (inp impl : Json) : Except String Resp := do
  let reqs ← parseReqs inp "reqs"
  let its ← (← arrF inp "types").mapM parseType
  let static ← boolF inp "static"
  let pool ← strF inp "pool"
  let maxT : Int := match (← intO inp "max_types") with
    | some m => m
    | none => (maxInstanceTypes : Int)
  if !distinctNames its then throw "duplicate type names are outside the model"
  match fldOpt impl "types" with
  | none => pure { spec := some false, why := "implementation produced no output (panic?)" }
  | some t => do
    let got ← strList t
    let hasReq ← boolF impl "has_type_req"
    let label ← strF impl "pool_label"
    let modelNames := toNodeClaimTypes static reqs maxT its
    -- the NodeClaim is restricted to its own pool: requirement nodepool In [pool] (absent in older corpus outputs)
    let poolReqOk ← match impl.getObjVal? "pool_req" with
      | .error _ => pure true
      | .ok Json.null => pure false
      | .ok v => do pure ((← strList v) == [pool])
    let allowed := label == pool && poolReqOk &&
      (match modelNames with
       | none => got.isEmpty && !hasReq
       | some _ => keptSetAllowed reqs maxT its got)
    let specOk := label == pool && poolReqOk && (if static then got.isEmpty else cheapestKeptSpec reqs maxT its got)
    pure { allowed := some allowed, spec := some specOk,
           why := if specOk then (if allowed then "" else "not the prefix of a price-sorted permutation")
                  else if !poolReqOk then s!"the NodeClaim of NodePool {pool} does not require {Karp.Spec.PoolPass.nodePoolKey} In [{pool}]: pods selecting a pool by name are not kept to it"
                  else s!"the NodeClaim's instance types are not the {maxT} cheapest options (or the NodePool label is wrong)" }

/-! ## c19.parallel -/

def parallel (inp impl : Json) : Except String Resp := do
  let workers ← intF inp "workers"
  let cont ← boolList (← fld inp "cont")
  let stops := cont.map (!·)
  let w := workers.toNat
  match fldOpt impl "processed" with
  | none => pure { spec := some false, why := "implementation produced no output (panic?)" }
  | some p => do
    let processed ← natList p
    let published ← intF impl "published"
    let returned ← boolF impl "returned_after_all_finished"
    let maxActive ← natF impl "max_active"
    let k := (processed.takeWhile (· == 1)).length
    let prefixShape := processed == List.replicate k 1 ++ List.replicate (processed.length - k) 0
    let outs := stops.map (fun s => if s then Outcome.ok else Outcome.fail)
    let firstStop : Int := match firstDecisive outs with | some (i, _) => (i : Int) | none => -1
    let expectedPublished : Int := if w = 0 then -1 else firstStop
    let allowed := processed.length == cont.length && prefixShape && allowedEvaluated w stops k &&
      published == expectedPublished && returned && decide (maxActive ≤ min w cont.length)
    -- spec: nothing is evaluated twice; with at least one worker every piece up to and including the first
    -- stopping one (all pieces when none stops) was evaluated; the least stopping index is what gets published
    let need := if w = 0 then 0 else (match firstDecisive outs with | some (i, _) => i + 1 | none => cont.length)
    let okOnce := processed.all (· ≤ 1)
    let okNeed := (processed.take need).all (· == 1)
    let okPub := published == expectedPublished
    let specOk := okOnce && okNeed && okPub && returned
    pure { allowed := some allowed, spec := some specOk,
           why := if specOk then (if allowed then "" else s!"evaluated prefix {k} of {cont.length} is not reachable with {w} workers")
                  else if !okOnce then "a piece was evaluated twice"
                  else if !okNeed then s!"with {w} workers the pieces 0..{need - 1} (up to the first stopping piece) must all be evaluated; evaluated: {processed}"
                  else if !okPub then s!"index {published} was published instead of the first stopping index {expectedPublished}"
                  else "parallelizeUntil returned while an evaluation was still running" }

/-! ## c19.pass -/

def parseLabels (j : Json) : Except String (List (String × String)) :=
  match j with
  | .obj kvs => kvs.toList.mapM (fun (k, v) => do pure (k, ← asStr v))
  | .null => pure []
  | _ => .error "labels: object expected"

def parseConds (j : Json) : Except String (Option (List (String × String))) :=
  match fldOpt j "conds" with
  | none => pure none
  | some Json.null => pure none
  | some c => do
    let cs ← (← asArr c).mapM (fun x => do pure ((← strF x "type"), (← strF x "status")))
    if !noDuplicates (cs.map (·.1)) then throw "a condition type stored twice is outside the model (the list is keyed by type)"
    if !cs.all (fun c => ["True", "False", "Unknown"].contains c.2) then throw "condition status outside True/False/Unknown"
    pure (some cs)

def parsePool (j : Json) : Except String PPool := do
  pure { name := ← strF j "name", weight := (← intO j "weight").getD 0,
         ready := ← boolF j "ready", static := ← boolF j "static", deleting := ← boolF j "deleting",
         reqs := ← parseReqs j "reqs",
         labels := ← parseLabels ((fldOpt j "labels").getD Json.null),
         taints := ← (do strList ((fldOpt j "taints").getD (Json.arr #[]))),
         types := ← (← arrD j "types").mapM parsePType,
         softTaints := ← (do strList ((fldOpt j "soft_taints").getD (Json.arr #[]))),
         minTypes := (← natO j "min_types").getD 0,
         conds := ← parseConds j }

/-- the model's side of "which pools become templates": the filter closure of `Provisioner.NewScheduler`
    (`Model/PoolFilter.eligible`) on the stored conditions; without a condition list the `ready` flag stands for
    a stored `Ready` condition with that status -/
def modelEligible (p : PPool) : Bool :=
  let conds : List Karp.PoolFilter.Cond := match p.conds with
    | some cs => cs.map (fun c => { type := c.1, status := c.2 })
    | none => [{ type := Karp.PoolFilter.readyType, status := if p.ready then "True" else "False" }]
  Karp.PoolFilter.eligible { conds := conds, static := p.static, deleting := p.deleting }

def parsePod (j : Json) : Except String PPod := do
  let sel ← parseReqs j "sel"
  let aff ← parseReqs j "aff"
  pure { name := ← strF j "name", cpu := ← natF j "cpu", reqs := sel ++ aff,
         tol := ← (do strList ((fldOpt j "tol").getD (Json.arr #[]))),
         tolAll := ← (do strList ((fldOpt j "tol_all").getD (Json.arr #[]))),
         tolSoft := ← (do strList ((fldOpt j "tol_soft").getD (Json.arr #[]))) }

def parseClaim (j : Json) : Except String Claim := do
  -- pool_req: absent = not observed (older corpus outputs), null = observed, no such requirement, [..] = its values
  let poolReq : Option (Option (List String)) ← match j.getObjVal? "pool_req" with
    | .error _ => pure none
    | .ok Json.null => pure (some none)
    | .ok v => do pure (some (some (← strList v)))
  pure { pool := ← strF j "pool", pods := ← (do strList (← fld j "pods")), types := ← (do strList (← fld j "types")),
         poolReq := poolReq }

/-- the model's prediction for a pod that needs a new node: the usable pools in `OrderByWeight` order, one outcome per
    template and round — the taint preference counts as a requirement in the first round and is dropped by
    `Preferences.Relax` for the second, which exists only if some template pool has a `PreferNoSchedule` taint
    (`Model/Relax`) —, per round the sequential first success (C19_first_success: every schedule gives the same) -/
def modelPool (pools : List PPool) (pod : PPod) : Option String :=
  let usablePools := pools.filter modelEligible
  let keyed := usablePools.map (fun p => ({ name := bytesOf p.name, weight := p.weight } : Pool))
  let ordered := orderByWeight keyed
  let poolOf (k : Pool) : Option PPool := usablePools.find? (fun p => bytesOf p.name == k.name)
  -- instance types: the template exists (NewScheduler's own filter over the pool's catalog, no pod) and CanAdd's filter
  -- leaves something, both relaxing minValues under BestEffort (`Model/MinValuesFilter`)
  let offers (p : PPool) : Bool :=
    Karp.MinValuesFilter.poolOffers p.relaxMin p.minTypes (optionsFor p []).length (optionsFor p [pod]).length
  let outs (strict : Bool) := ordered.map (fun k => match poolOf k with
    | some p => if poolUsable p && tolerates p pod && offers p && (!strict || prefers p pod) then Outcome.ok else Outcome.fail
    | none => Outcome.fail)
  let soft := ordered.map (fun k => match poolOf k with
    | some p => !p.softTaints.isEmpty
    | none => false)
  match Karp.Relax.placeSequential soft (outs true) (outs false) with
  | none => none
  | some i => (ordered[i]?.bind poolOf).map (·.name)

def claimAllowed (pools : List PPool) (pods : List PPod) (maxTypes : Int) (c : Claim) : Option String :=
  match c.pods.head?.bind (findPod pods), findPool pools c.pool with
  | some opener, some p =>
    if modelPool pools opener != some p.name then
      some s!"model: pod {opener.name} opens its node in {modelPool pools opener}, implementation used {p.name}"
    else
      let group := c.pods.filterMap (findPod pods)
      let opts := (optionsFor p group).map toIType
      -- NewNodeClaimTemplate: the template requires nodepool In [its pool]; intersected with whatever the pods ask
      if c.poolReq.isSome && c.poolReq != some (some [p.name]) then
        some s!"model: the NodeClaim in {p.name} carries the requirement {nodePoolKey} In [{p.name}], implementation: {c.poolReq.getD none}"
      else if !keptSetAllowed (claimReqs p group) maxTypes opts c.types then
        some s!"model: instance types {c.types} of the claim in {p.name} are not a {maxTypes}-prefix of a price-sorted permutation of {opts.map (·.name)}"
      else none
  | _, _ => some "model: claim names an unknown pod or pool"

def pass (inp impl : Json) : Except String Resp := do
  let bestEffort ← boolD inp "best_effort" false
  let pools := (← (← arrF inp "pools").mapM parsePool).map (fun p => { p with relaxMin := bestEffort })
  let pods ← (← arrF inp "pods").mapM parsePod
  let maxTypes ← intF inp "max_types"
  -- Strict: a NodeClaim cut to MaxInstanceTypes below its pool's minValues is dropped after scheduling (its pods are
  -- not retried elsewhere in the pass): passes keep MaxInstanceTypes at or above every minValues
  if !bestEffort && pools.any (fun p => decide (maxTypes < (p.minTypes : Int))) then
    throw "Strict policy with MaxInstanceTypes below a NodePool's minValues is outside the model"
  if !noDuplicates (pools.map (·.name)) then throw "duplicate pool names are outside the model"
  if !pools.all (fun p => noDuplicates (p.types.map (·.name))) then throw "duplicate type names are outside the model"
  match fldOpt impl "runs" with
  | none => pure { spec := some false, why := "implementation produced no output (panic?)" }
  | some runsJ => do
    let herr := (← strO impl "err").getD ""
    if !herr.isEmpty then throw s!"harness could not run the pass: {herr}"
    let runs ← asArr runsJ
    let mut specWhy : Option String := none
    let mut allowWhy : Option String := none
    for r in runs do
      let claims ← (← arrF r "claims").mapM parseClaim
      -- pods the pass neither placed nor reported (e.g. "no dynamic nodepools found") are unscheduled as well
      let unsched := (← strList (← fld r "unscheduled")) ++ (← strList (← fld r "missing"))
      if specWhy.isNone then specWhy := passVerdict pools pods maxTypes claims unsched
      if allowWhy.isNone then
        allowWhy := claims.findSome? (claimAllowed pools pods maxTypes)
      if allowWhy.isNone then
        allowWhy := (unsched.filterMap (findPod pods)).findSome? (fun pod =>
          match modelPool pools pod with
          | some n => some s!"model: pod {pod.name} opens a node in {n}, implementation left it unscheduled"
          | none => none)
    pure { allowed := some allowWhy.isNone, spec := some specWhy.isNone,
           why := (specWhy.getD (allowWhy.getD "")) }

/-! ## c19.reserved -/

def reservedOverhead : Nat := 100

def parseRPool (j : Json) : Except String RPool := do
  let name ← strF j "name"
  let limit ← natO j "limit"
  pure { name := name, key := bytesOf name, weight := (← intO j "weight").getD 0, team := ← strF j "team",
         cpu := ← natF j "cpu", alloc := (← natF j "cpu") - reservedOverhead, cap := ← natF j "cap",
         limit := match limit with | some 0 => none | l => l }

def parseRPod (j : Json) : Except String RPod := do
  pure { name := ← strF j "name", cpu := ← natF j "cpu", team := ← strF j "team" }

def sortStrings (l : List String) : List String := sortBy (fun a b => decide (a < b)) l

def reserved (inp impl : Json) : Except String Resp := do
  let pools ← (← arrF inp "pools").mapM parseRPool
  let pods ← (← arrF inp "pods").mapM parseRPod
  if !noDuplicates (pools.map (·.name)) || !noDuplicates (pods.map (·.name)) then throw "duplicate names are outside the model"
  let res := Karp.ReservedFallback.pass pools pods
  let placedM := sortStrings (res.filterMap (fun (n, v) => match v with | .placed _ => some n | _ => none))
  let poolOfM (n : String) : String := match res.lookup n with | some (.placed q) => q | _ => "?"
  let modelRun := jObj [
    ("placed", jArr (placedM.map (fun n => jObj [("pod", jStr n), ("pool", jStr (poolOfM n))]))),
    ("deferred", jArr ((sortStrings (res.filterMap (fun (n, v) => if v == .deferred then some n else none))).map jStr)),
    ("unschedulable", jArr ((sortStrings (res.filterMap (fun (n, v) => if v == .unschedulable then some n else none))).map jStr))]
  let model := jObj [("runs", jArr [modelRun]), ("err", jStr "")]
  match fldOpt impl "runs" with
  | none => pure { model := some model, spec := some false, why := "implementation produced no output (panic?)" }
  | some runsJ => do
    let herr := (← strO impl "err").getD ""
    if !herr.isEmpty then throw s!"harness could not run the pass: {herr}"
    let mut why : Option String := none
    for r in (← asArr runsJ) do
      let placed ← (← arrF r "placed").mapM (fun j => do pure ((← strF j "pod"), (← strF j "pool")))
      let deferred ← strList (← fld r "deferred")
      let unsched ← strList (← fld r "unschedulable")
      if why.isNone then why := Karp.Spec.PoolPass.Reserved.verdict pools pods placed deferred unsched
    pure { model := some model, spec := some why.isNone, why := why.getD "" }

def handle : Handler := fun op inp impl =>
  match op with
  | "c19.weight" => weight inp impl
  | "c19.price" => price inp impl
  | "c19.offerings" => offerings inp impl
  | "c19.tonodeclaim" => toNodeClaim inp impl
  | "c19.parallel" => parallel inp impl
  | "c19.pass" => pass inp impl
  | "c19.reserved" => reserved inp impl
  | _ => .error s!"unknown op {op}"

end Karp.Driver.C19
