import Karp.Driver.Proto

namespace Karp.Driver.C14
open Lean Karp.Driver

def handle : Handler := fun op _ _ => .error s!"unknown op {op}"

end Karp.Driver.C14
