import Karp.Driver.Proto
import Karp.Model.Lifecycle
import Karp.Spec.LifecycleOrder

namespace Karp.Driver.C14
open Lean Karp.Driver Karp.Lifecycle
open Karp.Spec.LifecycleOrder (StepObs CreateObs Acc)

/-! ## JSON -> vocabulary -/

/-- `[key, effect]`, `[key, effect, value]` or `[key, effect, value, timeAdded]` -/
def parseTaint (j : Json) : Except String Taint := do
  match ← asArr j with
  | [k, e] => pure { key := ← asStr k, effect := ← asStr e }
  | [k, e, v] => pure { key := ← asStr k, effect := ← asStr e, value := ← asStr v }
  | [k, e, v, s] => pure { key := ← asStr k, effect := ← asStr e, value := ← asStr v, stamp := ← asStr s }
  | _ => throw "taint: expected [key, effect(, value(, timeAdded))]"

/-- the harness' canonical form: trailing empty fields dropped -/
def taintJson (t : Taint) : Json :=
  if t.stamp != "" then jArr [jStr t.key, jStr t.effect, jStr t.value, jStr t.stamp]
  else if t.value != "" then jArr [jStr t.key, jStr t.effect, jStr t.value]
  else jArr [jStr t.key, jStr t.effect]

def parseReady (s : String) : Except String NodeReady :=
  match s with
  | "T" => pure .true_
  | "F" => pure .false_
  | "U" => pure .unknown
  | "N" => pure .absent
  | "" => pure .absent
  | _ => throw s!"bad node Ready status {s}"

def taintsF (j : Json) (k : String) : Except String (List Taint) := do
  (← arrD j k).mapM parseTaint

def parseErr (s : String) : Except String Err :=
  match s with
  | "conflict" => pure .conflict
  | "notfound" => pure .notFound
  | "err" => pure .other
  | _ => throw s!"bad error class {s}"

def faultO (j : Json) (k : String) : Except String (Option Err) :=
  match fldOpt j k with
  | none => pure none
  | some v => do pure (some (← parseErr (← asStr v)))

/-- the NodePool read: not made for a NodeClaim that names no NodePool; an injected error class; else what the API
    server says — the NodePool is there, or it is not (`pool`, a function of the input alone) -/
def poolGetOf (labelled pool : Bool) (inj : Option Err) : PoolGet :=
  if !labelled then .unlabelled
  else match inj with
    | some e => .err e
    | none => if pool then .ok else .err .notFound

def parseFaults (j : Option Json) (labelled pool : Bool) : Except String Faults :=
  match j with
  | none => pure { poolGet := poolGetOf labelled pool none }
  | some f => do
    pure { poolGet := poolGetOf labelled pool (← faultO f "np.get"), finPatch := ← faultO f "nc.patch.lock", claimDelete := ← faultO f "nc.delete",
           nodeList := (fldOpt f "node.list").isSome, nodePatchLock := ← faultO f "node.patch.lock",
           nodePatch := ← faultO f "node.patch", metaPatch := ← faultO f "nc.patch", statusPatch := ← faultO f "nc.status" }

def parseCreate (s : String) : Except String CreateOutcome :=
  match s with
  | "" => pure .ok
  | "ice" => pure .ice
  | "ncnr" => pure .ncnr
  | "gen" => pure .generic
  | "cerr" => pure .createErr
  | _ => throw s!"bad create outcome {s}"

def parseSpec (j : Json) : Except String (Spec × Bool) := do
  let res ← natF j "res"
  pure ({ startup := ← taintsF j "startup", taints := ← taintsF j "taints", wantsRes := res == 1 }, ← boolF j "fin")

/-- (the NodeClaim names a NodePool, that NodePool exists when the history starts) -/
def parsePool (j : Json) : Except String (Bool × Bool) := do
  let pool ← boolD j "pool" false
  match (← strO j "ps").getD "" with
  | "" => pure (pool, pool)
  | "gone" => pure (true, false)
  | "other" => pure (true, true)
  | s => throw s!"bad NodePool state {s}"

def parseTri (s : String) : Except String Tri :=
  match s with
  | "T" => pure .true_
  | "F" => pure .false_
  | "U" => pure .unknown
  | "" => pure .unknown
  | _ => throw s!"bad condition status {s}"

def parseReason (s : String) : Except String Reason :=
  match s.splitOn "|" with
  | ["StartupTaintsExist", k, e] => pure (.startupTaintsExist { key := k, effect := e })
  | ["KnownEphemeralTaintsExist", k, e] => pure (.ephemeralTaintsExist { key := k, effect := e })
  | ["StartupTaintsExist", k, e, v] => pure (.startupTaintsExist { key := k, effect := e, value := v })
  | ["KnownEphemeralTaintsExist", k, e, v] => pure (.ephemeralTaintsExist { key := k, effect := e, value := v })
  | [r] =>
    match r with
    | "AwaitingReconciliation" => pure .awaiting
    | "" => pure .awaiting
    | "Launched" => pure .launched
    | "LaunchFailed" => pure .launchFailed
    | "CustomReason" => pure .custom
    | "NodeNotFound" => pure .nodeNotFound
    | "MultipleNodesFound" => pure .multipleNodes
    | "Registered" => pure .registered
    | "NodeNotReady" => pure .nodeNotReady
    | "ResourceNotRegistered" => pure .resourceNotRegistered
    | "Initialized" => pure .initialized
    | _ => throw s!"unknown condition reason {r}"
  | _ => throw s!"unknown condition reason {s}"

def parseClaim (j : Json) : Except String Claim := do
  let str (k : String) : Except String String := do pure ((← strO j k).getD "")
  let cond (s r t : String) : Except String Cond := do
    pure { status := ← parseTri (← str s), reason := ← parseReason (← str r), ltt := ((← intO j t).getD 0).toNat }
  pure { present := ← boolD j "exists" false, finalizer := ← boolD j "fin" false, deleting := ← boolD j "del" false,
         conds := { init := ← boolD j "conds" false, l := ← cond "L" "Lr" "Lt", r := ← cond "R" "Rr" "Rt", i := ← cond "I" "Ir" "It" },
         providerID := ← boolD j "pid" false, provLabels := ← boolD j "plabels" false, nodeName := ← boolD j "nodeName" false }

def parseNode (j : Json) : Except String Node := do
  pure { taints := ← taintsF j "taints", finalizer := ← boolD j "fin" false, ownerRef := ← boolD j "owner" false,
         userLabels := ← boolD j "ulabels" false, provLabels := ← boolD j "plabels" false, regLabel := ← boolD j "reg" false,
         initLabel := ← boolD j "init" false, doNotSync := ← boolD j "dns" false,
         readyCond := ← parseReady ((← strO j "ready").getD ""),
         resOK := ← boolD j "res" false }

def parseCall (s : String) : Except String Call := do
  match s.splitOn ":" with
  | [site, out] =>
    let st ← match site with
      | "nc.patch.lock" => pure Site.finPatch
      | "create" => pure Site.create
      | "nc.delete" => pure Site.claimDelete
      | "node.patch.lock" => pure Site.nodePatchLock
      | "node.patch" => pure Site.nodePatch
      | "nc.patch" => pure Site.metaPatch
      | "nc.status" => pure Site.statusPatch
      | "np.get" => pure Site.poolGet
      | _ => throw s!"unknown call site {site}"
    let o ← match out with
      | "ok" => pure Outcome.ok
      | "conflict" => pure Outcome.conflict
      | "notfound" => pure Outcome.notFound
      | "err" => pure Outcome.other
      | "ice" => pure Outcome.ice
      | "ncnr" => pure Outcome.ncnr
      | "gen" => pure Outcome.generic
      | "cerr" => pure Outcome.createErr
      | _ => throw s!"unknown call outcome {out}"
    pure ⟨st, o⟩
  | _ => throw s!"bad call {s}"

def parseResult (s : String) : Except String Result :=
  match s.splitOn ":" with
  | ["ok"] => pure .ok
  | [""] => pure .ok
  | ["requeue"] => pure .requeue
  | ["err"] => pure .err
  -- controller-runtime recovers a panicking Reconcile and retries it with backoff: as good as an error (`ImplStep.panicked`)
  | ["panic"] => pure .err
  | ["after", n] => match n.toNat? with
    | some k => pure (.after k)
    | none => throw s!"bad result {s}"
  | _ => throw s!"bad result {s}"

/-- one recorded step of the implementation -/
structure ImplStep where
  obs : StepObs
  /-- the cluster's other Nodes (no provider id, or another instance's) -/
  strays : List Node
  finalizePath : Bool   -- the calls are those of the deletion path (not modelled call by call)
  instances : Nat
  now : Nat
  rawCalls : List String
  /-- `Reconcile` panicked -/
  panicked : Bool := false
  /-- finalizers other than Karpenter's on the API server's copy after the step, in list order -/
  foreign : List String := []
  /-- byte length of the `Launched` condition's message when its reason is `LaunchFailed` (0: another reason) -/
  launchMsgBytes : Nat := 0

/-- the deletion path (`finalize`) has call sites of its own; they are not part of the model's call alphabet -/
def parseCallsLenient (cs : List String) : List Call :=
  cs.filterMap (fun s => match parseCall s with | .ok c => some c | .error _ => none)

def parseImplStep (j : Json) : Except String ImplStep := do
  let isRec ← boolD j "rec" false
  let view ← match fldOpt j "view" with | some v => parseClaim v | none => pure { present := false }
  let claim ← match fldOpt j "claim" with | some v => parseClaim v | none => pure { present := false }
  let nodes ← (← arrD j "nodes").mapM parseNode
  let strays ← (← arrD j "strays").mapM parseNode
  let rawCalls ← (← arrD j "calls").mapM asStr
  let finPath := isRec && view.present && view.deleting
  let calls ← if finPath then pure (parseCallsLenient rawCalls) else rawCalls.mapM parseCall
  let creates ← (← arrD j "creates").mapM (fun c => do
    pure ({ ok := ← boolD c "ok" false, fin := ← boolD c "fin" false, present := ← boolD c "exists" false } : CreateObs))
  pure { obs := { isRec := isRec, fresh := false, view := view, calls := calls, result := ← parseResult ((← strO j "result").getD ""),
                  claim := claim, nodes := nodes, creates := creates, now := (← natO j "now").getD 0 },
         strays := strays, finalizePath := finPath, instances := (← natO j "instances").getD 0, now := (← natO j "now").getD 0, rawCalls := rawCalls,
         panicked := ((← strO j "result").getD "") == "panic",
         foreign := ← match fldOpt j "claim" with
           | some v => do (← arrD v "ff").mapM asStr
           | none => pure [],
         launchMsgBytes := ← match fldOpt j "claim" with
           | some v => do pure ((← natO v "Lm").getD 0)
           | none => pure 0 }

/-- input step -> model step; `impl` resolves what the (unmodelled) deletion path did -/
def parseStep (j : Json) (impl : ImplStep) (w : World) (labelled pool : Bool) : Except String Step := do
  match ← strF j "k" with
  | "rec" =>
    let lag := (← natO j "lag").getD 0
    let co ← parseCreate ((← strO j "create").getD "")
    let f ← parseFaults (fldOpt j "f") labelled pool
    let view := pickView w lag
    let fin : FinalizeOut :=
      if view.present && view.deleting then
        { removeFinalizer := w.claim.present && !impl.obs.claim.present, nodes := some impl.obs.nodes }
      else {}
    pure (.reconcile lag co f fin)
  | "node" =>
    -- `rs` (T | F | U | N = no Ready condition at all) overrides the legacy Boolean `ready`
    let rc ← match ← strO j "rs" with
      | some r => parseReady r
      | none => pure (if ← boolD j "ready" false then NodeReady.true_ else NodeReady.false_)
    -- `dl`: the do-not-sync-taints label with an explicit value; only the exact value "true" opts out
    let dns ← match ← strO j "dl" with
      | some v => pure (v == "true")
      | none => boolD j "dns" false
    pure (.env (.nodeAppear { taints := ← taintsF j "taints", readyCond := rc, resOK := ← boolD j "res" false,
                              doNotSync := dns, regLabel := ← boolD j "reg" false }))
  -- a Node that is not this NodeClaim's: nothing the model looks at changes (the step still ages the cached copies)
  | "stray" => pure (.env (.advance 0))
  -- the NodePool is deleted: not part of the modelled world (it decides what later NodePool reads answer)
  | "pooldel" => pure (.env (.advance 0))
  | "gone" => pure (.env .nodesGone)
  | "ready" => pure (.env (.setReady .true_))
  | "unready" => pure (.env (.setReady .false_))
  | "unkready" => pure (.env (.setReady .unknown))
  | "noready" => pure (.env (.setReady .absent))
  | "res" => pure (.env (.setRes true))
  | "unres" => pure (.env (.setRes false))
  | "addt" => pure (.env (.addTaint (← parseTaint (← fld j "t"))))
  | "rmt" => pure (.env (.rmTaint (← parseTaint (← fld j "t"))))
  | "adv" => pure (.env (.advance (← natF j "secs")))
  | "del" => pure (.env .userDelete)
  | k => throw s!"bad step kind {k}"

/-! ## Comparison of the model with the implementation -/

def diffClaim (m i : Claim) : Option String :=
  if m.present != i.present then some s!"claim.exists model={m.present} impl={i.present}"
  else if !m.present then none
  else if m = i then none
  else some s!"claim model={repr m} impl={repr i}"

def diffNodes (m i : List Node) : Option String :=
  if m = i then none else some s!"nodes model={repr m} impl={repr i}"

/-- first difference between what the model predicts for the step and what the implementation did -/
def diffStep (idx : Nat) (w' : World) (o : Obs) (impl : ImplStep) : Option String :=
  let pre := s!"step {idx}: "
  if o.isRec && o.view != impl.obs.view && (o.view.present || impl.obs.view.present) then
    some (pre ++ s!"view model={repr o.view} impl={repr impl.obs.view}")
  else if !o.finalizing && o.calls != impl.obs.calls then
    some (pre ++ s!"calls model={repr o.calls} impl={impl.rawCalls}")
  else if !o.finalizing && o.isRec && o.result != impl.obs.result then
    some (pre ++ s!"result model={repr o.result} impl={repr impl.obs.result}")
  else if o.finalizing && impl.obs.calls.any (fun c => c.site == .create) then
    some (pre ++ "the deletion path called provider Create")
  else match diffClaim w'.claim impl.obs.claim with
    | some d => some (pre ++ d)
    | none => match diffNodes w'.nodes impl.obs.nodes with
      | some d => some (pre ++ d)
      | none =>
        if w'.instances != impl.instances then some (pre ++ s!"instances model={w'.instances} impl={impl.instances}")
        else if w'.now != impl.now then some (pre ++ s!"clock model={w'.now} impl={impl.now}")
        else none

/-- what the input says about the things the model does not carry: the finalizers of other controllers the NodeClaim
    was created with, and the byte length of the provider's generic error text -/
structure Extras where
  foreign : List String := []
  genericTextBytes : Nat := 20

def parseExtras (c : Json) : Except String Extras := do
  let ff ← (← arrD c "ff").mapM asStr
  let n ← match fldOpt c "em" with
    | some m => do pure ((← natF m "pre") + (← natF m "w") * (← natF m "n"))
    | none => pure 20   -- "provider unavailable"
  pure { foreign := ff, genericTextBytes := n }

/-- the parts of the implementation's step the model has no field for:
    * a reconcile never panics (controller-runtime would retry it forever: the pass is aborted before the delete /
      liveness, nothing moves forward);
    * the finalizers of other controllers are none of the lifecycle controller's business: a live NodeClaim keeps
      exactly the ones it was created with, in order (their owners release them once it is terminating);
    * the `LaunchFailed` message is `truncateMessage` of the provider's text -/
def diffExtras (idx : Nat) (x : Extras) (impl : ImplStep) : Option String :=
  let pre := s!"step {idx}: "
  let c := impl.obs.claim
  if impl.panicked then some (pre ++ s!"Reconcile panicked after the calls {impl.rawCalls}")
  else if c.present && !c.deleting && impl.foreign != x.foreign then
    some (pre ++ s!"finalizers of other controllers on the NodeClaim: expected={x.foreign} impl={impl.foreign}")
  else if c.present && c.deleting && impl.foreign != [] then
    some (pre ++ s!"harness: finalizers of other controllers not released on a terminating NodeClaim: {impl.foreign}")
  else if c.present && c.conds.l.reason == .launchFailed && impl.launchMsgBytes != truncatedLen x.genericTextBytes then
    some (pre ++ s!"LaunchFailed message: {impl.launchMsgBytes} bytes, truncateMessage of a text of {x.genericTextBytes} bytes has {truncatedLen x.genericTextBytes}")
  else none

/-- a "stray" input step as the Node it creates: no label, owner or finalizer of Karpenter's -/
def parseStray (j : Json) : Except String (Option Node) := do
  if (← strF j "k") != "stray" then return none
  let rc ← match ← strO j "rs" with
    | some r => parseReady r
    | none => pure (if ← boolD j "ready" false then NodeReady.true_ else NodeReady.false_)
  pure (some { taints := ← taintsF j "taints", readyCond := rc, resOK := ← boolD j "res" false })

/-- run the model along the recorded history; returns the first difference and the spec observations
    (with `fresh` filled in from the model's view bookkeeping, which only depends on the input).
    `strays`: the Nodes of the cluster that are not this NodeClaim's, as the input created them — the lifecycle
    controller must leave them exactly so. -/
def replay (sp : Spec) (labelled : Bool) (x : Extras) : Bool → World → Claim → List Node → List Json → List ImplStep → Nat → Option String → List StepObs →
    Except String (Option String × List StepObs)
  | _, _, _, _, [], _, _, d, acc => pure (d, acc.reverse)
  | _, _, _, _, _ :: _, [], _, _, _ => throw "implementation recorded fewer steps than the input has"
  | pool, w, prev, strays, j :: js, impl :: impls, idx, d, acc => do
    let s ← parseStep j impl w labelled pool
    let pool' := pool && (← strF j "k") != "pooldel"
    let (w', o) := step sp w s
    let strays' := match ← parseStray j with
      | some n => strays ++ [n]
      | none => strays
    -- `fresh`: the copy the implementation was handed equals the API server's copy before the step
    let so := { impl.obs with fresh := impl.obs.isRec && decide (impl.obs.view = prev) }
    let d' := match d with
      | some x => some x
      | none => match (if impl.panicked then none else diffStep idx w' o impl) with
        | some x => some x
        | none =>
          if impl.strays != strays' then
            some s!"step {idx}: a Node that does not carry the instance's provider id was touched: expected={repr strays'} impl={repr impl.strays}"
          else diffExtras idx x impl
    replay sp labelled x pool' w' impl.obs.claim strays' js impls (idx + 1) d' (so :: acc)

def lifecycle (inp impl : Json) : Except String Resp := do
  let (sp, fin) ← parseSpec (← fld inp "claim")
  let steps ← arrF inp "steps"
  match fldOpt impl "steps" with
  | none => pure { allowed := some false, spec := some false, why := "implementation produced no step list (panic or harness error)" }
  | some st =>
    -- an output the vocabulary cannot express (e.g. a call site the modelled paths never use) is a disagreement
    match (do (← asArr st).mapM parseImplStep : Except String (List ImplStep)) with
    | .error e => pure { allowed := some false, why := s!"implementation output outside the model's vocabulary: {e}" }
    | .ok impls =>
    let w0 := World.init fin
    let (labelled, pool) ← parsePool (← fld inp "claim")
    let x ← parseExtras (← fld inp "claim")
    let (d, obs) ← replay sp labelled x pool w0 w0.claim [] steps impls 0 none []
    let acc0 : Acc := { prev := w0.claim, finEver := fin }
    let viol := match Karp.Spec.LifecycleOrder.firstViolation sp acc0 obs 0 with
      | some v => some v
      | none => Karp.Spec.LifecycleOrder.firstTimeoutViolation 0 0 obs 0
    let why := match viol, d with
      | some v, _ => v
      | none, some x => x
      | none, none => ""
    pure { allowed := some d.isNone, spec := some viol.isNone, why := why }

/-! ## Leaf op: the three exported initialization predicates -/

def pairList (j : Json) (k : String) : Except String (List (Nat × Nat)) := do
  (← arrD j k).mapM (fun p => do
    match ← natList p with
    | [a, b] => pure (a, b)
    | _ => throw "expected [index, quantity]")

def initChecks (inp impl : Json) : Except String Resp := do
  let startup ← taintsF inp "startup"
  let nodeTaints ← taintsF inp "node"
  let reqs ← pairList inp "reqs"     -- requested extended resources (index, quantity)
  let alloc ← pairList inp "alloc"   -- node allocatable (index, quantity)
  let sp : Spec := { startup := startup }
  let n : Node := { taints := nodeTaints, readyCond := .true_ }
  let tj (t : Option Taint) : Json := match t with
    | none => Json.null
    | some t => taintJson t
  -- `RequestedResourcesRegistered`: every non-zero request has non-zero allocatable
  let registered := reqs.all (fun (r, q) => q == 0 || alloc.any (fun (a, v) => a == r && v != 0))
  let model := jObj [("startup", tj (firstStartupTaint sp n)), ("ephemeral", tj (firstEphemeralTaint n)), ("resources", jBool registered)]
  -- the property's reading, evaluated on what the real functions answered
  let implStartupOK := (fldOpt impl "startup").isNone
  let implEphOK := (fldOpt impl "ephemeral").isNone
  let implRes ← boolF impl "resources"
  let specStartup := startup.all (fun s => !Karp.Spec.LifecycleOrder.carries nodeTaints s)
  let specEph := nodeTaints.all (fun t => !Karp.Spec.LifecycleOrder.isEphemeral t)
  let specRes := reqs.all (fun (r, q) => q == 0 || (alloc.filter (fun (a, _) => a == r)).any (fun (_, v) => v > 0))
  let ok := implStartupOK == specStartup && implEphOK == specEph && implRes == specRes
  let why := if ok then "" else
    s!"startup taints gone: spec {specStartup} impl {implStartupOK}; ephemeral taints gone: spec {specEph} impl {implEphOK}; resources reported: spec {specRes} impl {implRes}"
  pure { model := some model, spec := some ok, why := why }

def handle : Handler := fun op inp impl =>
  match op with
  | "c14.lifecycle" => lifecycle inp impl
  | "c14.faults" => lifecycle inp impl
  | "c14.gates" => lifecycle inp impl
  | "c14.timeouts" => lifecycle inp impl
  | "c14.init" => initChecks inp impl
  | _ => .error s!"unknown op {op}"

end Karp.Driver.C14
