import Karp.Driver.Proto
import Karp.Model.PoolState
import Karp.Spec.PoolLedger
import Karp.Model.Limits
import Karp.Spec.LimitsSpec
import Karp.Gen.C03Limits
import Karp.Model.StaticPool
import Karp.Spec.StaticSpec

namespace Karp.Driver.C03
open Lean Karp.Driver

/-! ## `state.NodePoolState` op sequences -/
section PoolState
open Karp.PoolState Karp.Spec.PoolLedger

def natD (j : Json) (k : String) : Except String Nat := do pure ((← natO j k).getD 0)
def intD (j : Json) (k : String) : Except String Int := do pure ((← intO j k).getD 0)

/-- `{"o": "upd"|"act"|"del"|"pen"|"clean"|"count"|"res"|"rel"|"map"|"reset", "np", "nc", "a", "b"}` -/
def parseOp (j : Json) : Except String Op := do
  let o ← strF j "o"
  let np ← natD j "np"
  let nc ← natD j "nc"
  let a ← intD j "a"
  let b ← intD j "b"
  match o with
  | "upd" => pure (.update np nc (a != 0))
  | "act" => pure (.markActive np nc)
  | "del" => pure (.markDeleting np nc)
  | "pen" => pure (.markPending np nc)
  | "clean" => pure (.cleanup nc)
  | "count" => pure (.count np)
  | "res" => pure (.reserve np a b)
  | "rel" => pure (.release np a)
  | "map" => pure (.setMapping np nc)
  | "reset" => pure .reset
  | _ => .error s!"bad op {o}"

def outToJson : Out → Json
  | .unit => jObj [("k", jStr "u")]
  | .counts a d p => jObj [("k", jStr "c"), ("a", jNat a), ("d", jNat d), ("p", jNat p)]
  | .grant g => jObj [("k", jStr "g"), ("g", jInt g)]
  | .panic => jObj [("k", jStr "panic")]

def parseOut (j : Json) : Except String Out := do
  match (← strF j "k") with
  | "u" => pure .unit
  | "c" => pure (.counts (← natF j "a") (← natF j "d") (← natF j "p"))
  | "g" => pure (.grant (← intF j "g"))
  | "panic" => pure .panic
  | k => .error s!"bad out {k}"

def verdictStr : Verdict → String
  | .ok => "ok" | .panicked => "panic" | .countWrong => "count" | .overGrant => "overgrant"
  | .underGrant => "undergrant" | .shape => "shape"

/-- model ≡ implementation on arbitrary (also ill-formed) op sequences -/
def poolstate (inp _impl : Json) : Except String Resp := do
  let ops ← (← arrF inp "ops").mapM parseOp
  let outs := observations .asIs State.init ops
  pure { model := some (jObj [("out", jArr (outs.map outToJson))]) }

/-- walk the ledger along the implementation's outputs: the first event that is not a protocol event
    (generator error) or the first unacceptable observation -/
def walk (L : Ledger) (i : Nat) : List Op → List Out → Except String (Option (Nat × Verdict))
  | [], [] => pure none
  | op :: ops, out :: outs =>
    if !wf L op then .error s!"event {i} is not a protocol event for the ledger (generator error)"
    else if judge L op out != .ok then pure (some (i, judge L op out))
    else walk (advance L op out) (i + 1) ops outs
  | _, _ => .error "ops/outputs length mismatch"

/-- the ledger specification evaluated on what the real `NodePoolState` answered -/
def poolspec (inp impl : Json) : Except String Resp := do
  let ops ← (← arrF inp "ops").mapM parseOp
  let model := observations .asIs State.init ops
  let mj := jObj [("out", jArr (model.map outToJson))]
  match fldOpt impl "out" with
  | none => pure { model := some mj, spec := some false, why := "implementation produced no output list" }
  | some o =>
    let outs ← listOf parseOut o
    match ← walk Ledger.init 0 ops outs with
    | none => pure { model := some mj, spec := some true }
    | some (i, v) =>
      pure { model := some mj, spec := some false,
             why := s!"event {i}: {verdictStr v} (ledger: the pool's NodeClaims / outstanding grants do not allow this answer)" }

end PoolState

/-! ## NodePool limits over multi-round histories of the real provisioner -/
section LimitsPass
open Karp.Limits

/-- the `nodes` resource name, from the source -/
def nodesName : String := Karp.Gen.C03Limits.nodeResourceName

/-- a JSON object `{name: milli}` as a resource list (sorted by name); `null` = empty -/
def parseRes (j : Json) : Except String (Res String) :=
  match j with
  | .null => pure []
  | .obj kvs => kvs.toList.mapM (fun (k, v) => do pure (k, ← asInt v))
  | _ => .error "resource list expected"

def resEqual (a b : Res String) : Bool :=
  (a.all fun (k, q) => b.get k == q) && (b.all fun (k, q) => a.get k == q)

def addRes (a b : Res String) : Res String :=
  let keys := (a.map (·.1) ++ b.map (·.1)).eraseDups
  keys.map fun k => (k, a.get k + b.get k)

structure PoolRec where
  existing : List Nat
  unlaunched : List (List Nat)
  new : List (List Nat)
  after : List Nat

def parsePoolRec (j : Json) : Except String PoolRec := do
  pure { existing := ← natList (← fld j "existing"),
         unlaunched := ← listOf natList (← fld j "unlaunched"),
         new := ← listOf natList (← fld j "new"),
         after := ← natList (← fld j "after") }

/-- exact mode (tiny anti-affine pods): the options of every opened NodeClaim are exactly what the guard lets through,
    and the remaining resources evolve by `subtractMax` -/
def passExact (poolITs : List (IT String)) (remaining : Res String) : List (List Nat) → Bool
  | [] => true
  | opts :: rest =>
    match openOptions nodesName poolITs remaining with
    | none => false
    | some f =>
      let want := (f.map (·.name)).toArray.qsort (· < ·) |>.toList
      let got := opts.toArray.qsort (· < ·) |>.toList
      want == got && passExact poolITs (subtractMax .asIs nodesName remaining f) rest

def limitspass (inp impl : Json) : Except String Resp := do
  let catalog ← (← arrF inp "catalog").mapM (fun j => do parseRes (← fld j "cap"))
  let pools ← (← arrF inp "pools").mapM (fun j => do parseRes ((fldOpt j "limits").getD Json.null))
  let poolITs ← (← arrF inp "pools").mapM (fun j => do natList (← fld j "its"))
  let hasLimits ← (← arrF inp "pools").mapM (fun j => pure (fldOpt j "limits").isSome)
  let exact ← boolD inp "exact" false
  let capOf (i : Nat) : Res String := catalog.getD i []
  let itOf (i : Nat) : IT String := { name := i, cap := capOf i }
  let rounds ← match fldOpt impl "rounds" with
    | some r => asArr r
    | none => .error "implementation produced no rounds (harness error or panic)"
  let mut spec := true
  let mut allowed := true
  let mut why := ""
  let mut whyS := ""
  let mut ri := 0
  for r in rounds do
    let synced ← boolF r "synced"
    let ran ← boolF r "ran"
    let recs ← (← arrF r "pools").mapM parsePoolRec
    let usage ← (← arrF r "usage").mapM parseRes
    -- model of the gate: Synced() is false exactly while some NodeClaim is unlaunched; the pass runs iff synced
    let anyUnlaunched := recs.any (fun p => !p.unlaunched.isEmpty)
    if allowed && synced == anyUnlaunched then
      allowed := false; why := s!"round {ri}: Synced() = {synced} although unlaunched NodeClaims exist = {anyUnlaunched}"
    if allowed && ran != synced then
      allowed := false; why := s!"round {ri}: pass ran = {ran} with synced = {synced}"
    let mut pi := 0
    for p in recs do
      let limits := pools.getD pi []
      let existingCaps := p.existing.map capOf
      -- the property, on what the real code did
      if spec && !Karp.Spec.Limits.roundOk nodesName limits existingCaps
            (p.unlaunched.map (·.map capOf)) (p.new.map (·.map capOf)) then
        spec := false
        let bad := Karp.Spec.Limits.exceeded nodesName limits existingCaps ((p.unlaunched ++ p.new).map (·.map capOf))
        whyS := s!"round {ri}, pool {pi}: after the pass the pool can exceed its limit on {bad} " ++
               s!"(existing nodes + largest permitted launch of every unlaunched NodeClaim)"
      -- the model's transition system admits the pass
      if allowed && ran then
        let remaining := remainingAtStart limits (existingCaps.map (nodeCapacity nodesName))
        if !passOk .asIs nodesName remaining (p.new.map (·.map itOf)) then
          allowed := false
          why := s!"round {ri}, pool {pi}: the NodeClaims opened are not admitted by the model (guard / filterByRemainingResources / subtractMax)"
        else if exact && hasLimits.getD pi false && !passExact ((poolITs.getD pi []).map itOf) remaining p.new then
          allowed := false
          why := s!"round {ri}, pool {pi}: exact mode: the options of the opened NodeClaims are not exactly filterByRemainingResources(pool types, remaining) with remaining evolving by subtractMax"
      if allowed && !ran && !p.new.isEmpty then
        allowed := false; why := s!"round {ri}: NodeClaims created although the pass did not run"
      -- Cluster.nodePoolResources = sum of StateNode.Capacity() over the nodes not being deleted
      let expect := (p.after.map (fun i => nodeCapacity nodesName (capOf i))).foldl addRes []
      let got := (usage.getD pi []).filter (fun (_, q) => q != 0)
      if allowed && !resEqual (expect.filter (fun (_, q) => q != 0)) got then
        allowed := false
        why := s!"round {ri}, pool {pi}: NodePoolResourcesFor differs from the sum of the capacities of the nodes that are not being deleted"
      pi := pi + 1
    ri := ri + 1
  pure { allowed := some allowed, spec := some spec, why := if !spec then whyS else why }

/-- `Provisioner.Create` in front of the limits -/
def createOp (inp impl : Json) : Except String Resp := do
  let catalog ← (← arrF inp "catalog").mapM (fun j => do parseRes (← fld j "cap"))
  let limits ← parseRes ((fldOpt inp "limits").getD Json.null)
  let existing ← natList (← fld inp "existing")
  let marked ← natList (← fld inp "marked")
  let capOf (i : Nat) : Res String := catalog.getD i []
  let counted := (existing.zipIdx.filter (fun (_, i) => !marked.contains i)).map (·.1)
  -- model: Cluster.nodePoolResources, then Limits.ExceededBy
  let usage := ((counted.map (fun i => nodeCapacity nodesName (capOf i))).foldl addRes []).filter (fun (_, q) => q != 0)
  let refused := exceededBy limits usage
  let model := jObj [("created", jBool (!refused)), ("err", jStr (if refused then "limit" else "")),
                     ("inApi", jNat (if refused then 0 else 1)),
                     ("usage", Json.mkObj (usage.map fun (k, q) => (k, jInt q)))]
  -- specification: a NodeClaim is created exactly when no limited resource is already used above its limit,
  -- the usage being the capacity (and one node each) of the nodes that are not being deleted
  let over := Karp.Spec.Limits.exceeded nodesName limits (counted.map capOf) []
  let created ← boolF impl "created"
  let inApi ← natF impl "inApi"
  let specOk := (created == over.isEmpty) && (inApi == (if created then 1 else 0))
  pure { model := some model, spec := some specOk,
         why := if specOk then "" else s!"created = {created} (NodeClaims added to the API: {inApi}) although the pool's usage exceeds its limit on {over}" }

end LimitsPass

/-! ## whole reconciles of the static-pool controllers -/
section Static
open Karp.PoolState Karp.StaticPool

def parseStep (j : Json) : Except String Karp.Spec.Static.Step := do
  let n ← intD j "n"
  match (← strF j "s") with
  | "prov" => pure .prov
  | "deprov" => pure .deprov
  | "launch" => pure .launch
  | "reap" => pure .reap
  | "sync" => pure .sync
  | "scale" => pure (.scale n)
  | "limit" => pure (.limit (some n))
  | "nolimit" => pure (.limit none)
  | "reserve" => pure (.reserve n)
  | "release" => pure (.release n)
  | "pend" => pure (.pend n.toNat)
  | "restart" => pure .restart
  | s => .error s!"bad step {s}"

def parseObs (j : Json) : Except String (Karp.Spec.Static.Obs × List Nat) := do
  pure ({ total := ← natF j "total", deleting := ← natF j "deleting", a := ← natF j "a", d := ← natF j "d",
          p := ← natF j "p", err := ← strF j "err", grant := ← intF j "grant", faults := ← boolF j "faults",
          gateOpen := ← boolF j "gateOpen" }, ← natList (← fld j "deleted"))

/-- one step of the model, given the implementation's choice of deprovisioning candidates;
    returns the new world, the error class and the grant the model expects -/
def modelStep (w : World) (s : Karp.Spec.Static.Step) (deleted : List Nat) : Except String (World × String × Int) :=
  match s with
  | .prov => let r := provision w; pure (r.1, r.2, 0)
  | .deprov =>
    match deprovision w deleted with
    | some w' => pure (w', "", 0)
    | none => .error "the NodeClaims deleted by the deprovisioning reconcile are not an allowed choice (count / unlaunched first / not known as deleting)"
  | .launch => pure (launchAll w, "", 0)
  | .reap => pure (reap w, "", 0)
  | .sync => pure (sync w, "", 0)
  | .scale n => pure ({ w with replicas := n }, "", 0)
  | .limit l => pure ({ w with limit := l }, "", 0)
  | .reserve k => let r := reserve w.st np (nodeLimit w.limit) k; pure ({ w with st := r.1 }, "", r.2)
  | .release k =>
    match release .asIs w.st np k with
    | some st => pure ({ w with st := st }, "", 0)
    | none => pure ({ w with lossy := true }, "panic", 0)
  | .pend i => pure (pend w i, "", 0)
  | .restart => pure (restart w, "", 0)

def staticOp (inp impl : Json) : Except String Resp := do
  let replicas ← intF inp "replicas"
  let limit ← intO inp "limit"
  let fail ← natList ((fldOpt inp "fail").getD (Json.arr #[]))
  let steps ← (← arrF inp "steps").mapM parseStep
  let obs ← match fldOpt impl "obs" with
    | some o => (← asArr o).mapM parseObs
    | none => .error "implementation produced no observations (harness error)"
  let reservedImpl ← intF impl "reserved"
  if obs.length != steps.length then throw "steps/observations length mismatch"
  let mut w := World.init replicas limit fail
  let mut t : Karp.Spec.Static.Tracker := { replicas := replicas, limit := limit }
  let mut allowed := true
  let mut whyA := ""
  let mut spec := true
  let mut whyS := ""
  let mut i := 0
  for (s, (o, deleted)) in steps.zip obs do
    if allowed then
      match modelStep w s deleted with
      | .error e => allowed := false; whyA := s!"step {i}: {e}"
      | .ok (w', err, grant) =>
        w := w'
        let c := counts w.st np
        let exp := (live w + deleting w, deleting w, c.1, c.2.1, c.2.2, err, grant)
        let got := (o.total, o.deleting, o.a, o.d, o.p, o.err, o.grant)
        if exp != got then
          allowed := false
          whyA := s!"step {i}: model expects (total, deleting, active, deleting, pending, err, grant) = {repr exp}, implementation {repr got}"
    -- the property is judged on the prefix in which the code as it is did not lose bookkeeping (see poolgc)
    if spec && !w.lossy then
      match Karp.Spec.Static.check t s o with
      | some why => spec := false; whyS := s!"step {i}: {why}"
      | none => pure ()
    t := Karp.Spec.Static.advance t s o
    i := i + 1
  if allowed && reservedOf w.st np != reservedImpl then
    allowed := false; whyA := s!"end: model expects reserved = {reservedOf w.st np}, implementation {reservedImpl}"
  if spec && !w.lossy && reservedImpl != t.outstanding then
    spec := false
    whyS := s!"end: reserved counter is {reservedImpl} but other reconciles hold {t.outstanding} slots (a reconcile leaked or lost slots)"
  pure { allowed := some allowed, spec := some spec,
         why := if !spec then whyS else whyA,
         extra := if !spec && !allowed then some (jObj [("model", jStr whyA)]) else none }

/-- histories of static reconciles interleaved with pod-driven provisioning passes -/
def staticPodsOp (inp impl : Json) : Except String Resp := do
  let replicas ← intF inp "replicas"
  let limit ← intO inp "limit"
  let dyn ← boolF inp "dyn"
  let stepsJ ← arrF inp "steps"
  let obsJ ← match fldOpt impl "obs" with
    | some o => asArr o
    | none => .error "implementation produced no observations (harness error)"
  let reservedImpl ← intF impl "reserved"
  if obsJ.length != stepsJ.length then throw "steps/observations length mismatch"
  let mut w := World.init replicas limit []
  let mut t : Karp.Spec.Static.Tracker := { replicas := replicas, limit := limit }
  let mut dynTotal := 0
  let mut dynPending := 0
  let mut allowed := true
  let mut whyA := ""
  let mut spec := true
  let mut whyS := ""
  let mut i := 0
  for (sj, oj) in stepsJ.zip obsJ do
    let (o, deleted) ← parseObs oj
    let ran ← boolF oj "ran"
    let dT ← natF oj "dynTotal"
    let dP ← natF oj "dynPending"
    let others ← natF oj "otherClaims"
    let kind ← strF sj "s"
    if kind == "pods" then
      let pods ← natList ((fldOpt sj "pods").getD (Json.arr #[]))
      let eligible := (pods.filter (· == 0)).length
      if allowed then
        let expRan := podPassRuns w dynPending
        let nothingYet := live w + deleting w == 0 && dynTotal == 0
        w := podPass w (ran && expRan)
        let c := counts w.st np
        let exp := (live w + deleting w, deleting w, c.1, c.2.1, c.2.2, "")
        let got := (o.total, o.deleting, o.a, o.d, o.p, o.err)
        if ran != expRan then
          allowed := false; whyA := s!"step {i}: model expects the pass to run = {expRan} (Cluster.Synced), implementation {ran}"
        else if exp != got then
          allowed := false
          whyA := s!"step {i}: a pod-driven pass leaves the static pool alone: model expects (total, deleting, active, deleting, pending, err) = {repr exp}, implementation {repr got}"
        else if others != 0 then
          allowed := false; whyA := s!"step {i}: NodeClaims of no known NodePool"
        else if dT < dynTotal || dP != dynPending + (dT - dynTotal) then
          allowed := false; whyA := s!"step {i}: dynamic pool: NodeClaims {dynTotal} -> {dT}, unlaunched {dynPending} -> {dP}"
        else if (!ran || !dyn) && dT != dynTotal then
          allowed := false; whyA := s!"step {i}: NodeClaims were created for the dynamic pool although {if dyn then "the pass did not run" else "it does not exist"}"
        else if dT - dynTotal > eligible then
          allowed := false; whyA := s!"step {i}: {dT - dynTotal} NodeClaims for {eligible} pods that can run in the dynamic pool"
        else if ran && dyn && eligible > 0 && nothingYet && dT == dynTotal then
          allowed := false; whyA := s!"step {i}: empty cluster, {eligible} pods that can run in the dynamic pool, no NodeClaim"
      if spec then
        match Karp.Spec.Static.checkPodPass t.prev o others with
        | some why => spec := false; whyS := s!"step {i}: {why}"
        | none => pure ()
      t := { t with prev := o }
    else
      let s ← parseStep sj
      if allowed then
        match modelStep w s deleted with
        | .error e => allowed := false; whyA := s!"step {i}: {e}"
        | .ok (w', err, grant) =>
          w := w'
          let c := counts w.st np
          let exp := (live w + deleting w, deleting w, c.1, c.2.1, c.2.2, err, grant)
          let got := (o.total, o.deleting, o.a, o.d, o.p, o.err, o.grant)
          let expPending := if kind == "launch" then 0 else dynPending
          if exp != got then
            allowed := false
            whyA := s!"step {i}: model expects (total, deleting, active, deleting, pending, err, grant) = {repr exp}, implementation {repr got}"
          else if dT != dynTotal || dP != expPending || others != 0 then
            allowed := false
            whyA := s!"step {i}: a step of the static pool changed the NodeClaims of other pools ({dynTotal} -> {dT}, unlaunched {dynPending} -> {dP}, of no pool {others})"
      if spec && !w.lossy then
        match Karp.Spec.Static.check t s o with
        | some why => spec := false; whyS := s!"step {i}: {why}"
        | none => pure ()
      t := Karp.Spec.Static.advance t s o
    dynTotal := dT
    dynPending := dP
    i := i + 1
  if allowed && reservedOf w.st np != reservedImpl then
    allowed := false; whyA := s!"end: model expects reserved = {reservedOf w.st np}, implementation {reservedImpl}"
  if spec && !w.lossy && reservedImpl != 0 then
    spec := false
    whyS := s!"end: reserved counter is {reservedImpl} although no reconcile is running (slots leaked or lost)"
  pure { allowed := some allowed, spec := some spec,
         why := if !spec then whyS else whyA,
         extra := if !spec && !allowed then some (jObj [("model", jStr whyA)]) else none }

/-- routing of NodePool / NodeClaim events to the static controllers -/
def staticRouteOp (inp impl : Json) : Except String Resp := do
  let replicas ← intO inp "replicas"
  let claim ← strF inp "claim"
  let r := route replicas (claim != "nolabel") (claim == "pool")
  let model := jObj [("isStatic", jBool r.1), ("create", jBool r.2.1), ("update", jBool r.2.2.1), ("delete", jBool r.2.2.2.1),
    ("generic", jBool r.2.2.2.2.1), ("claimStatic", jNat r.2.2.2.2.2.1), ("claimPlain", jNat r.2.2.2.2.2.2)]
  let o : Karp.Spec.Static.RouteObs := {
    isStatic := ← boolF impl "isStatic", create := ← boolF impl "create", update := ← boolF impl "update",
    delete := ← boolF impl "delete", generic := ← boolF impl "generic", claimStatic := ← natF impl "claimStatic" }
  let v := Karp.Spec.Static.checkRoute replicas (claim == "pool") o
  pure { model := some model, spec := some v.isNone, why := v.getD "" }

/-- one static-drift round -/
def driftOp (inp impl : Json) : Except String Resp := do
  let replicasSpec ← natF inp "replicas"
  let extra ← natD inp "extra"
  let replicas := replicasSpec + extra     -- number of nodes the harness builds
  let limit ← intO inp "limit"
  let budget ← natF inp "budget"
  let drifted ← natF inp "drifted"
  let held ← intF inp "held"
  let lost ← natList (← fld inp "lost")
  let createFail ← natList (← fld inp "createFail")
  -- the pool as the harness builds it: `replicas` launched claims (ids 2..), the first `drifted` are candidates
  let ids := (List.range replicas).map (· + 2)
  let s0 := ids.foldl (fun s i => update s np i false) State.init
  let s1 := if held > 0 then (reserve s0 np (nodeLimit limit) held).1 else s0
  let heldGranted := reservedOf s1 np
  let r := driftRound s1 (replicasSpec : Int) limit budget (ids.take drifted) lost createFail (replicas + 2)
  let c := counts r.st np
  let model := jObj [("commands", jNat r.commands), ("started", jNat r.started), ("failed", jNat r.failed),
    ("a", jNat c.1), ("d", jNat c.2.1), ("p", jNat c.2.2), ("total", jNat (replicas + r.created)),
    ("reserved", jInt (reservedOf r.st np - heldGranted)), ("panic", jBool r.panicked)]
  -- specification: the round is over, so every slot it reserved is given back; nothing crashed; what it created
  -- stays within limits.nodes together with the slots others hold
  let reservedI ← intF impl "reserved"
  let totalI ← natF impl "total"
  let panicI ← boolF impl "panic"
  let within := match limit with
    | none => true
    | some l => totalI ≤ replicas || decide ((totalI : Int) + heldGranted ≤ l)
  let (ok, why) :=
    if panicI then (false, "the drift round panicked")
    else if reservedI != 0 then (false, s!"after the round {reservedI} reserved slot(s) were never given back")
    else if !within then (false, "replacement NodeClaims were created beyond limits.nodes")
    else (true, "")
  pure { model := some model, spec := some ok, why := why }

/-- one static-drift pass over several pools -/
structure DPool where
  static : Bool
  replicas : Int
  nodes : Nat
  limit : Option Int
  budget : Nat
  drifted : Nat
  marked : Nat
  held : Int
  lost : List Nat
  createFail : List Nat

def parseDPool (j : Json) : Except String DPool := do
  let replicas ← intF j "replicas"
  let extra ← intD j "extra"
  pure { static := ← boolF j "static", replicas := replicas, nodes := (replicas + extra).toNat, limit := ← intO j "limit",
         budget := ← natF j "budget", drifted := ← natF j "drifted", marked := ← natF j "marked", held := ← intF j "held",
         lost := ← natList (← fld j "lost"), createFail := ← natList (← fld j "createFail") }

def parsePassObs (j : Json) : Except String Karp.Spec.Static.PassObs := do
  pure { commands := ← natF j "commands", a := ← natF j "a", d := ← natF j "d", p := ← natF j "p",
         total := ← natF j "total", reserved := ← intF j "reserved" }

def driftPoolsOp (inp impl : Json) : Except String Resp := do
  let pools ← (← arrF inp "pools").mapM parseDPool
  -- the cluster as the harness builds it: pool i is named i+1, its NodeClaims 100(i+1)+k, all launched; the last
  -- `marked` ones are marked for deletion; another reconcile holds `held` slots
  let name (i : Nat) : Nat := i + 1
  let idsOf (i : Nat) (P : DPool) : List Nat := (List.range P.nodes).map (· + 100 * (i + 1))
  let markedOf (P : DPool) : Nat := min P.marked P.nodes
  let s0 := pools.zipIdx.foldl (fun s (P, i) =>
    let s := (idsOf i P).foldl (fun s id => update s (name i) id false) s
    ((idsOf i P).drop (P.nodes - markedOf P)).foldl (fun s id => markDeleting s (name i) id) s) State.init
  let s1 := pools.zipIdx.foldl (fun s (P, i) =>
    if P.held > 0 then (reserve s (name i) (nodeLimit P.limit) P.held).1 else s) s0
  let heldGranted (i : Nat) : Int := reservedOf s1 (name i)
  -- candidates: `StaticDrift.ShouldDisrupt` = static pool and Drifted; nodes marked for deletion are no candidates
  let candsOf (i : Nat) (P : DPool) : List Nat :=
    if P.static then (idsOf i P).take (min P.drifted (P.nodes - markedOf P)) else []
  -- `BuildDisruptionBudgetMapping`: a `nodes: "<n>"` budget minus the nodes already being disrupted
  let budgetOf (P : DPool) : Nat := P.budget - markedOf P
  let ins : List PoolIn := (pools.zipIdx.filter (fun (P, i) => !(candsOf i P).isEmpty)).map (fun (P, i) =>
    { p := name i, replicas := P.replicas, limit := P.limit, budget := budgetOf P, cands := candsOf i P,
      lost := P.lost, createFail := P.createFail, next := 100 * (i + 1) + 50 })
  let r := driftPass Karp.Gen.C03Pool.staticDriftCapArgs s1 ins
  let resultOf (i : Nat) : Option DriftResult :=
    match (ins.zip r.results).find? (fun (P, _) => P.p == name i) with
    | some (_, x) => some x
    | none => none
  let anyFailed := r.results.any (fun x => x.failed > 0)
  let model := jObj [
    ("pools", jArr (pools.zipIdx.map fun (P, i) =>
      let x := resultOf i
      let c := counts r.st (name i)
      jObj [("held", jInt (heldGranted i)), ("budget", jNat (budgetOf P)), ("cands", jNat (candsOf i P).length),
            ("commands", jNat ((x.map (·.commands)).getD 0)), ("started", jNat ((x.map (·.started)).getD 0)),
            ("failed", jNat ((x.map (·.failed)).getD 0)),
            ("a", jNat c.1), ("d", jNat c.2.1), ("p", jNat c.2.2),
            ("total", jNat (P.nodes + (x.map (·.created)).getD 0)),
            ("reserved", jInt (reservedOf r.st (name i) - heldGranted i))])),
    ("err", jStr (if anyFailed then "error" else "")), ("panic", jBool r.panicked)]
  -- the specification on what the real code did
  let panicI ← boolF impl "panic"
  let obs ← (← arrF impl "pools").mapM parsePassObs
  if obs.length != pools.length then throw "pools/observations length mismatch"
  let heldI ← (← arrF impl "pools").mapM (fun j => intF j "held")
  let specPools : List Karp.Spec.Static.PassPool := pools.zipIdx.map fun (P, i) =>
    { static := P.static, limit := P.limit, nodes := P.nodes,
      drifted := min P.drifted (P.nodes - markedOf P), marked := markedOf P, held := heldI.getD i 0 }
  let (ok, why) :=
    if panicI then (false, "the static-drift pass panicked")
    else match Karp.Spec.Static.firstBadPool 0 specPools obs with
      | some (i, w) => (false, s!"pool {i}: {w}")
      | none => (true, "")
  pure { model := some model, spec := some ok, why := why }

end Static

def handle : Handler := fun op inp impl =>
  match op with
  | "c03.poolstate" => poolstate inp impl
  | "c03.poolspec" => poolspec inp impl
  | "c03.poolgc" => poolspec inp impl
  | "c03.limitspass" => limitspass inp impl
  | "c03.limitsnodes" => limitspass inp impl
  | "c03.static" => staticOp inp impl
  | "c03.create" => createOp inp impl
  | "c03.drift" => driftOp inp impl
  | "c03.driftpools" => driftPoolsOp inp impl
  | "c03.staticpods" => staticPodsOp inp impl
  | "c03.staticroute" => staticRouteOp inp impl
  | _ => .error s!"unknown op {op}"

end Karp.Driver.C03
