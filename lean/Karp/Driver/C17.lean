import Karp.Driver.Proto
import Karp.Driver.ScenarioJson
import Karp.Model.Reservation
import Karp.Spec.Reserved
import Karp.Spec.ReservedLedger
import Karp.Model.DraTracker
import Karp.Model.DraBudget
import Karp.Model.DraCapacity
import Karp.Spec.DraExclusive
import Karp.Driver.ReqJson

namespace Karp.Driver.C17
open Lean Karp.Driver Karp.Reservation

/-! ## c17.rm -/

structure OffJ where
  ct : String
  id : String
  cap : Int

def offJ (j : Json) : Except String OffJ := do
  pure { ct := ← strF j "ct", id := ← strF j "id", cap := ← intF j "cap" }

/-- the reserved offerings as (reservation id, capacity) -/
def reservedOf (offs : List OffJ) : List (String × Int) :=
  (offs.filter (fun o => o.ct == Karp.Gen.Labels.capacityTypeReserved)).map (fun o => (o.id, o.cap))

structure OpJ where
  op : String
  host : String
  ids : List String

def opJ (j : Json) : Except String OpJ := do
  pure { op := ← strF j "op", host := (← strO j "host").getD "", ids := ← (match fldOpt j "ids" with | none => pure [] | some v => strList v) }

def toModelOp (o : OpJ) : Except String Op :=
  match o.op, o.ids with
  | "can", id :: _ => pure (.canReserve o.host id)
  | "has", id :: _ => pure (.has o.host id)
  | "remaining", id :: _ => pure (.remaining id)
  | "reserve", ids => pure (.reserve o.host ids)
  | "guarded", ids => pure (.guarded o.host ids)
  | "release", ids => pure (.release o.host ids)
  | _, _ => throw s!"bad op {o.op}"

def toSpecOp (o : OpJ) : Except String Karp.Spec.Reserved.OpS :=
  match o.op, o.ids with
  | "can", id :: _ => pure (.can o.host id)
  | "has", id :: _ => pure (.has o.host id)
  | "remaining", id :: _ => pure (.remaining id)
  | "reserve", ids => pure (.reserve o.host ids)
  | "guarded", ids => pure (.guarded o.host ids)
  | "release", ids => pure (.release o.host ids)
  | _, _ => throw s!"bad op {o.op}"

def sortS (l : List String) : List String := (l.eraseDups.toArray.qsort (· < ·)).toList

def panicName : Panic → String
  | .nonExistent => "nonExistent"
  | .overReserve => "overReserve"

def obsStr : Obs → String
  | .bool b => toString b
  | .int n => s!"n:{n}"
  | .unit => "ok"
  | .granted ids => "granted:" ++ ",".intercalate ids
  | .panic p => "panic:" ++ panicName p

def snapJson (rm : RM) (ids hosts : List String) : Json :=
  jObj [("remaining", jObj (ids.map (fun id => (id, jInt (rm.remaining id))))),
        ("holders", jObj (ids.map (fun id => (id, jArr ((hosts.filter (fun h => rm.has h id)).map jStr)))))]

def parseSnap (j : Json) : Except String Karp.Spec.Reserved.Snap := do
  let rem ← match fldOpt j "remaining" with
    | some (.obj kvs) => kvs.toList.mapM (fun (k, v) => do pure (k, ← asInt v))
    | _ => pure []
  let hol ← match fldOpt j "holders" with
    | some (.obj kvs) => kvs.toList.mapM (fun (k, v) => do pure (k, ← strList v))
    | _ => pure []
  pure { remaining := rem, holders := hol }

def opRM (inp impl : Json) : Except String Resp := do
  let offs ← (← arrF inp "offerings").mapM offJ
  let ops ← (← arrF inp "ops").mapM opJ
  let reserved := reservedOf offs
  let ids := sortS (reserved.map (·.1) ++ ops.flatMap (·.ids) ++
    (if offs.any (fun o => o.ct != Karp.Gen.Labels.capacityTypeReserved) then [""] else []))
  let hosts := sortS ((ops.map (·.host)).filter (· != ""))
  let mops ← ops.mapM toModelOp
  -- the model, with a snapshot after every op
  let rec go (rm : RM) (ops : List Op) (accO : List Json) (accS : List Json) : List Json × List Json :=
    match ops with
    | [] => (accO.reverse, accS.reverse)
    | op :: rest =>
      match stepOp rm op with
      | .error p => ((jStr (obsStr (.panic p)) :: accO).reverse, accS.reverse)
      | .ok (rm', o) => go rm' rest (jStr (obsStr o) :: accO) (snapJson rm' ids hosts :: accS)
  let (mo, ms) := go (RM.new reserved) mops [] []
  -- the ledger specification on what the real manager did
  let sops ← ops.mapM toSpecOp
  let (specOk, why) ← match fldOpt impl "obs", fldOpt impl "snaps" with
    | some o, some s => do
      let obs ← strList o
      let snaps ← listOf parseSnap s
      match Karp.Spec.Reserved.historyOK reserved ids (Karp.Spec.Reserved.initSnap reserved ids) sops obs snaps with
      | some w => pure (false, w)
      | none =>
        -- … and the observations are the ledger's (Spec/ReservedLedger.specObs)
        let want := (Karp.Spec.ReservedLedger.specObs reserved [] mops).map obsStr
        if obs != want then pure (false, s!"observations {obs} differ from the holder ledger's {want}") else pure (true, "")
    | _, _ => pure (false, "implementation produced no observations (panic outside an op?)")
  pure { model := some (jObj [("obs", jArr mo), ("snaps", jArr ms)]), spec := some specOk, why := why }


/-! ## c17.claims -/

open Karp.Spec.Reserved in
def stepObs (j : Json) : Except String StepObs := do
  let held ← match fldOpt j "held" with
    | some (.obj kvs) => kvs.toList.mapM (fun (k, v) => do pure (k, ← strList v))
    | _ => pure []
  let rem ← match fldOpt j "remaining" with
    | some (.obj kvs) => kvs.toList.mapM (fun (k, v) => do pure (k, ← asInt v))
    | _ => pure []
  pure { claim := ← intF j "claim", isNew := ← boolD j "new" false, base := ← strF j "base",
         compat := ← (match fldOpt j "compat" with | none => pure [] | some v => strList v),
         result := ← strF j "result", ofs := ← (match fldOpt j "ofs" with | none => pure [] | some v => strList v),
         held := held, remaining := rem }

def reqObsOf (j : Json) (k : String) : Except String (Option Karp.Spec.Reserved.ReqObs) :=
  match fldOpt j k with
  | none => pure none
  | some v => do
    let r ← Karp.Driver.ScenarioJson.snapReq v
    pure (some { complement := r.complement, values := r.values, bounded := r.gte.isSome || r.lte.isSome })

def reqOf (j : Json) (k : String) : Except String (Option Karp.Req.Req) :=
  match fldOpt j k with
  | none => pure none
  | some v => do pure (some (← Karp.Driver.ScenarioJson.snapReq v))

def snapOpt : Option Karp.Req.Req → Json
  | none => Json.null
  | some r => Karp.Driver.ReqJson.snap r

/-- reserved offerings (id, capacity) of a scenario catalog -/
def catalogReserved (its : List Karp.Scn.IT) : List (String × Int) :=
  its.flatMap (fun it => (it.offerings.filter (fun o => o.ct == Karp.Gen.Labels.capacityTypeReserved)).map (fun o => (o.resID, (o.resN : Int))))

def opClaims (inp impl : Json) : Except String Resp := do
  let its ← Karp.Driver.ScenarioJson.listF Karp.Driver.ScenarioJson.it inp "its"
  let strict ← boolF inp "strict"
  let gate ← boolF inp "gate"
  let ridKey ← strF inp "ridKey"
  let reserved := catalogReserved its
  let ids := sortS (reserved.map (·.1))
  match fldOpt impl "err" with
  | some (.str e) => if e != "" then return { allowed := some true, spec := some true, why := "harness could not build the case: " ++ e }
  | _ => pure ()
  if (fldOpt impl "panic").isSome then
    return { allowed := some false, spec := some false, why := "the reservation code panicked: " ++ (toString (fldOpt impl "panic").get!) }
  let steps ← (← arrF impl "steps").mapM stepObs
  let finals ← arrF impl "finals"
  let mode := if strict then strictMode else fallbackMode
  -- model: replay the trace
  let host (k : Int) : String := s!"c{k}"
  let rec go (st : St) (n : Nat) (ss : List Karp.Spec.Reserved.StepObs) (i : Nat) : Except String (St × Nat) :=
    match ss with
    | [] => pure (st, n)
    | s :: rest =>
      let check (st' : St) (n' : Nat) : Except String (St × Nat) := do
        -- compare the model state with the observed one
        for k in List.range n' do
          let h := host k
          let mh := sortS (ids.filter (fun id => st'.rm.has h id))
          let ih := sortS (Karp.Spec.Reserved.heldOf s.held k)
          if mh != ih then throw s!"step {i}: model says claim {k} holds {mh}, the real manager says {ih}"
        for id in ids do
          let ir := (s.remaining.lookup id).getD 0
          if st'.rm.remaining id != ir then throw s!"step {i}: model remaining[{id}] = {st'.rm.remaining id}, real = {ir}"
        go st' n' rest (i + 1)
      if s.base == "void" then check st n
      else if s.base != "ok" then
        if s.result != "fail" then throw s!"step {i}: base CanAdd failed, model expects fail, real CanAdd answered {s.result}" else check st n
      else
        let h := if s.isNew then host n else host s.claim
        match round gate mode st { host := h, compat := s.compat } with
        | .error p => throw s!"step {i}: the model reaches the panic {panicName p}"
        | .ok (st', added) =>
          if !added then
            if s.result != "reserved" then throw s!"step {i}: model expects a reserved-offering error, real CanAdd answered {s.result}" else check st' n
          else if s.result != "ok" then throw s!"step {i}: model expects success, real CanAdd answered {s.result}"
          else if (st'.claim h).reserved != s.ofs then throw s!"step {i}: model reserves {(st'.claim h).reserved}, real CanAdd returned {s.ofs}"
          else check st' (if s.isNew then n + 1 else n)
  let modelRes := go (St.init reserved) 0 steps 0
  let (allowed, whyM, finalSt) := match modelRes with
    | .ok (st, _) => (true, "", some st)
    | .error e => (false, e, none)
  -- model of FinalizeScheduling per claim
  let (allowed, whyM) ← match finalSt with
    | none => pure (allowed, whyM)
    | some st => do
      let mut ok := allowed
      let mut why := whyM
      for (f, k) in finals.zip (List.range finals.length) do
        let pre : Karp.Req.Reqs := (match ← reqOf f "preCT" with | some r => [(capacityTypeKey, r)] | none => []) ++
          (match ← reqOf f "preRID" with | some r => [(ridKey, r)] | none => [])
        let post := finalize ridKey pre (st.claim (host k))
        let okCT := jsonEq (snapOpt (post.lookup capacityTypeKey)) ((fldOpt f "postCT").getD Json.null)
        let okRID := jsonEq (snapOpt (post.lookup ridKey)) ((fldOpt f "postRID").getD Json.null)
        if ok && !(okCT && okRID) then
          ok := false
          why := s!"claim {k}: model finalization gives {(snapOpt (post.lookup capacityTypeKey)).compress} / {(snapOpt (post.lookup ridKey)).compress}"
      pure (ok, why)
  -- specification on the observations
  let initRem := ids.map (fun id => (id, (Karp.Spec.Reserved.capOf reserved id).getD 0))
  let specSteps := Karp.Spec.Reserved.stepsOK reserved ids gate strict [] initRem steps 0
  let lastHeld := match steps.getLast? with | some s => s.held | none => []
  let specFinal ← (finals.zip (List.range finals.length)).findSomeM? (fun (f, k) => do
    let r := Karp.Spec.Reserved.finalOK (Karp.Spec.Reserved.heldOf lastHeld k) (← reqObsOf f "preCT") (← reqObsOf f "preRID")
      (← reqObsOf f "postCT") (← reqObsOf f "postRID") (← boolD f "hostnameLeft" false)
    pure (r.map (fun w => s!"claim {k}: {w}")))
  let spec := match specSteps with | some w => some w | none => specFinal
  pure { allowed := some allowed, spec := some spec.isNone, why := (spec.getD "") ++ (if allowed then "" else " | model: " ++ whyM) }


/-! ## c17.pass -/

def claimRes (j : Json) : Except String Karp.Spec.Reserved.ClaimRes := do
  pure { host := ← strF j "host", reserved := ← (match fldOpt j "reserved" with | none => pure [] | some v => strList v),
         held := ← (match fldOpt j "held" with | none => pure [] | some v => strList v) }

def opPass (inp impl : Json) : Except String Resp := do
  let s ← Karp.Driver.ScenarioJson.scenario inp
  let ridKey ← strF inp "ridKey"
  match fldOpt impl "err" with
  | some (.str e) => if e != "" then return { allowed := some true, spec := some true, why := "pass returned an error: " ++ e }
  | _ => pure ()
  if (fldOpt impl "panic").isSome then
    return { allowed := some false, spec := some false, why := "the scheduler panicked: " ++ (toString (fldOpt impl "panic").get!),
             extra := some (jObj [("signature", jStr "panic")]) }
  let out ← Karp.Driver.ScenarioJson.outcome impl
  let res ← (← arrF impl "claims").mapM claimRes
  let capacity ← match fldOpt impl "capacity" with
    | some (.obj kvs) => kvs.toList.mapM (fun (k, v) => do pure (k, ← asInt v))
    | _ => pure []
  let orphans ← match fldOpt impl "orphans" with
    | some (.obj kvs) => kvs.toList.mapM (fun (k, v) => do pure (k, ← strList v))
    | _ => pure []
  match Karp.Spec.Reserved.passOK s ridKey out res capacity orphans with
  | none => pure { allowed := some true, spec := some true }
  | some why =>
    let sig := if why.startsWith "[" then ((why.splitOn "]").head!.drop 1).toString else "pass"
    pure { allowed := some true, spec := some false, why := why, extra := some (jObj [("signature", jStr sig)]) }


/-! ## c17.dra -/

namespace Dra
open Karp.DraTracker

def devJ (j : Json) : Except String Dev := do pure { name := ← strF j "name", template := ← boolD j "template" false }

def allocJ (j : Json) : Except String (IT × List Dev) := do
  pure (← strF j "it", ← (match fldOpt j "devs" with | none => pure [] | some v => listOf devJ v))

structure OpJ where
  op : String
  nc : String
  alloc : List (IT × List Dev)
  its : List String

def opJ (j : Json) : Except String OpJ := do
  pure { op := ← strF j "op", nc := ← strF j "nc",
         alloc := ← (match fldOpt j "alloc" with | none => pure [] | some v => listOf allocJ v),
         its := ← (match fldOpt j "its" with | none => pure [] | some v => strList v) }

def toOp (o : OpJ) : Except String DraTracker.Op :=
  match o.op with
  | "commit" => pure (.commit o.nc o.alloc)
  | "guarded" => pure (.guarded o.nc o.alloc)
  | "release" => pure (.release o.nc o.its)
  | _ => throw s!"bad op {o.op}"

def panicName : DraTracker.Panic → String
  | .dupInstanceType => "dupInstanceType"
  | .otherNodeClaim => "otherNodeClaim"
  | .missingRefCount => "missingRefCount"
  | .missingITRef => "missingITRef"

def sortStr (l : List String) : List String := (l.toArray.qsort (· < ·)).toList

def showPair (p : IT × Dev) : String := p.1 ++ "/" ++ p.2.name ++ (if p.2.template then "*" else "")

def snapJson (t : Tracker) (devs : List Dev) (ncs its : List String) : Json :=
  let allocated := devs.flatMap (fun d => ncs.flatMap (fun nc => its.filterMap (fun it =>
    if t.isAllocated d nc it then some (d.name ++ (if d.template then "*" else "") ++ "|" ++ nc ++ "|" ++ it) else none)))
  jObj [("inflight", jArr ((sortStr (t.inflight.map (fun (d, nc, it) => d ++ "|" ++ nc ++ "|" ++ it))).map jStr)),
        ("byNC", jArr ((sortStr (t.byNC.map (fun (nc, it, d) => nc ++ "|" ++ it ++ "|" ++ d))).map jStr)),
        ("template", jArr ((sortStr (t.template.map (fun (nc, it, d) => nc ++ "|" ++ it ++ "|" ++ d))).map jStr)),
        ("allocated", jArr ((sortStr allocated).map jStr))]

structure SnapObs where
  inflight : List String
  byNC : List String
  template : List String
  allocated : List String

def snapObs (j : Json) : Except String SnapObs := do
  let f (k : String) : Except String (List String) := match fldOpt j k with | none => pure [] | some v => strList v
  pure { inflight := ← f "inflight", byNC := ← f "byNC", template := ← f "template", allocated := ← f "allocated" }

open Karp.Spec.DraExclusive in
/-- judge the observed history by the set-of-holdings specification -/
def specHistory (prealloc : List String) (devs : List Karp.Spec.DraExclusive.Dev) (ncs its : List String) :
    List Holding → Bool → List Karp.Spec.DraExclusive.OpS → List String → List SnapObs → Nat → Option String
  | _, _, [], _, _, _ => none
  | _, _, _ :: _, [], _, i => some s!"op {i}: no observation"
  | held, disciplined, op :: ops, obs :: os, snaps, i =>
    let (want, next) := step prealloc held op
    let disciplined := disciplined && (match op with | .commit _ _ => false | _ => true)
    match next with
    | none => if obs.startsWith "panic:" then none else some s!"op {i}: the commit names a device that is already taken; the tracker must refuse it, it answered {obs}"
    | some h =>
      if obs != want then some s!"op {i}: observed {obs}, the holdings say {want}" else
      match snaps with
      | [] => some s!"op {i}: no state recorded"
      | s :: rest =>
        let wantInflight := sortStr ((h.filter (fun x => !x.1.template)).map (fun (d, nc, it) => d.name ++ "|" ++ nc ++ "|" ++ it))
        let wantByNC := sortStr ((h.filter (fun x => !x.1.template)).map (fun (d, nc, it) => nc ++ "|" ++ it ++ "|" ++ d.name))
        let wantTemplate := sortStr ((h.filter (fun x => x.1.template)).map (fun (d, nc, it) => nc ++ "|" ++ it ++ "|" ++ d.name))
        let wantAllocated := sortStr (devs.flatMap (fun d => ncs.flatMap (fun nc => its.filterMap (fun it =>
          if taken prealloc h d nc it then some (d.name ++ (if d.template then "*" else "") ++ "|" ++ nc ++ "|" ++ it) else none))))
        if s.inflight != wantInflight then some s!"op {i}: in-cluster holdings are {s.inflight}, expected {wantInflight}"
        else if s.byNC != wantByNC then some s!"op {i}: the per-NodeClaim index {s.byNC} does not mirror the holdings {wantByNC}"
        else if s.template != wantTemplate then some s!"op {i}: template holdings are {s.template}, expected {wantTemplate}"
        else if s.allocated != wantAllocated then some s!"op {i}: IsAllocated is true for {s.allocated}, the holdings say {wantAllocated}"
        else match exclusive h with
          | some w => some s!"op {i}: {w}"
          | none =>
            if disciplined && h.any (fun x => !x.1.template && prealloc.contains x.1.name) then some s!"op {i}: a device already allocated in the cluster was allocated again"
            else specHistory prealloc devs ncs its h disciplined ops os rest (i + 1)

def opDRA (inp impl : Json) : Except String Resp := do
  let prealloc ← (match fldOpt inp "prealloc" with | none => pure [] | some v => strList v)
  let ops ← (← arrF inp "ops").mapM opJ
  let mops ← ops.mapM toOp
  -- the universe, as the harness builds it
  let allDevs : List Dev := (prealloc.map (fun p => ({ name := p, template := false } : Dev))) ++ ops.flatMap (fun o => o.alloc.flatMap (·.2))
  let devs := (allDevs.eraseDups.toArray.qsort (fun a b => a.name < b.name || (a.name == b.name && !a.template && b.template))).toList
  let ncs := sortStr (ops.map (·.nc)).eraseDups
  let its := sortStr (ops.flatMap (fun o => o.alloc.map (·.1) ++ o.its)).eraseDups
  let rec go (t : Tracker) (ops : List DraTracker.Op) (accO accS : List Json) : List Json × List Json :=
    match ops with
    | [] => (accO.reverse, accS.reverse)
    | op :: rest =>
      match DraTracker.stepOp t op with
      | .error p => ((jStr ("panic:" ++ panicName p) :: accO).reverse, accS.reverse)
      | .ok t' =>
        let o := match op with
          | .guarded nc alloc => "granted:" ++ ",".intercalate ((t.grantable nc (pairsOf alloc)).map showPair)
          | _ => "ok"
        go t' rest (jStr o :: accO) (snapJson t' devs ncs its :: accS)
  let (mo, ms) := go (Tracker.new prealloc) mops [] []
  -- specification
  let sdev (d : Dev) : Karp.Spec.DraExclusive.Dev := { name := d.name, template := d.template }
  let sops : List Karp.Spec.DraExclusive.OpS := ops.map (fun o =>
    let pairs := (pairsOf o.alloc).map (fun (it, d) => (it, sdev d))
    match o.op with
    | "commit" => .commit o.nc pairs
    | "guarded" => .guarded o.nc pairs
    | _ => .release o.nc o.its)
  let (specOk, why) ← match fldOpt impl "obs", fldOpt impl "snaps" with
    | some o, some s => do
      let obs ← strList o
      let snaps ← listOf snapObs s
      match specHistory prealloc (devs.map sdev) ncs its [] true sops obs snaps 0 with
      | none => pure (true, "")
      | some w => pure (false, w)
    | _, _ => pure (false, "implementation produced no observations")
  pure { model := some (jObj [("obs", jArr mo), ("snaps", jArr ms)]), spec := some specOk, why := why }

end Dra


/-! ## c17.alloc -/

def entryJ (j : Json) : Except String Karp.Spec.DraExclusive.Entry := do
  let drv ← strF j "driver"
  let cls := if drv == "gpu.example.com" then "gpu" else if drv == "tmpl.example.com" then "tmpl" else if drv == "shared.example.com" then "shared"
    else if drv == "part.example.com" then "part" else if drv == "tpart.example.com" then "tpart" else drv
  pure { claim := ← strF j "claim", nc := ← strF j "nc", it := ← strF j "it", dev := ← strF j "dev", pool := (← strO j "pool").getD "", cls := cls,
         template := ← boolD j "template" false,
         consumed := [("mem", ← intF j "consumed")] ++ (match ← intO j "consumedBw" with | some v => [("bw", v)] | none => []) }

/-- a capacity request of 0 in the protocol = the request has no entry for the dimension -/
def claimSpecJ (j : Json) : Except String Karp.Spec.DraExclusive.ClaimSpec := do
  let cap := (← intO j "cap").getD 0
  let bw := (← intO j "bw").getD 0
  pure { name := ← strF j "name", cls := ← strF j "class", count := ← natF j "count",
         reqs := (if cap != 0 then [("mem", cap)] else []) ++ (if bw != 0 then [("bw", bw)] else []) }

/-- one capacity dimension: `cap`, `pre`, and the request policy `def` / `values` / `range`+`min`,`max`,`step`
    (0 = unset for def, max, step) -/
def sdimJ (dim : String) (j : Json) : Except String Karp.Spec.DraExclusive.SDim := do
  let nz (o : Option Int) : Option Int := match o with | some 0 => none | x => x
  let values ← (match fldOpt j "values" with | none => pure [] | some .null => pure [] | some v => listOf asInt v)
  let hasRange ← boolD j "range" false
  let mn := (← intO j "min").getD 0
  let mx ← intO j "max"
  let stp ← intO j "step"
  let range := if hasRange then some (mn, nz mx, nz stp) else none
  pure { dim := dim, cap := ← intF j "cap", pre := (← intO j "pre").getD 0, default := nz (← intO j "def"), values := values, range := range }

def sharedJ (j : Json) : Except String Karp.Spec.DraExclusive.SDev := do
  let mem ← sdimJ "mem" j
  let more ← (match fldOpt j "bw" with | none => pure [] | some .null => pure [] | some b => do pure [← sdimJ "bw" b])
  pure { name := ← strF j "name", dims := mem :: more }

def partJ (j : Json) : Except String (String × Int × Bool) := do
  pure ((← strF j "name"), (← intF j "w"), (← boolD j "pre" false))

/-- the partitionable pools of a c17.alloc input: the legacy cluster-wide pool-c (`parts` / `slots`) and the explicit
    `ppools` (their slices flattened: how a pool is published is no concern of the specification) -/
def counterPools (inp : Json) : Except String (List Karp.Spec.DraExclusive.CPool) := do
  let legacy ← (match fldOpt inp "parts" with | none => pure [] | some v => listOf partJ v)
  let slots := (← intO inp "slots").getD 0
  let more ← (match fldOpt inp "ppools" with
    | none => pure []
    | some v => listOf (fun j => do
        let slices ← (match fldOpt j "slices" with
          | none => pure []
          | some sv => listOf (fun sj => do (match fldOpt sj "parts" with | none => pure [] | some pv => listOf partJ pv)) sv)
        pure ({ name := ← strF j "name", slots := ← intF j "slots", parts := slices.flatten } : Karp.Spec.DraExclusive.CPool)) v)
  pure ((if legacy.isEmpty then [] else [{ name := "pool-c", slots := slots, parts := legacy }]) ++ more)

/-- the class of a c17.alloc verdict (the signature of the failure): a real over-consumption of a counter / a capacity is
    kept apart from a mere mismatch of the tracker's bookkeeping, so that the witness of one is not shrunk into the other -/
def allocClass (why : String) : String :=
  let has (t : String) : Bool := (why.splitOn t).length > 1
  if has "shared counter of pool" then "alloc:counter-overconsumed"
  else if has "template counter of" then "alloc:template-counter-overconsumed"
  else if has "exceeds its capacity" then "alloc:capacity-overconsumed"
  else if has "is accounted" then "alloc:share-accounting"
  else if has "violates the device's request policy" then "alloc:policy-violated"
  else if has "does not have, yet" then "alloc:nonexistent-dimension"
  else if has "remaining counter budget" then "alloc:counter-accounting"
  else if has "tracker accounts" then "alloc:capacity-accounting"
  else "alloc"

/-- does a slice published with this access target the empty requirements / empty node name the pools are gathered with
    at allocator construction?  (`sliceMatchesRequirements`: cluster-wide slices do, a selector on the well-known zone
    label is compatible with undefined requirements, a node name never equals "", a custom label must be defined) -/
def targetsEmpty (access : String) : Bool := access == "all" || access == "" || access.startsWith "zone:"

/-- the pools as the budget model sees them at allocator construction: pool ↦ (`Pool`, names of the devices in use) -/
def budgetPools (inp : Json) : Except String (List (String × Karp.DraBudget.Pool × List String)) := do
  let legacy ← (match fldOpt inp "parts" with | none => pure [] | some v => listOf partJ v)
  let slots := (← intO inp "slots").getD 0
  let more ← (match fldOpt inp "ppools" with
    | none => pure []
    | some v => listOf (fun j => do
        let slices ← (match fldOpt j "slices" with
          | none => pure []
          | some sv => listOf (fun sj => do
              pure ((← strO sj "access").getD "all", ← (match fldOpt sj "parts" with | none => pure [] | some pv => listOf partJ pv))) sv)
        let devs (t : Bool) := (slices.filter (fun sl => targetsEmpty sl.1 == t)).flatMap (fun sl => sl.2.map (fun d => (d.1, d.2.1)))
        let pre := slices.flatMap (fun sl => (sl.2.filter (·.2.2)).map (·.1))
        pure ((← strF j "name"), ({ total := ← intF j "slots", devices := devs true, nonTargeting := devs false } : Karp.DraBudget.Pool), pre)) v)
  pure ((if legacy.isEmpty then [] else
    [("pool-c", ({ total := slots, devices := legacy.map (fun d => (d.1, d.2.1)), nonTargeting := [] } : Karp.DraBudget.Pool), (legacy.filter (·.2.2)).map (·.1))]) ++ more)

/-- `tparts`: instance type ↦ its template partitionable device -/
def templatePools (inp : Json) : Except String (List Karp.Spec.DraExclusive.TPool) :=
  match fldOpt inp "tparts" with
  | some (.obj kvs) => kvs.toList.mapM (fun (it, j) => do
      let parts ← (match fldOpt j "parts" with | none => pure [] | some pv => listOf partJ pv)
      pure ({ it := it, slots := (← intO j "slots").getD 0, parts := parts.map (fun d => (d.1, d.2.1)) } : Karp.Spec.DraExclusive.TPool))
  | _ => pure []

/-- the consumable-capacity model on the shares the allocator handed out: for every dimension of the device
    `computeConsumedCapacity` (model) must not fail and must give what the implementation reports -/
def shareModelWhy (shared : List Karp.Spec.DraExclusive.SDev) (claims : List Karp.Spec.DraExclusive.ClaimSpec)
    (entries : List Karp.Spec.DraExclusive.Entry) : Option String :=
  (entries.filter (·.cls == "shared")).findSome? (fun e =>
    match shared.find? (·.name == e.dev), claims.find? (·.name == e.claim) with
    | some sd, some c =>
      sd.dims.findSome? (fun d =>
        let got := (e.consumed.lookup d.dim).getD 0
        match Karp.DraCapacity.consumedDim (c.reqs.lookup d.dim) (Karp.DraCapacity.Dim.ofFields d.cap d.default d.values d.range) with
        | none => some s!"claim {c.name} got {e.dev} although computeConsumedCapacity (model) fails for {d.dim}"
        | some want => if want != got then some s!"claim {c.name} on {e.dev}: computeConsumedCapacity (model) gives {want} of {d.dim}, the implementation reports {got}" else none)
    | _, _ => none)

def opAlloc (inp impl : Json) : Except String Resp := do
  let prealloc ← (match fldOpt inp "prealloc" with | none => pure [] | some v => strList v)
  let shared ← (match fldOpt inp "shared" with | none => pure [] | some v => listOf sharedJ v)
  let pools ← counterPools inp
  let tpools ← templatePools inp
  let bpools ← budgetPools inp
  let ops ← arrF inp "ops"
  let claims ← ops.foldlM (fun (acc : List Karp.Spec.DraExclusive.ClaimSpec) o => do
    let cs ← (match fldOpt o "claims" with | none => pure [] | some v => listOf claimSpecJ v)
    pure (acc ++ cs.filter (fun c => !acc.any (·.name == c.name)))) []
  match fldOpt impl "err" with
  | some (.str e) => if e != "" then return { allowed := some true, spec := some true, why := "harness: " ++ e }
  | _ => pure ()
  if (fldOpt impl "panic").isSome then
    return { allowed := some false, spec := some false, why := "the allocator panicked: " ++ (toString (fldOpt impl "panic").get!) }
  let steps ← arrF impl "steps"
  if steps.length != ops.length then throw "steps/ops length mismatch"
  -- walk the steps: specification on the metadata, tracker model replay
  -- the tracker model knows the devices that are allocated in the cluster by name: exclusive devices and partitions
  let mut t : Karp.DraTracker.Tracker := Karp.DraTracker.Tracker.new
    (prealloc ++ pools.flatMap (fun p => (p.parts.filter (·.2.2)).map (·.1)))
  -- the budget model: one state per partitionable pool, initialised as `InitRemainingCounters` does
  let mut budgets : List (String × Karp.DraBudget.St) :=
    bpools.map (fun (n, p, pre) => (n, Karp.DraBudget.St.init (Karp.DraBudget.initRemaining pre p)))
  let mut seen : List String := []
  let mut specWhy : Option String := none
  let mut modelWhy : Option String := none
  let mut i := 0
  for (o, st) in ops.zip steps do
    let entries ← (match fldOpt st "meta" with | none => pure [] | some v => listOf entryJ v)
    let nc ← strF o "nc"
    let kind ← strF o "op"
    let result ← strF st "result"
    -- spec
    if specWhy.isNone then
      match Karp.Spec.DraExclusive.metaOK prealloc shared pools tpools claims entries with
      | some w => specWhy := some s!"op {i}: {w}"
      | none =>
        -- the tracker's pessimistic accounting of shared capacity equals the worst case of the published allocations
        let inflightOf (k : String) : Except String (List (String × Int)) := match fldOpt st k with
          | some (.obj kvs) => kvs.toList.mapM (fun (k, v) => do pure (k, ← asInt v))
          | _ => pure []
        let inflight := [("mem", ← inflightOf "inflight"), ("bw", ← inflightOf "inflightBw")]
        let accounted (dev dim : String) : Int := (((inflight.lookup dim).getD []).lookup dev).getD 0
        match shared.findSome? (fun sd => sd.dims.findSome? (fun d =>
            if accounted sd.name d.dim != Karp.Spec.DraExclusive.worstCase claims entries sd.name d then some (sd, d) else none)) with
        | some (sd, d) => specWhy := some s!"op {i}: the tracker accounts {accounted sd.name d.dim} of {d.dim} of {sd.name} as consumed, the published allocations amount to {Karp.Spec.DraExclusive.worstCase claims entries sd.name d}"
        | none =>
          -- … and so does its remaining shared-counter budget, for every pool it tracks: counter − what the partitions
          -- in use in the cluster consume − worst case of the published allocations
          let counters ← match fldOpt st "counters" with
            | some (.obj kvs) => kvs.toList.mapM (fun (k, v) => do pure (k, ← asInt v))
            | _ => pure []
          match pools.find? (fun p => match counters.lookup p.name with
              | none => false
              | some rem => rem != p.slots - p.preConsumed - Karp.Spec.DraExclusive.worstCounter p entries) with
          | some p => specWhy := some s!"op {i}: the tracker's remaining counter budget of pool {p.name} is {(counters.lookup p.name).getD 0}; counter {p.slots} − in use in the cluster {p.preConsumed} − worst-case consumption of the published allocations {Karp.Spec.DraExclusive.worstCounter p entries} = {p.slots - p.preConsumed - Karp.Spec.DraExclusive.worstCounter p entries}"
          | none => pure ()
    -- model
    if modelWhy.isNone then
      match shareModelWhy shared claims entries with
      | some w => modelWhy := some s!"op {i}: {w}"
      | none => pure ()
    if modelWhy.isNone then
      if kind == "allocate" then
        if result == "ok" then
          let fresh := entries.filter (fun e => !seen.contains e.claim && e.cls != "shared")
          let pairs : List (String × Karp.DraTracker.Dev) := fresh.map (fun e => (e.it, { name := e.dev, template := e.template }))
          match pairs.find? (fun p => t.isAllocated p.2 nc p.1) with
          | some p => modelWhy := some s!"op {i}: the allocator committed {p.2.name} for ({nc}, {p.1}) although IsAllocated reports it taken"
          | none =>
            if fresh.any (fun e => e.nc != nc) then modelWhy := some s!"op {i}: a fresh claim is recorded for another NodeClaim" else
            match t.commitPairs nc pairs with
            | .error p => modelWhy := some s!"op {i}: the tracker model panics ({Dra.panicName p}) on the allocator's choice"
            | .ok t' =>
              t := t'
              -- the counters the fresh partitions consume, per pool and instance type, go through the budget model:
              -- the guard `checkCounters` must have let them through
              let mut nb : List (String × Karp.DraBudget.St) := []
              for (pn, bst) in budgets do
                let mine := fresh.filter (fun e => e.cls == "part" && e.pool == pn)
                let weight (d : String) : Int := ((pools.find? (·.name == pn)).map (fun p => p.weight d)).getD 0
                let new : List (String × Int) := ((mine.map (·.it)).eraseDups).map (fun it =>
                  (it, Karp.Spec.DraExclusive.sumInt ((mine.filter (·.it == it)).map (fun e => weight e.dev))))
                if modelWhy.isNone && !Karp.DraBudget.fits bst new then
                  modelWhy := some s!"op {i}: the allocator committed the consumption {new} of pool {pn}'s counter, the budget model has {bst.remaining} left (the guard checkCounters refuses that)"
                nb := nb ++ [(pn, bst.commit nc new)]
              budgets := nb
      else
        let its ← (match fldOpt o "its" with | none => pure [] | some v => strList v)
        budgets := budgets.map (fun (pn, bst) => (pn, bst.release nc its))
        match t.release nc its with
        | .error p => modelWhy := some s!"op {i}: the tracker model panics ({Dra.panicName p}) on release"
        | .ok t' => t := t'
      -- pruned / failed instance types: whatever the claim no longer lists was released
      if modelWhy.isNone then
        let tr ← Dra.snapObs ((fldOpt st "tracker").getD Json.null)
        -- the model state after the harness-side pruning: drop holdings of this nodeclaim that the real tracker dropped
        let wantInflight := tr.inflight
        let mInflight := Dra.sortStr (t.inflight.map (fun (d, n, it) => d ++ "|" ++ n ++ "|" ++ it))
        if kind == "allocate" && (mInflight != wantInflight || Dra.sortStr (t.template.map (fun (n, it, d) => n ++ "|" ++ it ++ "|" ++ d)) != tr.template) then
          -- the scheduler-side pruning (drop) is not part of the input of the model: re-synchronise on instance types that disappeared for nc
          let gone := (t.inflight.filter (fun (d, n, it) => n == nc && !wantInflight.contains (d ++ "|" ++ n ++ "|" ++ it))).map (·.2.2)
          let goneT := (t.template.filter (fun (n, it, d) => n == nc && !tr.template.contains (n ++ "|" ++ it ++ "|" ++ d))).map (·.2.1)
          budgets := budgets.map (fun (pn, bst) => (pn, bst.release nc (gone ++ goneT).eraseDups))
          match t.release nc (gone ++ goneT).eraseDups with
          | .error p => modelWhy := some s!"op {i}: the tracker model panics ({Dra.panicName p}) on the pruned release"
          | .ok t' => t := t'
        let mInflight := Dra.sortStr (t.inflight.map (fun (d, n, it) => d ++ "|" ++ n ++ "|" ++ it))
        let mByNC := Dra.sortStr (t.byNC.map (fun (n, it, d) => n ++ "|" ++ it ++ "|" ++ d))
        let mTemplate := Dra.sortStr (t.template.map (fun (n, it, d) => n ++ "|" ++ it ++ "|" ++ d))
        if mInflight != tr.inflight then modelWhy := some s!"op {i}: model holdings {mInflight}, real tracker {tr.inflight}"
        else if mByNC != tr.byNC then modelWhy := some s!"op {i}: model index {mByNC}, real tracker {tr.byNC}"
        else if mTemplate != tr.template then modelWhy := some s!"op {i}: model template holdings {mTemplate}, real tracker {tr.template}"
        else
          -- the budget model against the tracker's RemainingCounters
          let counters ← match fldOpt st "counters" with
            | some (.obj kvs) => kvs.toList.mapM (fun (k, v) => do pure (k, ← asInt v))
            | _ => pure []
          match budgets.find? (fun (pn, bst) => match counters.lookup pn with | none => false | some rem => rem != bst.remaining) with
          | some (pn, bst) => modelWhy := some s!"op {i}: budget model: {bst.remaining} of pool {pn}'s counter remain, the real tracker says {(counters.lookup pn).getD 0}"
          | none => pure ()
    seen := (seen ++ entries.map (·.claim)).eraseDups
    i := i + 1
  pure { allowed := some modelWhy.isNone, spec := some specWhy.isNone,
         why := (specWhy.getD "") ++ (match modelWhy with | some w => " | model: " ++ w | none => ""),
         extra := specWhy.map (fun w => jObj [("signature", jStr (allocClass w))]) }


/-! ## c17.drapass -/

def opDraPass (inp impl : Json) : Except String Resp := do
  let prealloc ← (match fldOpt inp "prealloc" with | none => pure [] | some v => strList v)
  let shared ← (match fldOpt inp "shared" with | none => pure [] | some v => listOf sharedJ v)
  let claims ← (match fldOpt inp "claims" with | none => pure [] | some v => listOf claimSpecJ v)
  let podClaims ← (match fldOpt inp "pods" with
    | none => pure []
    | some v => listOf (fun j => do pure ((← strF j "name"), ← (match fldOpt j "claims" with | none => pure [] | some c => strList c))) v)
  match fldOpt impl "err" with
  | some (.str e) => if e != "" then return { allowed := some true, spec := some true, why := "pass returned an error: " ++ e }
  | _ => pure ()
  if (fldOpt impl "panic").isSome then
    return { allowed := some false, spec := some false, why := "the scheduler panicked: " ++ (toString (fldOpt impl "panic").get!) }
  let entries ← (match fldOpt impl "meta" with | none => pure [] | some v => listOf entryJ v)
  let passClaims (k : String) : Except String (List Karp.Spec.DraExclusive.PassClaim) :=
    (match fldOpt impl k with
    | none => pure []
    | some v => listOf (fun j => do
        pure ({ host := ← strF j "host", pods := ← (match fldOpt j "pods" with | none => pure [] | some c => strList c),
                its := ← (match fldOpt j "instanceTypes" with | none => pure [] | some c => strList c) } : Karp.Spec.DraExclusive.PassClaim)) v)
  -- new NodeClaims and the existing nodes that received pods (host = the allocator's id of the node)
  let ncs := (← passClaims "claims") ++ (← passClaims "existing")
  -- partitionable pools: the node-local ones of the existing nodes and the others
  let nodePools ← (match fldOpt inp "nodes" with
    | none => pure []
    | some v => listOf (fun j => do
        let parts ← (match fldOpt j "parts" with | none => pure [] | some pv => listOf partJ pv)
        pure ({ name := "np-" ++ (← strF j "name"), slots := (← intO j "slots").getD 0, parts := parts } : Karp.Spec.DraExclusive.CPool)) v)
  let pools := (nodePools.filter (fun p => !p.parts.isEmpty)) ++ (← counterPools inp)
  let verdict := match Karp.Spec.DraExclusive.metaOK prealloc shared pools (← templatePools inp) claims entries with
    | some w => some w
    | none => Karp.Spec.DraExclusive.passComplete claims podClaims ncs entries
  let modelWhy := shareModelWhy shared claims entries
  pure { allowed := some modelWhy.isNone, spec := some verdict.isNone,
         why := verdict.getD "" ++ (match modelWhy with | some w => " | model: " ++ w | none => ""),
         extra := verdict.map (fun w => jObj [("signature", jStr ("drapass" ++ ((allocClass w).drop 5).toString))]) }

def handle : Handler := fun op inp impl =>
  match op with
  | "c17.rm" => opRM inp impl
  | "c17.claims" => opClaims inp impl
  | "c17.pass" => opPass inp impl
  | "c17.dra" => Dra.opDRA inp impl
  | "c17.alloc" => opAlloc inp impl
  | "c17.drapass" => opDraPass inp impl
  | _ => .error s!"unknown op {op}"

end Karp.Driver.C17
