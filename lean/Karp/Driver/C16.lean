import Karp.Driver.Proto
import Karp.Model.Reapers
import Karp.Spec.Reapers

namespace Karp.Driver.C16
open Lean Karp.Driver Karp.Reapers Karp.Spec.Reapers

/-- the harness's kube API error classes → the model's outcome classes: `notfound` (bare or wrapped — the
    apimachinery predicates use `errors.As`) is what `client.IgnoreNotFound` swallows, `conflict` what
    `IsConflict` sees; every other class is just an error -/
def parseFault (s : String) : Except String Fault :=
  match s with
  | "" => pure .none
  | "err" => pure .err
  | "notfound" | "notfound-wrapped" => pure .notFound
  | "conflict" => pure .conflict
  | "timeout" | "throttled" | "forbidden" | "unavailable" | "gone" | "nomatch" | "canceled" | "deadline" => pure .err
  | _ => .error s!"bad fault class {s}"

def faultD (j : Json) (k : String) : Except String Fault :=
  match fldOpt j k with
  | none => pure .none
  | some v => do parseFault (← asStr v)

def faultListD (j : Json) (k : String) : Except String (List Fault) := do
  (← arrD j k).mapM (fun v => do parseFault (← asStr v))

/-- condition status; `none` = the condition is absent from the object -/
def parseTri (s : String) : Except String (Option Tri) :=
  match s with
  | "True" => pure (some .true_)
  | "False" => pure (some .false_)
  | "Unknown" => pure (some .unknown)
  | "" => pure none
  | _ => .error s!"bad condition status {s}"

def outJson (o : Out) : Json :=
  jObj [("deletes", jNat o.deletes), ("requeueNs", jInt o.requeue), ("err", jBool o.err)]

/-! ### c16.expiration -/

/-- the frame of the decision (see `ExpFrame`): every other duration / instant / flag the harness put on the
    NodeClaim, its NodePool, its Node. All fields are optional in the input. -/
def parseExpFrame (inp : Json) : Except String ExpFrame := do
  let tgp ← intO inp "tgp"
  let poolPresent := (← strO inp "pool") == some "present"
  let mut durations : List (String × Int) := []
  let mut instants : List (String × Int) := []
  let mut flags : List String := []
  if poolPresent then
    flags := flags ++ ["nodepool present"]
    match ← intO inp "poolExpireAfter" with
    | some d => durations := durations ++ [("nodepool.expireAfter", d)]
    | none => flags := flags ++ ["nodepool.expireAfter = Never"]
    match ← intO inp "poolTgp" with
    | some d => durations := durations ++ [("nodepool.terminationGracePeriod", d)]
    | none => pure ()
  for c in ← arrD inp "conds" do
    instants := instants ++ [(s!"condition {← strF c "type"} ({← strF c "status"}) transition", ← intF c "at")]
  match ← intO inp "termAnnotSec" with
  | some t => instants := instants ++ [("termination-timestamp annotation", t * 1000000000)]
  | none => pure ()
  match ← intO inp "lastPodEvent" with
  | some t => instants := instants ++ [("status.lastPodEventTime", t)]
  | none => pure ()
  match ← strO inp "node" with
  | some "" | none => pure ()
  | some m =>
    flags := flags ++ [s!"node {m}"]
    match ← intO inp "nodeCreated" with
    | some t => instants := instants ++ [("Node creation", t)]
    | none => pure ()
  if ← boolD inp "doNotDisrupt" false then flags := flags ++ ["do-not-disrupt"]
  match ← natO inp "pods" with
  | some (n + 1) => flags := flags ++ [s!"{n + 1} pods"]
  | _ => pure ()
  pure { terminationGracePeriod := tgp, durations, instants, flags }

/-- diagnostics for an early Delete: which instants derived from the frame had the clock already reached?
    (`creation + expireAfter − x`, `creation + x` for a duration `x`; `t`, `t + expireAfter − …` make no sense
    for instants later than creation, so for an instant `t` just `t` itself.) -/
def reachedFrameInstants (i : ExpIn) (d : Int) : List String :=
  let durs := (match i.frame.terminationGracePeriod with
    | some g => [("terminationGracePeriod", g)] | none => []) ++ i.frame.durations
  (durs.filterMap (fun (n, g) =>
      if i.created + d - g ≤ i.now then some s!"creation + expireAfter - {n} ({n} = {g} ns)" else none)) ++
  (durs.filterMap (fun (n, g) =>
      if i.created + g ≤ i.now then some s!"creation + {n} ({n} = {g} ns)" else none)) ++
  (i.frame.instants.filterMap (fun (n, t) => if t ≤ i.now then some s!"{n}" else none))

def expirationOp (inp impl : Json) : Except String Resp := do
  let i : ExpIn := {
    managed := ← boolF inp "managed", deleting := ← boolF inp "deleting",
    expireAfter := ← intO inp "expireAfter", created := ← intF inp "created", now := ← intF inp "now",
    deleteFault := ← faultD inp "deleteFault", frame := ← parseExpFrame inp }
  let m := expiration i
  let deletes ← natF impl "deletes"
  let ok := deletes == 0 || expirationMayDelete i.expireAfter i.created i.now
  let why := if ok then "" else
    match i.expireAfter with
    | none => "expiration issued a Delete although expiry is disabled (expireAfter = Never)"
    | some d =>
      s!"expiration issued a Delete {i.created + d - i.now} ns before creation + expireAfter (expireAfter = {d} ns, clock at creation + {i.now - i.created} ns)" ++
      (match reachedFrameInstants i d with
       | [] => ""
       | l => "; nothing but creation + expireAfter may trigger it - the clock had only reached: " ++ "; ".intercalate l)
  pure { model := some (outJson m), spec := some ok, why := why }

/-! ### c16.gc, c16.gc_lookup -/

def sortStrings (l : List String) : List String := (l.toArray.qsort (· < ·)).toList

def parseGC (inp : Json) : Except String GCIn := do
  let claims ← (← arrD inp "claims").mapM (fun j => do
    let reg := (← parseTri (← strF j "registered")).getD .unknown
    pure ({ name := ← strF j "name", pid := ← strF j "pid", registered := reg,
            deleting := ← boolF j "deleting", managed := ← boolF j "managed" } : Claim))
  let provider ← (← arrD inp "provider").mapM (fun j => do
    pure ({ pid := ← strF j "pid", deleting := ← boolF j "deleting" } : Inst))
  let nodes ← (← arrD inp "nodes").mapM (fun j => do
    pure ({ name := ← strF j "name", pid := ← strF j "pid", ready := (← strF j "ready") == "True",
            terminating := ← boolD j "terminating" false } : GNode))
  let dfs ← (← arrD inp "deleteFaults").mapM (fun j => do
    pure ((← strF j "name"), (← parseFault (← strF j "fault"))))
  let lf ← (← arrD inp "nodeListFaultPids").mapM asStr
  let orErr (o : Option String) : String := match o with | some "" | none => "err" | some s => s
  let errs : GCErrFrame := {
    listClaims := orErr (← strO inp "listClaimsErr"), providerList := orErr (← strO inp "providerListErr"),
    providerListPartial := ← boolD inp "providerListPartial" false, lookup := orErr (← strO inp "nodeListErr") }
  pure { claims, provider, nodes, listClaimsFault := ← boolD inp "listClaimsFault" false,
         providerListFault := ← boolD inp "providerListFault" false, lookupFault := lf, deleteFaults := dfs, errs }

def gcOp (inp impl : Json) : Except String Resp := do
  let i ← parseGC inp
  let (del, err) := gc i
  let model := jObj [("deleted", jArr ((sortStrings del).map jStr)), ("err", jBool err)]
  let got ← (← arrD impl "deleted").mapM asStr
  let bad := got.filter (fun d => !(i.claims.any (fun c => c.name == d && gcMayDelete i c)))
  let why := match bad with
    | [] => ""
    | d :: _ =>
      match i.claims.find? (fun c => c.name == d) with
      | none => s!"garbage collection deleted {d}, which is not one of the NodeClaims"
      | some c =>
        let reasons :=
          (if c.registered != .true_ then ["it is not Registered"] else []) ++
          (if i.listClaimsFault then [s!"the NodeClaim list failed (error class '{i.errs.listClaims}')"] else []) ++
          (if i.providerListFault then
             [s!"cloudProvider.List failed (error class '{i.errs.providerList}'" ++
              (if i.errs.providerListPartial then ", next to a partial result" else "") ++
              "): that the provider no longer lists its instance was not established - a failed List is not an empty List, whatever the type of its error" ++
              (if i.provider.any (fun p => p.pid == c.pid && !p.deleting) then "; the instance in fact still exists" else "")]
           else if !providerLacks i c then ["the provider still lists its instance"] else []) ++
          (if !nodeAbsentOrNotReady i c then
            [if i.lookupFault.contains c.pid then s!"its Node could not be looked up (error class '{i.errs.lookup}'; absent / not Ready was not established)"
             else if i.nodes.any (fun n => n.pid == c.pid && n.ready && !n.terminating) then "a Node with its provider id is Ready"
             else "a Node with its provider id is Ready (it carries a deletion timestamp, but it is still present)"] else [])
        s!"garbage collection deleted NodeClaim {d} although " ++ "; ".intercalate reasons
  pure { model := some model, spec := some bad.isEmpty, why := why }

/-! ### c16.liveness -/

def parsePool (s : String) : Except String Pool :=
  match s with
  | "" => pure .none
  | "missing" => pure .missing
  | "owned" => pure .owned
  | "foreign" => pure .foreign
  | _ => .error s!"bad pool mode {s}"

def livenessOp (inp impl : Json) : Except String Resp := do
  let created ← intF inp "created"
  -- an absent dependent condition reads as Unknown since creation
  let (launched, launchedAt) ← match ← parseTri (← strF inp "launched") with
    | some t => do pure (t, ← intF inp "launchedAt")
    | none => pure (Tri.unknown, created)
  let (registered, registeredAt) ← match ← parseTri (← strF inp "registered") with
    | some t => do pure (t, ← intF inp "registeredAt")
    | none => pure (Tri.unknown, created)
  let prior ← (← arrD inp "prior").mapM asBool
  let i : LiveIn := {
    managed := ← boolF inp "managed", deleting := ← boolF inp "deleting",
    launched, launchedAt, registered, registeredAt, now := ← intF inp "now",
    createOk := (← strF inp "createOutcome") == "ok",
    pool := ← parsePool (← strF inp "pool"),
    poolCondFalse := (← strF inp "poolCond") == "False",
    prior, getFaults := ← faultListD inp "getFaults", patchFaults := ← faultListD inp "patchFaults",
    deleteFaults := ← faultListD inp "deleteFaults" }
  let m := lifecycle i
  let model := jObj [("deletes", jNat m.deletes), ("err", jBool m.err)]
  let deletes ← natF impl "deletes"
  let ok := deletes == 0 ||
    livenessMayDelete documentedLaunchTimeout documentedRegistrationTimeout i.launched i.launchedAt i.registered i.registeredAt i.now
  let why := if ok then "" else
    s!"liveness issued a Delete although neither timeout has passed (Launched: {repr i.launched} for {i.now - i.launchedAt} ns, Registered: {repr i.registered} for {i.now - i.registeredAt} ns)"
  pure { model := some model, spec := some ok, why := why }

/-! ### c16.repair -/

def parseRNode (j : Json) : Except String RNode := do
  let conds ← (← arrD j "conds").mapM (fun c => do
    pure ({ type := ← strF c "type", status := ← strF c "status", since := ← intF c "since" } : NCond))
  pure { pool := ← strF j "pool", conds, terminating := ← boolD j "terminating" false }

def repairOp (inp impl : Json) : Except String Resp := do
  let policies ← (← arrD inp "policies").mapM (fun p => do
    pure ({ type := ← strF p "type", status := ← strF p "status", toleration := ← intF p "tolerationNs" } : Policy))
  let claims ← match ← strF inp "claims" with
    | "one" => pure 1
    | "none" => pure 0
    | "dup" => pure 2
    | s => throw s!"bad claims {s}"
  let annot ← match ← strF inp "annot" with
    | "" => pure Annot.none
    | "time" => do pure (Annot.time (← intF inp "annotSec"))
    | "garbage" => pure Annot.garbage
    | s => throw s!"bad annot {s}"
  let cp ← strF inp "claimPool"
  let i : RepairIn := {
    policies, node := ← parseRNode (← fld inp "node"), claims,
    claimPool := if cp == "" then none else some cp,
    claimDeleting := ← boolF inp "claimDeleting", annot,
    others := ← (← arrD inp "others").mapM parseRNode, now := ← intF inp "now",
    claimListFault := ← boolD inp "claimListFault" false,
    nodeListFault := ← faultD inp "nodeListFault", patchFault := ← faultD inp "patchFault",
    deleteFault := ← faultD inp "deleteFault" }
  if policies.any (fun p => p.status == "") then throw "policy with an empty status is outside the model"
  let (m, br) := repairB i
  let deletes ← natF impl "deletes"
  let requeue ← intF impl "requeueNs"
  let err ← boolF impl "err"
  -- the length of the back-off when the breaker is open is not part of the property: any positive delay
  let requeueOk := match br with
    | .wait => requeue == m.requeue
    | .blocked => requeue > 0
    | _ => requeue == 0
  let allowed := deletes == m.deletes && err == m.err && requeueOk
  let ok := deletes == 0 || repairMayDelete documentedUnhealthyPercent i
  let why :=
    if !ok then
      (if !tolerationLasted i.policies i.node.conds i.now then "node repair issued a Delete before any unhealthy condition lasted its toleration"
       else if i.nodeListFault != .none then "node repair issued a Delete although the pool's nodes could not be listed"
       else s!"node repair issued a Delete although {((breakerNodes i).filter (nodeUnhealthy i.policies)).length} of {(breakerNodes i).length} nodes are unhealthy (more than {documentedUnhealthyPercent}% rounded up; {((breakerNodes i).filter (fun n => nodeUnhealthy i.policies n && n.terminating)).length} of the unhealthy nodes are terminating but still present)")
    else if !allowed then s!"model: {(outJson m).compress} branch {repr br}"
    else ""
  pure { allowed := some allowed, spec := some ok, why := why, extra := some (outJson m) }

/-! ### c16.repair_seq -/

def parseSNode (j : Json) : Except String SNode := do
  let cp ← strF j "claimPool"
  pure { node := ← parseRNode j, present := true, hasClaim := !(← boolD j "noClaim" false),
         claimPool := if cp == "" then none else some cp, claimDeleting := ← boolD j "claimDeleting" false }

def parseEvent (j : Json) : Except String REvent := do
  let k ← natF j "k"
  match ← strF j "op" with
  | "reconcile" => pure (.reconcile k (← intF j "now") (← faultD j "nodeListFault") (← faultD j "deleteFault"))
  | "cond" => pure (.setCond k { type := ← strF j "type", status := ← strF j "status", since := ← intF j "since" })
  | "terminate" => pure (.terminate k)
  | "gone" => pure (.gone k)
  | s => throw s!"bad event {s}"

def isReconcile : REvent → Bool
  | .reconcile .. => true
  | _ => false

/-- does what the controller was seen to do in one reconcile agree with the model's step? -/
def stepAgrees (m : Option (RepairIn × Out × RBranch)) (deletes : Nat) (requeue : Int) (err : Bool) : Bool :=
  match m with
  | none => deletes == 0 && requeue == 0 && !err          -- the Node is gone: nothing to reconcile
  | some (_, o, br) =>
    deletes == o.deletes && err == o.err &&
      (match br with
       | .wait => requeue == o.requeue
       | .blocked => requeue > 0
       | _ => requeue == 0)

/-- the specification on what the controller did, the cluster state tracked from the Deletes it really issued:
    (index of the first reconcile that issued a forbidden Delete, explanation) -/
def seqSpec (ps : List Policy) : List SNode → List REvent → List (Nat × Int × Bool) → Nat → Option (Nat × String)
  | _, [], _, _ => none
  | st, ev :: rest, steps, n =>
    match ev with
    | .reconcile k now nlf df =>
      match steps with
      | [] => none
      | (deletes, _, _) :: steps' =>
        let i? := seqIn ps st k now nlf df
        let ok := deletes == 0 || (match i? with | some i => repairMayDelete documentedUnhealthyPercent i | none => false)
        if !ok then
          let why := match i? with
            | none => s!"reconcile #{n} (node {k}): node repair issued a Delete for a Node that no longer exists"
            | some i =>
              if !tolerationLasted i.policies i.node.conds i.now then s!"reconcile #{n} (node {k}): node repair issued a Delete before any unhealthy condition lasted its toleration"
              else if i.nodeListFault != .none then s!"reconcile #{n} (node {k}): node repair issued a Delete although the pool's nodes could not be listed"
              else s!"reconcile #{n} (node {k}): node repair issued a Delete although {((breakerNodes i).filter (nodeUnhealthy i.policies)).length} of {(breakerNodes i).length} nodes are unhealthy at that moment (more than {documentedUnhealthyPercent}% rounded up; {((breakerNodes i).filter (fun n => nodeUnhealthy i.policies n && n.terminating)).length} of the unhealthy nodes are terminating but still present)"
          some (n, why)
        else seqSpec ps (applyEvent st ev (deletes > 0 && df == .none)) rest steps' (n + 1)
    | _ => seqSpec ps (applyEvent st ev false) rest steps n

def repairSeqOp (inp impl : Json) : Except String Resp := do
  let policies ← (← arrD inp "policies").mapM (fun p => do
    pure ({ type := ← strF p "type", status := ← strF p "status", toleration := ← intF p "tolerationNs" } : Policy))
  if policies.any (fun p => p.status == "") then throw "policy with an empty status is outside the model"
  let st ← (← arrD inp "nodes").mapM parseSNode
  let evs ← (← arrD inp "events").mapM parseEvent
  let steps ← (← arrD impl "steps").mapM (fun j => do
    pure ((← natF j "deletes"), (← intF j "requeueNs"), (← boolF j "err")))
  let tr := ((evs.zip (runSeq policies st evs)).filter (fun p => isReconcile p.1)).map (·.2)
  if tr.length != steps.length then throw s!"{steps.length} steps reported for {tr.length} reconcile events"
  let cmp := (tr.zip steps).map (fun (m, (d, rq, e)) => stepAgrees m d rq e)
  let allowed := cmp.all id
  let modelJson := jArr (tr.map (fun m => match m with
    | none => jObj [("gone", jBool true)]
    | some (_, o, br) => jObj [("deletes", jNat o.deletes), ("requeueNs", jInt o.requeue), ("err", jBool o.err), ("branch", jStr (toString (repr br)))]))
  let bad := seqSpec policies st evs steps 0
  let why := match bad with
    | some (_, w) => w
    | none => if allowed then "" else s!"model and controller differ at reconcile #{(cmp.takeWhile id).length}"
  pure { allowed := some allowed, spec := some bad.isNone, why := why, extra := some modelJson }

/-! ### c16.repair_target -/

def parseTClaim (j : Json) : Except String TClaim := do
  let pool ← strF j "pool"
  pure { name := ← strF j "name", pid := ← strF j "pid", pool := if pool == "" then none else some pool,
         deleting := ← boolD j "deleting" false }

def repairTargetOp (inp impl : Json) : Except String Resp := do
  let policies ← (← arrD inp "policies").mapM (fun p => do
    pure ({ type := ← strF p "type", status := ← strF p "status", toleration := ← intF p "tolerationNs" } : Policy))
  if policies.any (fun p => p.status == "") then throw "policy with an empty status is outside the model"
  let nodeJ ← fld inp "node"
  let i : RepairTIn := {
    policies, node := ← parseRNode nodeJ, nodePid := ← strF nodeJ "pid",
    claims := ← (← arrD inp "claims").mapM parseTClaim,
    others := ← (← arrD inp "others").mapM parseRNode, now := ← intF inp "now",
    claimListFault := (← faultD inp "claimListFault") != .none,
    nodeListFault := ← faultD inp "nodeListFault", patchFault := ← faultD inp "patchFault",
    deleteFault := ← faultD inp "deleteFault" }
  let names := i.claims.map (·.name)
  if names.eraseDups.length != names.length then throw "NodeClaim names must be distinct"
  let m := repairT i
  let deleted ← (← arrD impl "deleted").mapM asStr
  let patched ← (← arrD impl "patched").mapM asStr
  let requeue ← intF impl "requeueNs"
  let err ← boolF impl "err"
  let requeueOk := match m.branch with
    | .wait => requeue == m.out.requeue
    | .blocked => requeue > 0
    | _ => requeue == 0
  let allowed := deleted == m.deleted && patched == m.patched && err == m.out.err && requeueOk
  let bad := deleted.filter (fun d => !repairTargetMayDelete documentedUnhealthyPercent i d)
  let modelJson := jObj [("deleted", jArr (m.deleted.map jStr)), ("patched", jArr (m.patched.map jStr)),
    ("requeueNs", jInt m.out.requeue), ("err", jBool m.out.err), ("branch", jStr (toString (repr m.branch)))]
  let why := match bad with
    | d :: _ =>
      (match i.claims.find? (fun c => c.name == d) with
       | none => s!"node repair deleted {d}, which is not one of the NodeClaims"
       | some c =>
         if !claimIsOfNode i.nodePid c then
           s!"node repair, reconciling a Node with " ++ (if i.nodePid == "" then "no provider id" else s!"provider id {i.nodePid}") ++
           s!", issued a Delete for NodeClaim {d} which is not that Node's NodeClaim (" ++
           (if c.pid == "" then "it has no provider id yet: it is still launching, has no Node and no unhealthy condition"
            else s!"its provider id is {c.pid}") ++ ")"
         else if !tolerationLasted i.policies i.node.conds i.now then s!"node repair issued a Delete for {d} before any unhealthy condition of its Node lasted its toleration"
         else if i.nodeListFault != .none then s!"node repair issued a Delete for {d} although the pool's nodes could not be listed"
         else s!"node repair issued a Delete for {d} although {((breakerNodes (i.view c)).filter (nodeUnhealthy i.policies)).length} of {(breakerNodes (i.view c)).length} nodes are unhealthy (more than {documentedUnhealthyPercent}% rounded up)")
    | [] => if allowed then "" else s!"model: {modelJson.compress}"
  let sig := match bad with
    | d :: _ =>
      (match i.claims.find? (fun c => c.name == d) with
       | some c => if claimIsOfNode i.nodePid c then "repair_target" else "repair_target:foreign-claim"
       | none => "repair_target:foreign-claim")
    | [] => "repair_target"
  pure { allowed := some allowed, spec := some bad.isEmpty, why := why,
         extra := some (jObj [("signature", jStr sig), ("model", modelJson)]) }

def handle : Handler := fun op inp impl =>
  match op with
  | "c16.expiration" => expirationOp inp impl
  | "c16.gc" => gcOp inp impl
  | "c16.gc_lookup" => gcOp inp impl
  | "c16.liveness" => livenessOp inp impl
  | "c16.repair" => repairOp inp impl
  | "c16.repair_seq" => repairSeqOp inp impl
  | "c16.repair_target" => repairTargetOp inp impl
  | _ => .error s!"unknown op {op}"

end Karp.Driver.C16
