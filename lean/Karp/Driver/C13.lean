import Karp.Driver.ReqJson
import Karp.Model.Template

namespace Karp.Driver.C13
open Lean Karp.Driver Karp.Driver.ReqJson Karp.Req Karp.Spec.K8s

def selJson (s : Sel) : Json :=
  jObj [("key", jStr s.key), ("op", jStr (opName s.op)), ("values", jArr ((canonVals s.values).map jStr)),
        ("minValues", jOptInt s.minValues)]

def parseSel (j : Json) : Except String Sel := do
  pure { key := ← strF j "key", op := parseOp (← strF j "op"), values := ← strList (← fld j "values"),
         minValues := ← intO j "minValues" }

def selMatches (sels : List Sel) (v : Val) : Bool := sels.all (fun s => k8sMatch s.op s.values (some v))

/-- `c13.roundtrip`: one key; in-memory requirement = intersection of the expressions; serialise; parse back. -/
def opRoundtrip (inp impl : Json) : Except String Resp := do
  let key ← strF inp "key"
  let es ← (← arrF inp "exprs").mapM parseExpr
  let probes ← strList (← fld inp "probes")
  let panicResp : Resp := { model := some (jObj [("panic", jStr "index-out-of-range")]), spec := some true }
  let r ← match build key es with | .ok r => pure r | .error "panic" => return panicResp | .error e => throw e
  let sels := r.toSelectors
  let back ← match fromSelectors sels with
    | .ok (some b) => pure b
    | _ => throw "model: serialised entries do not parse back"
  let model := jObj [("mem", snap r), ("sels", jArr (sels.map selJson)), ("back", snap back),
    ("hasMem", jArr (probes.map (fun v => jBool (r.has v)))), ("hasBack", jArr (probes.map (fun v => jBool (back.has v))))]
  let res : Except String (Bool × String) := do
    let hM ← boolList (← fld impl "hasMem")
    let hB ← boolList (← fld impl "hasBack")
    let isels ← (← arrF impl "sels").mapM parseSel
    let rows := probes.zip (hM.zip hB)
    -- (1) parsed-back requirement admits exactly what the in-memory requirement admits
    match rows.find? (fun (_, a, b) => a != b) with
    | some (v, a, _) => return (false, s!"value {v.quote}: in-memory requirement admits = {a}, the requirement parsed back from the written entries admits = {!a}")
    | none => pure ()
    -- (2) the written entries, read with Kubernetes semantics, admit exactly the same values
    match rows.find? (fun (v, a, _) => a != selMatches isels v) with
    | some (v, a, _) => return (false, s!"value {v.quote}: in-memory requirement admits = {a}, but the written node-selector entries (Kubernetes semantics) admit = {!a}")
    | none => pure ()
    -- (3) minValues preserved on the parsed-back requirement and carried by every entry
    let mvM ← intO (← fld impl "mem") "minValues"
    let mvB ← intO (← fld impl "back") "minValues"
    if mvM != mvB then return (false, "minValues changed across serialisation")
    if isels.any (fun s => s.minValues != mvM) then return (false, "an emitted entry does not carry the requirement's minValues")
    pure (true, "")
  let (ok, why) := match res with
    | .ok x => x
    | .error e => (false, "implementation output unusable (panic?): " ++ e)
  pure { model := some model, spec := some ok, why := why }

/-- `c13.any`: relational. impl = {"outs": [..]} (n calls of Any()) or {"panic": ..} -/
def opAny (inp impl : Json) : Except String Resp := do
  let key ← strF inp "key"
  let es ← (← arrF inp "exprs").mapM parseExpr
  let r ← match build key es with
    | .ok r => pure r
    | .error "panic" => return { allowed := some ((fldOpt impl "panic").isSome), spec := some true, why := "constructor panics (no operand)" }
    | .error e => throw e
  match fldOpt impl "outs" with
  | none =>
    -- the real code panicked: never allowed by the relation; and "building never panics" is the property
    pure { allowed := some false, spec := some false, why := "Requirement.Any() panicked" }
  | some o => do
    let outs ← strList o
    let bad := outs.find? (fun v => !r.anyAllowed v)
    let badSpec := if allValid es then outs.find? (fun v => v != "" && !specHas es v) else none
    pure { allowed := some bad.isNone,
           spec := some badSpec.isNone,
           why := match badSpec, bad with
             | some v, _ => s!"Any() returned {v.quote}, which the requirement's own expressions reject (Kubernetes semantics)"
             | none, some v => s!"Any() returned {v.quote}, not an outcome of the model relation"
             | none, none => "" }

/-- `c13.template`: spec-level checks of a real `ToNodeClaim()` result against the template. -/
def opTemplate (inp impl : Json) : Except String Resp := do
  if (fldOpt impl "invalid").isSome then
    return { allowed := some true, spec := some true, why := "NodePool rejected by validation (outside the property's domain)" }
  let res : Except String (Bool × String) := do
    if (fldOpt impl "panic").isSome then return (false, "ToNodeClaim panicked for a NodePool that passes validation")
    let tmplLabels ← (← arrF inp "labels").mapM (fun j => do pure ((← strF j "k"), (← strF j "v")))
    let npName ← strF inp "name"
    let labels ← (← arrF impl "labels").mapM (fun j => do pure ((← strF j "k"), (← strF j "v")))
    let keysJ ← arrF impl "keys"
    -- per key: in-memory snapshot, written entries, probes and both Has rows
    for kj in keysJ do
      let k ← strF kj "key"
      let probes ← strList (← fld kj "probes")
      let hM ← boolList (← fld kj "hasMem")
      let hB ← boolList (← fld kj "hasBack")
      let isels ← (← arrF kj "sels").mapM parseSel
      if Karp.Template.simulationKeys.contains k then
        if !isels.isEmpty then return (false, s!"simulation-only key {k} was written to the NodeClaim")
      else
        let rows := probes.zip (hM.zip hB)
        match rows.find? (fun (v, a, b) => a != b || a != selMatches isels v) with
        | some (v, a, _) => return (false, s!"key {k}, value {v.quote}: scheduler admits = {a} but the written NodeClaim requirement does not agree")
        | none => pure ()
        let mvM ← intO kj "mvMem"
        let mvB ← intO kj "mvBack"
        if mvM != mvB then return (false, s!"key {k}: minValues changed")
      -- a materialised custom label must be admitted by the in-memory requirement
      match labels.lookup k with
      | some v =>
        let idx := probes.idxOf v
        if Karp.Template.customKey k && idx < probes.length && !(hM.getD idx true) then
          return (false, s!"label {k}={v} written on the NodeClaim is rejected by the NodeClaim's own requirement")
      | none => pure ()
    -- template labels survive; nodepool label
    for (k, v) in tmplLabels do
      match labels.lookup k with
      | some v' => if v' != v && !(Karp.Template.customKey k) then return (false, s!"template label {k} changed")
      | none => return (false, s!"template label {k} missing on the NodeClaim")
    if labels.lookup Karp.Gen.Labels.nodePoolLabelKey != some npName then return (false, "nodepool label missing or wrong")
    -- taints / hash
    if !(jsonEq (← fld impl "taints") (← fld inp "taints")) then return (false, "taints differ from the template")
    if !(jsonEq (← fld impl "startupTaints") (← fld inp "startupTaints")) then return (false, "startup taints differ from the template")
    if (← strF impl "hash") != (← strF impl "expectHash") then return (false, "nodepool-hash annotation is not the NodePool's hash")
    if (← strF impl "hashVersion") != Karp.Gen.Template.nodePoolHashVersion then return (false, "hash version annotation wrong")
    -- instance types: subset of options, at most MaxInstanceTypes
    let its ← strList (← fld impl "instanceTypes")
    let opts ← strList (← fld impl "options")
    if its.any (fun i => !opts.contains i) then return (false, "instance-type requirement names a type outside the scheduler's options")
    if its.length > Karp.Gen.Template.maxInstanceTypes then return (false, "more than MaxInstanceTypes instance types")
    pure (true, "")
  let (ok, why) := match res with
    | .ok x => x
    | .error e => (false, "implementation output unusable: " ++ e)
  pure { allowed := some true, spec := some ok, why := why }

def handle : Handler := fun op inp impl =>
  match op with
  | "c13.roundtrip" => opRoundtrip inp impl
  | "c13.any" => opAny inp impl
  | "c13.template" => opTemplate inp impl
  | _ => .error s!"unknown op {op}"

end Karp.Driver.C13
