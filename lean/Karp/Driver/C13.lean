import Karp.Driver.ReqJson
import Karp.Driver.ScenarioJson
import Karp.Spec.Admissible
import Karp.Model.Template

namespace Karp.Driver.C13
open Lean Karp.Driver Karp.Driver.ReqJson Karp.Req Karp.Spec.K8s

def selJson (s : Sel) : Json :=
  jObj [("key", jStr s.key), ("op", jStr (opName s.op)), ("values", jArr ((canonVals s.values).map jStr)),
        ("minValues", jOptInt s.minValues)]

def parseSel (j : Json) : Except String Sel := do
  pure { key := ← strF j "key", op := parseOp (← strF j "op"), values := ← strList (← fld j "values"),
         minValues := ← intO j "minValues" }

def selMatches (sels : List Sel) (v : Val) : Bool := sels.all (fun s => k8sMatch s.op s.values (some v))

/-- `c13.roundtrip`: one key; in-memory requirement = intersection of the expressions; serialise; parse back. -/
def opRoundtrip (inp impl : Json) : Except String Resp := do
  let key ← strF inp "key"
  let es ← (← arrF inp "exprs").mapM parseExpr
  let probes ← strList (← fld inp "probes")
  let panicResp : Resp := { model := some (jObj [("panic", jStr "index-out-of-range")]), spec := some true }
  let r ← match build key es with | .ok r => pure r | .error "panic" => return panicResp | .error e => throw e
  let sels := r.toSelectors
  let back ← match fromSelectors sels with
    | .ok (some b) => pure b
    | _ => throw "model: serialised entries do not parse back"
  let model := jObj [("mem", snap r), ("sels", jArr (sels.map selJson)), ("back", snap back),
    ("hasMem", jArr (probes.map (fun v => jBool (r.has v)))), ("hasBack", jArr (probes.map (fun v => jBool (back.has v))))]
  let res : Except String (Bool × String) := do
    let hM ← boolList (← fld impl "hasMem")
    let hB ← boolList (← fld impl "hasBack")
    let isels ← (← arrF impl "sels").mapM parseSel
    let rows := probes.zip (hM.zip hB)
    -- (1) parsed-back requirement admits exactly what the in-memory requirement admits
    match rows.find? (fun (_, a, b) => a != b) with
    | some (v, a, _) => return (false, s!"value {v.quote}: in-memory requirement admits = {a}, the requirement parsed back from the written entries admits = {!a}")
    | none => pure ()
    -- (2) the written entries, read with Kubernetes semantics, admit exactly the same values
    match rows.find? (fun (v, a, _) => a != selMatches isels v) with
    | some (v, a, _) => return (false, s!"value {v.quote}: in-memory requirement admits = {a}, but the written node-selector entries (Kubernetes semantics) admit = {!a}")
    | none => pure ()
    -- (3) minValues preserved on the parsed-back requirement and carried by every entry
    let mvM ← intO (← fld impl "mem") "minValues"
    let mvB ← intO (← fld impl "back") "minValues"
    if mvM != mvB then return (false, "minValues changed across serialisation")
    if isels.any (fun s => s.minValues != mvM) then return (false, "an emitted entry does not carry the requirement's minValues")
    pure (true, "")
  let (ok, why) := match res with
    | .ok x => x
    | .error e => (false, "implementation output unusable (panic?): " ++ e)
  pure { model := some model, spec := some ok, why := why }

/-- `c13.any`: relational. impl = {"outs": [..]} (n calls of Any()) or {"panic": ..} -/
def opAny (inp impl : Json) : Except String Resp := do
  let key ← strF inp "key"
  let es ← (← arrF inp "exprs").mapM parseExpr
  let r ← match build key es with
    | .ok r => pure r
    | .error "panic" => return { allowed := some ((fldOpt impl "panic").isSome), spec := some true, why := "constructor panics (no operand)" }
    | .error e => throw e
  match fldOpt impl "outs" with
  | none =>
    -- the real code panicked: never allowed by the relation; and "building never panics" is the property
    pure { allowed := some false, spec := some false, why := "Requirement.Any() panicked" }
  | some o => do
    let outs ← strList o
    let bad := outs.find? (fun v => !r.anyAllowed v)
    let badSpec := if allValid es then outs.find? (fun v => v != "" && !specHas es v) else none
    pure { allowed := some bad.isNone,
           spec := some badSpec.isNone,
           why := match badSpec, bad with
             | some v, _ => s!"Any() returned {v.quote}, which the requirement's own expressions reject (Kubernetes semantics)"
             | none, some v => s!"Any() returned {v.quote}, not an outcome of the model relation"
             | none, none => "" }

/-- `c13.template`: spec-level checks of a real `ToNodeClaim()` result against the template. -/
def opTemplate (inp impl : Json) : Except String Resp := do
  if (fldOpt impl "invalid").isSome then
    return { allowed := some true, spec := some true, why := "NodePool rejected by validation (outside the property's domain)" }
  let res : Except String (Bool × String) := do
    if (fldOpt impl "panic").isSome then return (false, "ToNodeClaim panicked for a NodePool that passes validation")
    let tmplLabels ← (← arrF inp "labels").mapM (fun j => do pure ((← strF j "k"), (← strF j "v")))
    let npName ← strF inp "name"
    let labels ← (← arrF impl "labels").mapM (fun j => do pure ((← strF j "k"), (← strF j "v")))
    let keysJ ← arrF impl "keys"
    -- per key: in-memory snapshot, written entries, probes and both Has rows
    for kj in keysJ do
      let k ← strF kj "key"
      let probes ← strList (← fld kj "probes")
      let hM ← boolList (← fld kj "hasMem")
      let hB ← boolList (← fld kj "hasBack")
      let isels ← (← arrF kj "sels").mapM parseSel
      if Karp.Template.simulationKeys.contains k then
        if !isels.isEmpty then return (false, s!"simulation-only key {k} was written to the NodeClaim")
      else
        let rows := probes.zip (hM.zip hB)
        match rows.find? (fun (v, a, b) => a != b || a != selMatches isels v) with
        | some (v, a, _) => return (false, s!"key {k}, value {v.quote}: scheduler admits = {a} but the written NodeClaim requirement does not agree")
        | none => pure ()
        let mvM ← intO kj "mvMem"
        let mvB ← intO kj "mvBack"
        if mvM != mvB then return (false, s!"key {k}: minValues changed")
      -- a materialised custom label must be admitted by the in-memory requirement
      match labels.lookup k with
      | some v =>
        let idx := probes.idxOf v
        if Karp.Template.customKey k && idx < probes.length && !(hM.getD idx true) then
          return (false, s!"label {k}={v} written on the NodeClaim is rejected by the NodeClaim's own requirement")
      | none => pure ()
    -- template labels survive; nodepool label
    for (k, v) in tmplLabels do
      match labels.lookup k with
      | some v' => if v' != v && !(Karp.Template.customKey k) then return (false, s!"template label {k} changed")
      | none => return (false, s!"template label {k} missing on the NodeClaim")
    if labels.lookup Karp.Gen.Labels.nodePoolLabelKey != some npName then return (false, "nodepool label missing or wrong")
    -- taints / hash
    if !(jsonEq (← fld impl "taints") (← fld inp "taints")) then return (false, "taints differ from the template")
    if !(jsonEq (← fld impl "startupTaints") (← fld inp "startupTaints")) then return (false, "startup taints differ from the template")
    if (← strF impl "hash") != (← strF impl "expectHash") then return (false, "nodepool-hash annotation is not the NodePool's hash")
    if (← strF impl "hashVersion") != Karp.Gen.Template.nodePoolHashVersion then return (false, "hash version annotation wrong")
    -- instance types: subset of options, at most MaxInstanceTypes
    let its ← strList (← fld impl "instanceTypes")
    let opts ← strList (← fld impl "options")
    if its.any (fun i => !opts.contains i) then return (false, "instance-type requirement names a type outside the scheduler's options")
    if its.length > Karp.Gen.Template.maxInstanceTypes then return (false, "more than MaxInstanceTypes instance types")
    pure (true, "")
  let (ok, why) := match res with
    | .ok x => x
    | .error e => (false, "implementation output unusable: " ++ e)
  pure { allowed := some true, spec := some ok, why := why }

section Launch
open Karp.Scn Karp.Driver.ScenarioJson Karp.Spec.Admissible

/-- `c13.launch`: every NodeClaim written by the real Provisioner vs the in-memory NodeClaim it came from -/
def opLaunch (inp impl : Json) : Except String Resp := do
  let s ← scenario inp
  let maxIT := match fldOpt inp "maxInstanceTypes" with
    | some j => match j.getNat? with | .ok 0 => Karp.Gen.Template.maxInstanceTypes | .ok n => n | _ => Karp.Gen.Template.maxInstanceTypes
    | none => Karp.Gen.Template.maxInstanceTypes
  if (fldOpt impl "err").isSome then return { allowed := some true, spec := some true, why := "pass returned an error" }
  let res : Except String (Bool × String) := do
    if (fldOpt impl "panic").isSome then return (false, "scheduling / NodeClaim creation panicked")
    let claims ← arrF impl "claims"
    for cj in claims do
      let mem ← claim (← fld cj "mem")
      let pool ← match s.pool? mem.pool with | some p => pure p | none => throw "unknown pool"
      match fldOpt cj "written" with
      | none => pure ()   -- creation refused (limits): nothing was written
      | some wj =>
        let labels ← (← arrF wj "labels").mapM (fun j => do pure ((← strF j "k"), (← strF j "v")))
        let sels ← (← arrF wj "sels").mapM parseSel
        let pods := mem.pods.filterMap s.pod?
        let cands := (scenarioCandidates s { existing := [], claims := [mem], errors := [] }) ++ labels.map (·.2)
        -- (1) instance types: subset of the scheduler's options, capped, minValues floor kept under the strict policy
        let its := (sels.filter (fun x => x.key == "node.kubernetes.io/instance-type" && x.op == .in_)).flatMap (·.values)
        if pool.name != "" then
          if its.isEmpty then return (false, s!"claim for {mem.pods}: no instance-type requirement was written")
          if its.any (fun i => !mem.its.contains i) then return (false, s!"claim for {mem.pods}: written instance types are not a subset of the scheduler's options")
          if its.eraseDups.length > maxIT then return (false, s!"claim for {mem.pods}: more than MaxInstanceTypes ({maxIT}) instance types written")
          match (mem.reqs.get "node.kubernetes.io/instance-type").minValues with
          | some m =>
            if !s.bestEffortMinValues && (its.eraseDups.length : Int) < m then
              return (false, s!"claim for {mem.pods}: {its.eraseDups.length} instance types written but minValues is {m} (strict policy)")
          | none => pure ()
        -- (2) key by key: the written entries (Kubernetes semantics) admit exactly what the scheduler's requirement admits
        for (k, r) in mem.reqs do
          if Karp.Template.simulationKeys.contains k then
            if sels.any (fun x => x.key == k) then return (false, s!"simulation-only key {k} was written")
          else if k == "node.kubernetes.io/instance-type" || k == Karp.Gen.Labels.capacityTypeLabelKey then
            -- ToNodeClaim narrows these two further (cheapest types, their available capacity types): subset
            let ks := sels.filter (fun x => x.key == k)
            match cands.find? (fun v => selMatches ks v && !r.has v) with
            | some v => return (false, s!"key {k}: written NodeClaim admits {v.quote}, which the scheduler's requirement rejects")
            | none => pure ()
          else
            let ks := sels.filter (fun x => x.key == k)
            if ks.isEmpty then return (false, s!"key {k}: the scheduler's requirement was not written to the NodeClaim")
            match cands.find? (fun v => selMatches ks v != r.has v) with
            | some v => return (false, s!"key {k}, value {v.quote}: scheduler admits = {r.has v}, written NodeClaim admits = {selMatches ks v}")
            | none => pure ()
            if ks.any (fun x => x.minValues != r.minValues) then return (false, s!"key {k}: minValues not carried")
        -- (3) requests cover the pods plus the least daemon overhead among the instance types
        let wCPU ← intF wj "reqCPU"
        let itObjs := mem.its.filterMap s.it?
        let dcpu (it : IT) : Int :=
          let perOffering := (it.offerings.filter (fun o => o.available && offeringCompatible mem.reqs o)).map (fun o =>
            (s.daemonsets.filter (dsOnLaunch pool it o)).foldl (fun a d => a + d.cpu) 0)
          match perOffering with
          | [] => 0
          | x :: rest => rest.foldl min x
        -- the overhead is computed (FinalizeScheduling) before the launch list is truncated: when a truncation cap is
        -- in force only the catalogue-wide minimum is a safe lower bound
        let truncating := match fldOpt inp "maxInstanceTypes" with | some j => (j.getNat?.toOption.getD 0) != 0 | none => false
        let basis := if truncating then s.its else itObjs
        let minD : Int := match basis with
          | [] => 0
          | i :: rest => rest.foldl (fun a x => min a (dcpu x)) (dcpu i)
        if wCPU < sumCPU pods + minD then
          return (false, s!"claim for {mem.pods}: written cpu requests {wCPU}m do not cover pods {sumCPU pods}m + least daemon overhead {minD}m")
        -- (4) labels: template labels, nodepool label, and only labels derived from THIS claim's requirements
        for (k, v) in pool.labels do
          if labels.lookup k != some v then return (false, s!"template label {k}={v} missing or changed on the NodeClaim")
        if labels.lookup Karp.Gen.Labels.nodePoolLabelKey != some pool.name then return (false, "nodepool label missing or wrong")
        for (k, v) in labels do
          if (pool.labels.lookup k).isSome || k == Karp.Gen.Labels.nodePoolLabelKey || k.startsWith "karpenter.test.sh/" then pure ()
          else match mem.reqs.lookup k with
            | none => return (false, s!"label {k}={v} on the NodeClaim comes neither from the template nor from this NodeClaim's requirements")
            | some r => if !r.has v then return (false, s!"label {k}={v} on the NodeClaim is rejected by the NodeClaim's own requirement")
        -- (5) taints and hash
        let wt ← (← arrF wj "taints").mapM taint
        let wst ← (← arrF wj "startupTaints").mapM taint
        if wt != pool.taints then return (false, "taints differ from the template")
        if wst != pool.startupTaints then return (false, "startup taints differ from the template")
        if (← strF wj "hash") != (← strF wj "expectHash") then return (false, "nodepool-hash annotation is not the NodePool's hash")
        if (← strF wj "hashVersion") != Karp.Gen.Template.nodePoolHashVersion then return (false, "hash version annotation wrong")
    pure (true, "")
  let (ok, why) := match res with
    | .ok x => x
    | .error e => (false, "implementation output unusable: " ++ e)
  pure { allowed := some true, spec := some ok, why := why }

end Launch

def handle : Handler := fun op inp impl =>
  match op with
  | "c13.launch" => opLaunch inp impl
  | "c13.roundtrip" => opRoundtrip inp impl
  | "c13.any" => opAny inp impl
  | "c13.template" => opTemplate inp impl
  | _ => .error s!"unknown op {op}"

end Karp.Driver.C13
