import Karp.Driver.Proto
import Karp.Driver.ReqJson
import Karp.Model.Hash
import Karp.Spec.DriftSpec
import Karp.Model.Drift
import Karp.Driver.ScenarioJson
import Karp.Model.Template

namespace Karp.Driver.C15
open Lean Karp.Driver Karp.Hash Karp.Spec.DriftSpec

/-! ### JSON decoding -/

def optOf (f : Json → Except String α) (j : Json) (k : String) : Except String (Option α) :=
  match fldOpt j k with
  | none => pure none
  | some v => do pure (some (← f v))

def parseKV (j : Json) : Except String (String × String) := do
  match ← asArr j with
  | [a, b] => pure (← asStr a, ← asStr b)
  | _ => throw "key/value pair expected"

def parseTaint (j : Json) : Except String Taint := do
  let ta ← intO j "timeAdded"
  let tz ← boolD j "timeZero" false
  pure { key := ← strF j "key", value := ← strF j "value", effect := ← strF j "effect",
         timeAdded := match ta with | some s => some (some s) | none => if tz then some none else none }

def parseSel (j : Json) : Except String Karp.Req.Sel := do
  pure { key := ← strF j "key", op := ReqJson.parseOp (← strF j "op"), values := ← strList (← fld j "values"),
         minValues := ← intO j "minValues" }

def parseRef (j : Json) : Except String NodeClassRef := do
  pure { kind := ← strF j "kind", name := ← strF j "name", group := ← strF j "group" }

def parseTemplate (j : Json) : Except String Template := do
  pure { labels := ← optOf (listOf parseKV) j "labels", annotations := ← optOf (listOf parseKV) j "annotations",
         taints := ← optOf (listOf parseTaint) j "taints", startupTaints := ← optOf (listOf parseTaint) j "startupTaints",
         requirements := ← optOf (listOf parseSel) j "requirements", nodeClassRef := ← optOf parseRef j "nodeClassRef",
         tgp := ← intO j "tgp", expireAfter := ← intO j "expireAfter", expireAfterRaw := ← strO j "expireAfterRaw" }

/-- the fields outside the template are decoded only far enough to show that the model ignores them -/
def parsePool (j : Json) : Except String Pool := do
  let o ← fld j "outside"
  pure { template := ← parseTemplate (← fld j "template"),
         outside := { weight := ← intO o "weight", consolidateAfter := ← intO o "consolidateAfter",
                      consolidationPolicy := ← strF o "consolidationPolicy", replicas := ← intO o "replicas" } }

/-! ### c15.hash -/

def hashOp (inp impl : Json) : Except String Resp := do
  let a ← parsePool (← fld inp "a")
  let b ← parsePool (← fld inp "b")
  let ha := a.hashString
  let hb := b.hashString
  let model := jObj [("ha", jStr ha), ("hb", jStr hb), ("equal", jBool (ha == hb)), ("stable", jBool true)]
  let (spec, why) ← match fldOpt impl "equal", fldOpt impl "stable" with
    | some e, some s => do
      let equal ← asBool e
      let stable ← asBool s
      if !stable then pure (some false, "hashing the same NodePool twice gave different values (map iteration order leaks)")
      else match fingerprintVerdict a b with
        | .mustEqual => pure (some equal, if equal then "" else "only the order of lists/maps and non-drifting fields differ, but the hash changed")
        | .mustDiffer => pure (some (!equal), if equal then "a drift-relevant template field differs, but the hash is unchanged" else "")
        | .unspecified => pure (none, "")
    | _, _ => pure (some false, "implementation produced no hash (panic?)")
  pure { model := some model, spec := spec, why := why }

/-! ### c15.drift -/

open Karp.Drift in
def parseClaim (j : Json) : Except String Claim := do
  pure { name := ← strF j "name", labels := ← listOf parseKV (← fld j "labels"),
         ann := { hash := ← strO j "hash", version := ← strO j "version" },
         launched := ← boolF j "launched", drifted := ← strO j "drifted", deleting := ← boolF j "deleting",
         managed := ← boolF j "managed", createdAt := -((← intF j "ageMin") * 60000000000) }

structure OffJ where
  zone : String
  ct : String
  rid : String
  /-- listed, but capacity cannot currently be launched into it (`Offering.Available = false`) -/
  unavailable : Bool := false

def parseOff (j : Json) : Except String OffJ := do
  pure { zone := ← strF j "zone", ct := ← strF j "capacityType", rid := ← strF j "reservationID",
         unavailable := ← boolD j "unavailable" false }

def inReq (k : String) (vs : List String) : Karp.Req.Req := { key := k, complement := false, values := vs }

/-- the offering requirements as the harness builds them: zone, capacity type, reservation id (DoesNotExist unless reserved) -/
def offReqs (resLabel : String) (o : OffJ) : Karp.Req.Reqs :=
  [(Karp.Spec.DriftSpec.zoneKey, inReq Karp.Spec.DriftSpec.zoneKey [o.zone]),
   (Karp.Drift.capacityTypeKey, inReq Karp.Drift.capacityTypeKey [o.ct]),
   (resLabel, if o.ct == Karp.Gen.Labels.capacityTypeReserved then inReq resLabel [o.rid] else inReq resLabel [])]

structure ProvJ where
  its : List (String × List OffJ)
  itErr : Bool
  drift : String
  driftErr : Bool

def parseProv (j : Json) : Except String ProvJ := do
  let its ← (← arrF j "its").mapM (fun i => do pure (← strF i "name", ← listOf parseOff (← fld i "offerings")))
  pure { its, itErr := ← boolF j "itErr", drift := ← strF j "drift", driftErr := ← boolF j "driftErr" }

def ProvJ.toModel (resLabel : String) (p : ProvJ) : Karp.Drift.Prov :=
  { its := p.its.map (fun (n, ofs) => { name := n, offerings := ofs.map (fun o =>
      ({ reqs := offReqs resLabel o, available := !o.unavailable } : Karp.Drift.Offer)) }),
    itErr := p.itErr, drift := p.drift, driftErr := p.driftErr }

/-- a step as the harness describes it: `create` lacks the outcome of the `Requirement.Any()` calls, which is read off the
    implementation's observation (`concretize`); the other steps come with the provider description the spec reads -/
inductive RawStep
  | plain (st : Karp.Drift.Step) (prov : Option ProvJ)
  | create (claim : String) (providerLabels : List (String × String)) (launched : Bool) (via : Karp.Drift.Via)

def parseStep (resLabel : String) (j : Json) : Except String RawStep := do
  let k ← strF j "k"
  let claim := (← strO j "claim").getD ""
  match k with
  | "editPool" => pure (.plain (.editPool (← parsePool (← fld j "pool"))) none)
  | "deletePool" => pure (.plain .deletePool none)
  | "hashctl" => pure (.plain .hashctl none)
  | "label" => pure (.plain (.setLabel claim (← strF j "key") (← strO j "value")) none)
  | "ann" => pure (.plain (.setAnn (if claim == "" then none else some claim) ((← strF j "key") == "hash") (← strO j "value")) none)
  | "launched" => pure (.plain (.setLaunched claim (← boolD j "launched" false)) none)
  | "prov" => do
    let p ← parseProv (← fld j "prov")
    pure (.plain (.setProv (p.toModel resLabel)) (some p))
  | "advance" => pure (.plain (.advance ((← intF j "min") * 60000000000)) none)
  | "reconcile" => pure (.plain (.reconcile claim) none)
  | "create" => pure (.create claim (← listOf parseKV (← fld j "labels")) (← boolD j "launched" false)
      (Karp.Drift.Via.ofString ((← strO j "via").getD "")))
  | _ => throw s!"bad step {k}"

def sortKV (l : List (String × String)) : List (String × String) := (l.toArray.qsort (fun a b => a.1 < b.1)).toList

def snapJson (s : Karp.Drift.St) (err : Bool) : Json :=
  jObj [("poolPresent", jBool s.pool.present),
        ("poolHash", if s.pool.present then jOptStr s.pool.ann.hash else Json.null),
        ("poolVersion", if s.pool.present then jOptStr s.pool.ann.version else Json.null),
        ("hashNow", jStr (if s.pool.present then s.pool.pool.hashString else "")),
        ("claims", jArr (s.claims.map (fun c => jObj [("name", jStr c.name),
            ("labels", jArr ((sortKV c.labels).map (fun kv => jArr [jStr kv.1, jStr kv.2]))),
            ("hash", jOptStr c.ann.hash), ("version", jOptStr c.ann.version), ("drifted", jOptStr c.drifted)]))),
        ("err", jBool err)]

structure ClaimObs where
  name : String
  labels : List (String × String)
  hash : Option String
  version : Option String
  drifted : Option String

structure SnapObs where
  poolPresent : Bool
  poolHash : Option String
  poolVersion : Option String
  hashNow : String
  claims : List ClaimObs
  err : Bool

def parseSnap (j : Json) : Except String SnapObs := do
  let claims ← (← arrF j "claims").mapM (fun c => do
    pure ({ name := ← strF c "name", labels := ← listOf parseKV (← fld c "labels"), hash := ← strO c "hash",
            version := ← strO c "version", drifted := ← strO c "drifted" } : ClaimObs))
  pure { poolPresent := ← boolF j "poolPresent", poolHash := ← strO j "poolHash", poolVersion := ← strO j "poolVersion",
         hashNow := ← strF j "hashNow", claims, err := ← boolF j "err" }

/-- the outcome of the `Any()` calls of one creation, read off the labels the implementation's NodeClaim carries: an entry
    for every custom key of the template's requirements whose observed label is a value `Any()` may have returned -/
def resolvedOf (wellKnown : List String) (R : Karp.Req.Reqs) (obs : List (String × String)) : List (String × String) :=
  R.filterMap (fun kr =>
    if Karp.Drift.customKey wellKnown kr.1 then
      match obs.lookup kr.1 with
      | some v => if v != "" && kr.2.anyAllowed v then some (kr.1, v) else none
      | none => none
    else none)

/-- turn the described steps into model steps along the model's own run; `posts` are the implementation's snapshots AFTER
    each step.  Also returns the first creation whose custom labels are not an outcome the `Any()` relation allows. -/
def concretize (wellKnown : List String) : Karp.Drift.St → List RawStep → List SnapObs →
    List (Karp.Drift.Step × Option ProvJ) × Option String
  | _, [], _ => ([], none)
  | s, r :: rest, posts =>
    let (st, pv, bad) : Karp.Drift.Step × Option ProvJ × Option String :=
      match r with
      | .plain st pv => (st, pv, none)
      | .create n pl l via =>
        -- a static-capacity controller does nothing for a NodePool it does not manage
        if via.managedOnly && !s.poolManaged then (Karp.Drift.createStep s via n [] pl l, none, none) else
        let t := s.pool.pool.template
        let obs := match posts.head? with
          | some p => (match p.claims.find? (·.name == n) with | some c => c.labels | none => [])
          | none => []
        match t.nodeClassRef with
        | some ref =>
          (match Karp.Drift.templateReqs (t.requirements.getD []) (Karp.Drift.templateLabels s.pool.name t ref) with
           | .ok R =>
             let resolved := resolvedOf wellKnown R obs
             let fresh := s.pool.present && !s.claims.any (·.name == n)
             (Karp.Drift.createStep s via n resolved pl l, none,
              if fresh && !posts.isEmpty && !Karp.Drift.resolvedAllowed wellKnown R resolved then
                some s!"create {n}: the custom labels {resolved} are not an outcome Requirement.Any() may produce" else none)
           | .error _ => (.create n [] pl l, none, none))
        | none => (.create n [] pl l, none, none)
    let s' := match Karp.Drift.step s st with
      | .ok (s', _) => s'
      | .error _ => s
    let (tl, bad') := concretize wellKnown s' rest posts.tail
    ((st, pv) :: tl, bad.or bad')

open Karp.Spec.DriftSpec in
/-- the specification evaluated on one observed step: `env` is the model state BEFORE the step (only its environment
    part is read: the NodePool spec, Launched, managed/deleting, the provider description), `pre`/`post` are the
    implementation's snapshots around the step -/
def judgeStep (i : Nat) (st : Karp.Drift.Step) (env : Karp.Drift.St) (prov : ProvJ) (resLabel : String)
    (fresh : List (String × Karp.Hash.Pool)) (pre post : SnapObs) : Option (String × String) :=
  match st with
  | .reconcile n =>
    match env.claims.find? (·.name == n), pre.claims.find? (·.name == n), post.claims.find? (·.name == n) with
    | some ec, some pc, some qc =>
      let applicable := ec.managed && !ec.deleting && pre.poolPresent &&
        pc.labels.lookup Karp.Drift.nodePoolKey == some env.pool.name
      if !applicable || post.err then none else
      let sels := env.pool.pool.template.requirements.getD []
      let f : Facts := { launched := ec.launched, poolHash := pre.poolHash, poolVersion := pre.poolVersion,
                         claimHash := pc.hash, claimVersion := pc.version, sels := sels, labels := pc.labels,
                         instanceGone := instanceGone (prov.its.map (fun (n, ofs) => (n, ofs.map (fun o =>
                            ({ zone := o.zone, capacityType := o.ct, reservationID := o.rid } : OfferingS))))) pc.labels resLabel,
                         providerDrift := prov.drift != "" }
      if mustBeDrifted f && qc.drifted.isNone then
        let cls := if hashDiffersUnderSameVersion f.poolHash f.poolVersion f.claimHash f.claimVersion then "static-drift-missed"
                   else missClass sels pc.labels
        some (s!"step {i}: NodeClaim {n} is launched and " ++
          (if cls == "static-drift-missed" then "its hash differs from the NodePool's under the same hash version"
           else "its labels do not satisfy the NodePool's requirements") ++ s!", but it is not reported Drifted [{cls}]", cls)
      else if qc.drifted.isSome && !mayBeDriftedFresh (fresh.lookup n) env.pool.pool (pre.poolHash != some pre.hashNow) f then
        if mayBeDrifted f then
          -- the only cause is a hash that differs although the NodeClaim was created, within this history, from a
          -- template that must hash like the NodePool's current one, and the NodePool's annotation is up to date
          some (s!"step {i}: NodeClaim {n} was created from the NodePool's current template (no drift-relevant edit since) " ++
            s!"and is reported Drifted ({qc.drifted.getD ""}): it carries hash {pc.hash.getD ""}, the NodePool is annotated {pre.poolHash.getD ""}, its template hashes to {pre.hashNow}",
            "fresh-claim-static-drift")
        else
        some (s!"step {i}: NodeClaim {n} is reported Drifted ({qc.drifted.getD ""}) although " ++
          (if !f.launched then "it is not launched" else "its hash matches (or is not comparable), its labels satisfy the NodePool's requirements, its instance type is offered and the provider reports no drift"),
          "self-inflicted-drift")
      else none
    | none, none, none => none  -- a NodeClaim that was never created (its create step found no NodePool)
    | _, _, _ => some (s!"step {i}: NodeClaim {n} missing from a snapshot", "harness")
  | .hashctl =>
    if !(pre.poolPresent && env.poolManaged) || post.err then none else
    if post.poolHash != some post.hashNow || post.poolVersion != some Karp.Drift.currentVersion then
      some (s!"step {i}: after the hash controller ran, the NodePool does not carry its current hash and hash version", "hash-annotation")
    else
      let bad := env.claims.filterMap (fun ec =>
        match pre.claims.find? (·.name == ec.name), post.claims.find? (·.name == ec.name) with
        | some pc, some qc =>
          let ofPool := ec.managed && pc.labels.lookup Karp.Drift.nodePoolKey == some env.pool.name
          let migrate := ofPool && pre.poolVersion != some Karp.Drift.currentVersion && pc.version != some Karp.Drift.currentVersion
          if migrate then
            if qc.version != some Karp.Drift.currentVersion then some (ec.name, "hash version not migrated")
            else if pc.drifted.isNone && qc.hash != some post.hashNow then some (ec.name, "not drifted before the migration, but its hash was not re-stamped: it would be reported drifted by the hash-version bump alone")
            else if pc.drifted.isSome && qc.hash != pc.hash then some (ec.name, "already drifted, but its hash was overwritten")
            else none
          else if qc.hash != pc.hash || qc.version != pc.version then some (ec.name, "annotations changed although no migration applies")
          else none
        | _, _ => some (ec.name, "missing from a snapshot"))
      match bad with
      | [] => none
      | (n, why) :: _ => some (s!"step {i}: hash controller, NodeClaim {n}: {why}", "hash-migration")
  | .create n _ _ _ =>
    -- created only when the NodePool exists and the name is new
    if !pre.poolPresent || (pre.claims.any (·.name == n)) then none else
    match post.claims.find? (·.name == n) with
    | none => some (s!"step {i}: NodeClaim {n} was not created", "harness")
    | some qc =>
      if !stampedFromTemplate post.hashNow Karp.Drift.currentVersion qc.hash qc.version then
        some (s!"step {i}: NodeClaim {n}, created from the NodePool as stored (template hash {post.hashNow}, annotated {pre.poolHash.getD "-"}/{pre.poolVersion.getD "-"}), " ++
          s!"carries {qc.hash.getD "-"}/{qc.version.getD "-"}: not the hash of the template it was created from and the current hash version — " ++
          "it will be reported Drifted (or a later template change will go unreported) without any change to the template",
          "fresh-claim-hash-not-of-its-template")
      else if qc.drifted.isSome then
        some (s!"step {i}: NodeClaim {n} is created with a Drifted condition", "self-inflicted-drift")
      else none
  | _ => none

def driftOp (inp impl : Json) : Except String Resp := do
  let resLabel ← strF inp "reservationLabel"
  let pool ← parsePool (← fld inp "pool")
  let poolHash := match ← strO inp "poolHash" with
    | some "$hash" => some pool.hashString
    | h => h
  let poolAnn : Karp.Drift.Ann := { hash := poolHash, version := ← strO inp "poolVersion" }
  let claims ← (← arrF inp "claims").mapM parseClaim
  let claims := claims.map (fun c => if c.ann.hash == some "$pool" then { c with ann := { c.ann with hash := poolAnn.hash } } else c)
  let prov0 ← parseProv (← fld inp "prov")
  let nc ← strList (← fld inp "nodeClass")
  let s0 : Karp.Drift.St := {
    pool := { name := ← strF inp "poolName", pool := pool, ann := poolAnn },
    claims := claims, prov := prov0.toModel resLabel,
    wellKnown := ← strList (← fld inp "wellKnown"), reservedLabels := ← strList (← fld inp "reservedLabels"),
    nodeClass := (nc.getD 0 "", nc.getD 1 "") }
  let raw ← (← arrF inp "steps").mapM (parseStep resLabel)
  -- the implementation's snapshots (absent after a panic)
  let obs ← match fldOpt impl "snaps" with
    | none => pure []
    | some sj => do (← asArr sj).mapM parseSnap
  let (steps, anyBad) := concretize s0.wellKnown s0 raw obs.tail
  match Karp.Drift.run s0 (steps.map (·.1)) with
  | .error _ =>
    -- a requirement with a comparison operator and no operand: the real code indexes values[0]
    pure { model := some (jObj [("panic", jStr "index-out-of-range")]), spec := none }
  | .ok states =>
    let model := jObj [("snaps", jArr (snapJson s0 false :: states.map (fun (s, e) => snapJson s e)))]
    let allowed : Option Bool := some anyBad.isNone
    -- the specification on what the implementation did
    match fldOpt impl "snaps" with
    | none => pure { model := some model, spec := some false, why := "implementation produced no snapshots (panic?)" }
    | some _ => do
      if obs.length != steps.length + 1 then
        return { model := some model, spec := some false, why := "wrong number of snapshots" }
      -- environment before each step: s0 :: states; provider description before each step
      let envs := s0 :: states.map (·.1)
      let rec provs (cur : ProvJ) : List (Karp.Drift.Step × Option ProvJ) → List ProvJ
        | [] => []
        | (_, p) :: rest => cur :: provs (p.getD cur) rest
      let provBefore := provs prov0 steps
      -- `fresh`: the NodeClaims created within the history whose annotations nobody has edited since, with the NodePool
      -- (as described by the input) they were created from
      -- a NodeClaim created with a hash that is not its template's is a violation by itself (`pending`); the history is
      -- read on for the consequence the property names — that NodeClaim reported Drifted — which is reported instead
      let rec go (i : Nat) (sts : List (Karp.Drift.Step × Option ProvJ)) (envs : List Karp.Drift.St) (pvs : List ProvJ)
          (fresh : List (String × Karp.Hash.Pool)) (pending : Option (String × String)) (obs : List SnapObs) :
          Option (String × String) :=
        match sts, envs, pvs, obs with
        | (st, _) :: sts', env :: envs', pv :: pvs', pre :: post :: obs' =>
          let fresh' := match st with
            | .create n _ _ _ => if env.pool.present && !env.claims.any (·.name == n) then (n, env.pool.pool) :: fresh else fresh
            | .setAnn (some n) _ _ => fresh.filter (·.1 != n)
            | _ => fresh
          match judgeStep i st env pv resLabel fresh pre post, pending with
          | some (why, "fresh-claim-static-drift"), some (why0, _) => some (why ++ " — " ++ why0, "fresh-claim-static-drift")
          | some v, none =>
            if v.2 == "fresh-claim-hash-not-of-its-template" then go (i + 1) sts' envs' pvs' fresh' (some v) (post :: obs')
            else some v
          | _, _ => go (i + 1) sts' envs' pvs' fresh' pending (post :: obs')
        | _, _, _, _ => pending
      match go 0 steps envs provBefore [] none obs with
      | none => pure { model := some model, allowed := allowed, spec := some true, why := anyBad.getD "" }
      | some (why, cls) =>
        pure { model := some model, allowed := allowed, spec := some false, why := why, extra := some (jObj [("signature", jStr cls)]) }

/-! ### c15.selfdrift -/

structure LaunchObs where
  claim : Nat
  pool : String
  option : String
  labels : List (String × String)
  hash : Option String
  version : Option String
  launched : Bool
  fresh : Option String
  later : Option String
  afterEdit : Option String
  err : String
  /-- `spec.requirements` of the NodeClaim as written by `ToNodeClaim` -/
  reqs : List Karp.Req.Sel
  /-- the labels of the NodeClaim as the provisioner wrote it (before the launch) -/
  pre : List (String × String) := []
  /-- the labels the provider answered `Create` with (the launch choice) -/
  provided : List (String × String) := []
  /-- number of `CloudProvider.Create` calls for this NodeClaim -/
  creates : Nat := 0
  /-- did the lifecycle controller's reconcile return an error, per reconcile -/
  errs : List Bool := []

def parseLaunch (j : Json) : Except String LaunchObs := do
  pure { claim := ← natF j "claim", pool := ← strF j "pool", option := ← strF j "option",
         labels := ← (match fldOpt j "labels" with | none => pure [] | some v => listOf parseKV v),
         hash := ← strO j "hash", version := ← strO j "version", launched := ← boolD j "launched" false,
         fresh := ← strO j "fresh", later := ← strO j "later", afterEdit := ← strO j "afterEdit",
         err := (← strO j "err").getD "",
         reqs := ← (match fldOpt j "reqs" with | none => pure [] | some v => listOf parseSel v),
         pre := ← (match fldOpt j "pre" with | none => pure [] | some v => listOf parseKV v),
         provided := ← (match fldOpt j "provided" with | none => pure [] | some v => listOf parseKV v),
         creates := (← natO j "creates").getD 0,
         errs := ← (match fldOpt j "errs" with | none => pure [] | some v => listOf asBool v) }

/-- the launch model on one observed launch: the lifecycle controller reconciled the NodeClaim once per entry of `faults`
    (that write failing) and once more undisturbed; `none` = the observation is what the model predicts -/
def launchMismatch (faults : List Nat) (l : LaunchObs) : Option String :=
  let run := Karp.Drift.launchRun { labels := l.pre } l.provided (faults ++ [0])
  let fin := Karp.Drift.launchFinal { labels := l.pre } l.provided (faults ++ [0])
  let mLabels := sortKV (Karp.Drift.dedupKV fin.labels)
  if run.map (·.2) != l.errs then some s!"reconcile errors: model {run.map (·.2)}, implementation {l.errs}"
  else if fin.launched != l.launched then some s!"Launched: model {fin.launched}, implementation {l.launched}"
  else if fin.creates != l.creates then some s!"CloudProvider.Create calls: model {fin.creates}, implementation {l.creates}"
  else if mLabels != sortKV l.labels then some s!"labels after the launch: model {mLabels}, implementation {sortKV l.labels}"
  else none

/-- the class of a fresh NodeClaim reported Drifted, before the recorded requirement classes are consulted: the NodeClaim
    lost (part of) the provider's answer, or its instance type / offering is said to be gone -/
def freshDriftClass (l : LaunchObs) (reason : Option String) (other : String) : String :=
  if l.provided.any (fun kv => (l.labels.lookup kv.1).isNone) then "launch-choice-labels-missing"
  else if reason == some Karp.Gen.C15Drift.reasonInstanceTypeNotFound then "fresh-claim-instance-type-not-found"
  else other

structure PoolObs where
  name : String
  hash : Option String
  version : Option String
  hashAfter : Option String
  versionAfter : Option String

def parsePoolObs (j : Json) : Except String PoolObs := do
  pure { name := ← strF j "name", hash := ← strO j "hash", version := ← strO j "version",
         hashAfter := ← strO j "hashAfter", versionAfter := ← strO j "versionAfter" }

def selOfMin (e : Karp.Scn.MinExpr) : Karp.Req.Sel := { key := e.key, op := e.op, values := e.vals, minValues := e.minValues }

open Karp.Spec.DriftSpec in
/-- why a fresh NodeClaim's labels fail its own NodePool's requirements (the recorded classes):
    * the template's own labels contradict the template's requirements;
    * a custom key the NodePool needs present has no label, and
      - the NodeClaim's own written requirement for the key still needs the label, but `Requirement.Any()` has no
        canonical integer left to pick (the model's relation for `Any()` allows the empty outcome): unresolvable;
      - the NodeClaim's own written requirement for the key tolerates absence (`DoesNotExist` / only `NotIn`): the
        scheduler narrowed the NodePool's requirement into one that lost "the label must be present" (the C01
        finding presence-lost-with-notin: a pod with `k NotIn [..]` and a pod with `k DoesNotExist` share the claim). -/
def selfDriftClass (pool : Karp.Scn.Pool) (sels : List Karp.Req.Sel) (labels : List (String × String))
    (claimReqs : List Karp.Req.Sel) : String :=
  if pool.labels.any (fun kv => sels.any (fun s => s.key == kv.1 && !Karp.Spec.K8s.k8sMatch s.op s.values (some kv.2))) then
    "template-label-contradicts-requirement"
  else
    let missing := (sels.filter (fun s => (labels.lookup s.key).isNone && needsPresence s && Karp.Template.customKey s.key)).map (·.key) |>.eraseDups
    let violatedPresent := sels.any (fun s => (labels.lookup s.key).isSome && !Karp.Spec.K8s.k8sMatch s.op s.values (labels.lookup s.key))
    let written (k : String) := claimReqs.filter (·.key == k)
    let unresolvable (k : String) : Bool :=
      (written k).any needsPresence &&
      (match Karp.Req.fromSelectors (written k) with
       | .ok (some r) => r.anyAllowed ""
       | _ => false)
    let presenceLost (k : String) : Bool := !(written k).isEmpty && !(written k).any needsPresence
    if violatedPresent || missing.isEmpty then "self-drift"
    else if missing.all unresolvable then "custom-label-unresolvable"
    else if missing.all (fun k => unresolvable k || presenceLost k) then "pool-presence-lost-in-scheduling"
    else "self-drift"

def hashedKinds : List String := ["label", "annotation", "taint", "startupTaint", "tgp", "expireAfter"]

open Karp.Spec.DriftSpec in
def selfOp (inp impl : Json) : Except String Resp := do
  let scn ← ScenarioJson.scenario (← fld inp "scn")
  let resLabel ← strF inp "reservationLabel"
  let wellKnown ← strList (← fld inp "wellKnown")
  let reservedLabels ← strList (← fld inp "reservedLabels")
  let edit := fldOpt inp "edit"
  let editPool ← match edit with | some e => strF e "pool" | none => pure ""
  let editKind ← match edit with | some e => strF e "kind" | none => pure ""
  -- (an empty new requirement list is omitted from the JSON)
  let editReqs ← match edit with
    | some e => (match fldOpt e "reqs" with
      | some r => do pure (some (← listOf ScenarioJson.minExpr r))
      | none => pure (if editKind == "reqs" then some [] else none))
    | none => pure none
  if (fldOpt impl "err").isSome then
    return { allowed := some true, spec := none }
  let pools ← (← arrF impl "pools").mapM parsePoolObs
  let launches ← (← arrF impl "launches").mapM parseLaunch
  let launches2 ← (← arrD impl "launches2").mapM parseLaunch
  let wave2 := (← strO inp "wave2").getD ""
  -- the API writes of the lifecycle controller that fail while the NodeClaims are launched (one entry per reconcile)
  let launchFaults ← (← arrD inp "launchFaults").mapM asNat
  -- what happens to the capacity between the launch and the instance-type check two hours later
  let soldOut := (← strO inp "soldOut").getD ""
  -- the provider's catalogue: every offering is listed, available or not
  let its : List (String × List OfferingS) := scn.its.map (fun it => (it.name, it.offerings.map (fun o =>
    ({ zone := o.zone, capacityType := o.ct, reservationID := o.resID } : OfferingS))))
  let modelITs : List Karp.Drift.ITD := scn.its.map (fun it => { name := it.name, offerings := it.offerings.map (fun o =>
    ({ reqs := offReqs resLabel { zone := o.zone, ct := o.ct, rid := o.resID }, available := o.available } : Karp.Drift.Offer)) })
  let mut verdict : Option (String × String) := none
  let mut modelBad : Option String := none
  for l in launches do
    if l.err != "" then
      if l.err != "no-permitted-option" && verdict.isNone then
        verdict := some (s!"claim {l.claim} option {l.option}: {l.err}", "error")
      continue
    match scn.pools.find? (·.name == l.pool), pools.find? (·.name == l.pool) with
    | some pool, some po =>
      let sels := pool.reqs.map selOfMin
      let selsAfter := if l.pool == editPool && editKind == "reqs" then (editReqs.getD pool.reqs).map selOfMin else sels
      -- model verdicts on the observed labels / annotations
      let mdl (pa : Karp.Drift.Ann) (ss : List Karp.Req.Sel) (itCheck : Bool) : Option String :=
        if Karp.Drift.staticDrifted pa { hash := l.hash, version := l.version } then some Karp.Gen.C15Drift.reasonNodePoolDrifted
        else match Karp.Drift.requirementsDrifted ss l.labels with
          | .ok true => some Karp.Gen.C15Drift.reasonRequirementsDrifted
          | .ok false =>
            if itCheck && Karp.Drift.instanceTypeNotFound modelITs l.labels wellKnown reservedLabels then
              some Karp.Gen.C15Drift.reasonInstanceTypeNotFound else none
          | .error _ => some "panic"
      let mFresh := if l.launched then mdl { hash := po.hash, version := po.version } sels false else none
      let mLater := if l.launched then mdl { hash := po.hash, version := po.version } sels true else none
      -- after a successful instance-type check the result is cached; a claim that was drifted at `later` has no cache entry
      let mAfter := if l.launched then mdl { hash := po.hashAfter, version := po.versionAfter } selsAfter l.later.isSome else none
      if modelBad.isNone then
        if let some why := launchMismatch launchFaults l then modelBad := some s!"claim {l.claim} option {l.option}: launch: {why}"
        else if mFresh != l.fresh then modelBad := some s!"claim {l.claim} option {l.option}: fresh: model {mFresh}, implementation {l.fresh}"
        else if mLater != l.later then modelBad := some s!"claim {l.claim} option {l.option}: later: model {mLater}, implementation {l.later}"
        else if edit.isSome && mAfter != l.afterEdit then modelBad := some s!"claim {l.claim} option {l.option}: after edit: model {mAfter}, implementation {l.afterEdit}"
      -- the specification
      if verdict.isNone then
        if !l.launched then verdict := some (s!"claim {l.claim} option {l.option} was not launched", "error")
        else if l.hash.isNone || l.hash != po.hash || l.version != some Karp.Drift.currentVersion then
          verdict := some (s!"claim {l.claim} of {l.pool} does not carry its NodePool's hash and the current hash version (claim {l.hash}/{l.version}, pool {po.hash}/{po.version})", "claim-not-stamped")
        else if l.fresh.isSome || l.later.isSome then
          verdict := some (s!"claim {l.claim} of {l.pool}, freshly created and launched as the permitted option {l.option}, is reported Drifted ({(l.fresh.or l.later).getD ""})" ++
            (if l.fresh.isNone then s!" two hours later (offerings in between: {if soldOut == "" then "unchanged" else soldOut ++ " sold out, still listed"})" else "") ++
            (if launchFaults.isEmpty then "" else s!"; API writes failing during the launch: {launchFaults}; provider answered {l.provided}, the NodeClaim carries {l.labels}"),
            freshDriftClass l (l.fresh.or l.later) (selfDriftClass pool sels l.labels l.reqs))
        else if edit.isSome then
          let f : Facts := { launched := true, poolHash := po.hashAfter, poolVersion := po.versionAfter, claimHash := l.hash,
                             claimVersion := l.version, sels := selsAfter, labels := l.labels,
                             instanceGone := instanceGone its l.labels resLabel, providerDrift := false }
          -- "stop satisfying": the labels satisfied the requirements before the edit and do not satisfy them after it
          let stopped := readable sels l.labels && readable selsAfter l.labels && labelsSatisfy sels l.labels && !labelsSatisfy selsAfter l.labels
          let hashDiff := hashDiffersUnderSameVersion f.poolHash f.poolVersion f.claimHash f.claimVersion
          if (hashDiff || stopped) && l.afterEdit.isNone then
            verdict := some (s!"after the edit ({editKind}) of {editPool}: claim {l.claim} ({l.option}) of {l.pool} must be reported Drifted but is not",
              if hashDiff then "static-drift-missed" else missClass selsAfter l.labels)
          else if l.afterEdit.isSome && !mayBeDrifted f then
            verdict := some (s!"after the edit ({editKind}) of {editPool}: claim {l.claim} ({l.option}) of {l.pool} is reported Drifted ({l.afterEdit.getD ""}) without a cause", "self-inflicted-drift")
    | _, _ => if verdict.isNone then verdict := some (s!"claim {l.claim}: unknown pool {l.pool}", "harness")
  -- the second wave: NodeClaims created from the NodePools as stored AFTER the edit (before or after the hash controller
  -- re-stamped the edited NodePool), judged once the hash controller has caught up
  for l in launches2 do
    if l.err != "" then
      if l.err != "no-permitted-option" && verdict.isNone then
        verdict := some (s!"second wave: claim {l.claim} option {l.option}: {l.err}", "error")
      continue
    match scn.pools.find? (·.name == l.pool), pools.find? (·.name == l.pool) with
    | some pool, some po =>
      let sels := if l.pool == editPool && editKind == "reqs" then (editReqs.getD pool.reqs).map selOfMin else pool.reqs.map selOfMin
      let mFresh : Option String :=
        if !l.launched then none
        else if Karp.Drift.staticDrifted { hash := po.hashAfter, version := po.versionAfter } { hash := l.hash, version := l.version } then
          some Karp.Gen.C15Drift.reasonNodePoolDrifted
        else match Karp.Drift.requirementsDrifted sels l.labels with
          | .ok true => some Karp.Gen.C15Drift.reasonRequirementsDrifted
          | .ok false => none
          | .error _ => some "panic"
      if modelBad.isNone then
        if let some why := launchMismatch launchFaults l then modelBad := some s!"second wave: claim {l.claim} option {l.option}: launch: {why}"
        else if mFresh != l.fresh then
          modelBad := some s!"second wave: claim {l.claim} option {l.option}: model {mFresh}, implementation {l.fresh}"
      if verdict.isNone then
        let when_ := if l.pool == editPool then
            s!"after its {editKind} edit" ++ (if wave2 == "before-hash" then ", before the hash controller re-stamped the NodePool," else "")
          else ""
        if !l.launched then verdict := some (s!"second wave: claim {l.claim} option {l.option} was not launched", "error")
        else if l.fresh.isSome then
          if hashDiffersUnderSameVersion po.hashAfter po.versionAfter l.hash l.version then
            verdict := some (s!"claim {l.claim} of {l.pool}, freshly created from the NodePool {when_} and launched as the permitted option {l.option}, " ++
              s!"is reported Drifted ({l.fresh.getD ""}) once the hash controller has caught up: it carries hash {l.hash.getD "-"}, its NodePool's template hashes to {po.hashAfter.getD "-"}",
              "fresh-claim-static-drift")
          else
            verdict := some (s!"second wave: claim {l.claim} of {l.pool}, freshly created {when_} and launched as the permitted option {l.option}, is reported Drifted ({l.fresh.getD ""})" ++
              (if launchFaults.isEmpty then "" else s!"; API writes failing during the launch: {launchFaults}; provider answered {l.provided}, the NodeClaim carries {l.labels}"),
              freshDriftClass l l.fresh (selfDriftClass pool sels l.labels l.reqs))
        else if l.hash.isNone || l.hash != po.hashAfter || l.version != some Karp.Drift.currentVersion then
          verdict := some (s!"second wave: claim {l.claim} of {l.pool} does not carry its NodePool's hash and the current hash version (claim {l.hash}/{l.version}, pool {po.hashAfter}/{po.versionAfter})", "claim-not-stamped")
    | _, _ => if verdict.isNone then verdict := some (s!"second wave: claim {l.claim}: unknown pool {l.pool}", "harness")
  -- the edit and the hash annotation
  if verdict.isNone then
    for po in pools do
      if verdict.isNone then
        if po.hash.isNone || po.version != some Karp.Drift.currentVersion then
          verdict := some (s!"NodePool {po.name} carries no hash / current hash version after the hash controller ran", "hash-annotation")
        else if edit.isSome && po.name == editPool && hashedKinds.contains editKind && po.hashAfter == po.hash then
          verdict := some (s!"the {editKind} edit of {po.name}'s template did not change its hash", "hashed-edit-missed")
        else if edit.isSome && !(po.name == editPool && hashedKinds.contains editKind) && po.hashAfter != po.hash then
          verdict := some (s!"the hash of {po.name} changed although no drift-relevant field was edited ({editKind} on {editPool})", "hash-changed-by-ignored-edit")
  let allowed := modelBad.isNone
  match verdict with
  | none => pure { allowed := some allowed, spec := some true, why := modelBad.getD "" }
  | some (why, cls) =>
    pure { allowed := some allowed, spec := some false, why := why ++ s!" [{cls}]", extra := some (jObj [("signature", jStr cls)]) }

def handle : Handler := fun op inp impl =>
  match op with
  | "c15.hash" => hashOp inp impl
  | "c15.drift" => driftOp inp impl
  | "c15.selfdrift" => selfOp inp impl
  | _ => .error s!"unknown op {op}"

end Karp.Driver.C15
