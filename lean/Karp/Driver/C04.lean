import Karp.Driver.ScenarioJson
import Karp.Spec.NeedCapacity
import Karp.Model.Provision
import Karp.Model.PodAcct

namespace Karp.Driver.C04
open Lean Karp.Driver Karp.Driver.ScenarioJson Karp.Scn Karp.Req Karp.Spec.NeedCapacity

/-! ### decoding -/

structure TraceEv where
  ev : Event
  prefsLeft : Nat
  pns : Bool

def kindOf (s : String) : Except String Kind :=
  match s with
  | "existing" => pure .existing
  | "inflight" => pure .inflight
  | "new" => pure .new
  | _ => throw s!"bad trace kind {s}"

def traceEv (j : Json) : Except String TraceEv := do
  let cl ← match fldOpt j "claim" with
    | none => pure none
    | some c => do pure (some (← claim c))
  pure { ev := { kind := ← kindOf (← strF j "kind"), pod := ← strF j "pod", target := ← strF j "target",
                 termsLeft := ← natF j "terms", claim := cl },
         prefsLeft := ← natF j "prefs", pns := ← boolD j "pns" false }

structure PassObs where
  stage : String
  synced : Bool
  nodes : List Node
  out : Outcome
  err : String
  trace : List TraceEv
  views : List Json

def passObs (j : Json) : Except String PassObs := do
  let o ← fld j "outcome"
  let err := match fldOpt o "err" with | some (.str e) => e | _ => ""
  pure { stage := ← strF j "stage", synced := ← boolF j "synced", nodes := ← listF node j "nodes",
         out := ← outcome o, err := err, trace := ← listF traceEv j "trace", views := ← arrD j "views" }

/-! ### the model's replay of a pass (`allowed`): every add the scheduler made to an existing node is enabled in the
model, and whenever a pod of the property's class went to a NodeClaim of the pass, `ExistingNode.CanAdd` (model) refuses
it on every active node in the state of that moment -/

open Karp.Sched in
def podAt (p : Pod) (e : TraceEv) : PodSpecM :=
  let sp := podSpecOf p
  let k := sp.aff.required.length - e.ev.termsLeft
  let kp := sp.aff.preferred.length - e.prefsLeft
  let tol := if e.pns && !hasPNS sp.tolerations then sp.tolerations ++ [pnsToleration] else sp.tolerations
  { sp with aff := { required := sp.aff.required.drop k, preferred := sp.aff.preferred.drop kp }, tolerations := tol }

open Karp.Sched in
def replayWith (daemonPNS : Bool) (s : Scenario) (trace : List TraceEv) (absent : Absent := []) (limits : Limits := []) : Option String :=
  -- each active node with the claims in use on it (`VolumeUsage`)
  let init : List (String × ExNode × List String) := s.nodes.filterMap (fun n =>
    if n.deleting then none else
      (Karp.Provision.viewNodeAbs daemonPNS ((absent.filter (·.1 == n.name)).map (·.2)) s n).map (fun ex =>
        (n.name, ex, Karp.Provision.volUnion [] (n.pods.flatMap (Karp.Provision.volumeKeys s)))))
  let rec go (st : List (String × ExNode × List String)) : List TraceEv → Option String
    | [] => none
    | e :: rest =>
      match s.pod? e.ev.pod with
      | none => some s!"trace names unknown pod {e.ev.pod}"
      | some p =>
        let pd := podDOf s.ignorePreferences (podAt p e)
        let alts := Karp.Provision.volumeAlts (Karp.Provision.podVolumeTerms s p)
        let vols := Karp.Provision.volumeKeys s p
        let canAdd := fun (name : String) (ex : ExNode) (used : List String) =>
          Karp.Provision.existingCanAddV ex pd alts && !Karp.Provision.exceedsLimits (limits.lookup name) used vols
        match e.ev.kind with
        | .existing =>
          match st.lookup e.ev.target with
          | none => some s!"pod {p.name} was added to {e.ev.target}, which the model does not list among the active nodes"
          | some (ex, used) =>
            if !canAdd e.ev.target ex used then some s!"the scheduler added pod {p.name} to node {e.ev.target}; the model of ExistingNode.CanAdd refuses it there"
            else go (st.map (fun (n, x, u) => if n == e.ev.target then (n, existingAdd x pd, Karp.Provision.volUnion u vols) else (n, x, u))) rest
        | _ =>
          if plain s p then
            match st.find? (fun (n, ex, used) => canAdd n ex used) with
            | some (n, _) => some s!"pod {p.name} went to a NodeClaim of the pass; the model of ExistingNode.CanAdd admits it on node {n} (guard of OpenNew violated in the model)"
            | none => go st rest
          else go st rest
  go init trace

/-- the daemon pods carry the PreferNoSchedule toleration iff some NodeClaimTemplate had instance types left (a side
    effect of building the overhead groups): the model allows either, consistently for the whole pass -/
def replay (s : Scenario) (trace : List TraceEv) (absent : Absent := []) (limits : Limits := []) : Option String :=
  match replayWith true s trace absent limits with
  | none => none
  | some w => if (replayWith false s trace absent limits).isNone then none else some w

/-! ### the model's view of the in-flight nodes of a history (`allowed`) -/

def taintKey (t : Taint) : String := t.key ++ "|" ++ t.value ++ "|" ++ t.effect
def sortStrs (l : List String) : List String := (l.toArray.qsort (· < ·)).toList

open Karp.Sched in
def viewsAgree (s : Scenario) (nodes : List Node) (views : List Json) : Except String (Option String) := do
  let mut bad : Option String := none
  for v in views do
    let name ← strF v "name"
    match nodes.find? (·.name == name) with
    | none => bad := bad <|> some s!"view of unknown node {name}"
    | some n =>
      let taints ← listF taint v "taints"
      let mt := sortStrs ((viewTaints s n).map taintKey)
      let rt := sortStrs (taints.map taintKey)
      if mt != rt then bad := bad <|> some s!"node {name} at stage {n.stage}: StateNode.Taints() = {rt}, model viewTaints = {mt}"
      let reg ← boolF v "registered"
      let ini ← boolF v "initialized"
      let mreg := n.stage == "registered" || n.stage == "initialized"
      let mini := n.stage == "initialized"
      if reg != mreg || ini != mini then bad := bad <|> some s!"node {name} at stage {n.stage}: Registered/Initialized = {reg}/{ini}, model = {mreg}/{mini}"
      let del ← boolD v "deleting" false
      if del != n.deleting then bad := bad <|> some s!"node {name} at stage {n.stage}: MarkedForDeletion() = {del}, the history marked it = {n.deleting}"
      match s.it? n.it with
      | none => bad := bad <|> some s!"node {name}: unknown instance type {n.it}"
      | some it =>
        let c ← intF v "allocCPU"
        let m ← intF v "allocMem"
        let p ← intF v "allocPods"
        if c != it.allocCPU || m != it.mem || p != it.pods then
          bad := bad <|> some s!"node {name} at stage {n.stage}: StateNode.Allocatable() = {c}m/{m}Mi/{p} pods, the instance type it was launched as has {it.allocCPU}m/{it.mem}Mi/{it.pods}"
      -- the labels the scheduler sees must contain the model's view labels
      let labs ← listF (fun j => do let a ← asArr j; match a with | [k, x] => pure ((← asStr k), (← asStr x)) | _ => throw "label pair") v "labels"
      for (k, x) in viewLabels s n do
        if k == "kubernetes.io/hostname" then continue
        if (viewLabels s n).lookup k != some x then continue   -- shadowed duplicate
        if labs.lookup k != some x then
          bad := bad <|> some s!"node {name} at stage {n.stage}: StateNode.Labels()[{k}] = {labs.lookup k}, model says {x}"
  pure bad

/-! ### verdicts -/

def sigOf (why : String) (dflt : String) : String :=
  if why.startsWith "[" then ((why.splitOn "]").head!.drop 1).toString else dflt

def traceConsistent (out : Outcome) (trace : List TraceEv) : Option String :=
  let placed := out.existing.flatMap (·.2) ++ out.claims.flatMap (·.pods)
  let traced := trace.map (·.ev.pod)
  if sortStrs placed != sortStrs traced then some s!"[trace] commit trace {sortStrs traced} does not match the placements of the result {sortStrs placed}"
  else
    -- every pod traced to an existing node is reported on that node
    match trace.find? (fun e => e.ev.kind == .existing && !((out.existing.lookup e.ev.target).getD []).contains e.ev.pod) with
    | some e => some s!"[trace] pod {e.ev.pod} was committed to node {e.ev.target} but the result does not list it there"
    | none => none

structure Verdict where
  spec : Option String := none      -- property violated on the implementation
  model : Option String := none     -- model disagrees with the implementation

def Verdict.merge (a b : Verdict) : Verdict := { spec := a.spec <|> b.spec, model := a.model <|> b.model }

def judgePass (s : Scenario) (p : PassObs) (absent : Absent := []) (limits : Limits := []) : Verdict :=
  if p.err != "" then {} else
  let cands := scenarioCandidates s p.out ++ (p.trace.filterMap (·.ev.claim)).flatMap (fun c => c.reqs.flatMap (fun (_, r) => r.values))
  let cands := cands.eraseDups
  let specV := (traceConsistent p.out p.trace) <|> passOK s cands (p.trace.map (·.ev)) absent limits
  { spec := specV.map (fun w => s!"{w} (pass at stage {p.stage})"), model := (replay s p.trace absent limits).map (fun w => s!"{w} (pass at stage {p.stage})") }

def toResp (v : Verdict) (dflt : String) : Resp :=
  match v.spec with
  | some w => { allowed := some v.model.isNone, spec := some false, why := w, extra := some (jObj [("signature", jStr (sigOf w dflt))]) }
  | none => { allowed := some v.model.isNone, spec := some true, why := v.model.getD "" }

/-- `c04.pass`: one real pass with its commit trace -/
def opPass (inp impl : Json) : Except String Resp := do
  let s ← scenario inp
  if (fldOpt impl "panic").isSome then return { allowed := some false, spec := some false, why := "the scheduler panicked" }
  let p ← passObs impl
  pure (toResp (judgePass s p) "pass")

/-- `c04.room`: one real pass on a cluster whose Node objects may lack well-known labels, pods with volumes -/
def opRoom (inp impl : Json) : Except String Resp := do
  let s ← scenario (← fld inp "scenario")
  let absent ← listF (fun j => do let a ← asArr j; match a with | [n, k] => pure ((← asStr n), (← asStr k)) | _ => throw "absent: [node, key] pair expected") inp "absent"
  -- only nodes Karpenter does not manage may lack well-known labels (a managed node gets them from its NodeClaim)
  if absent.any (fun (n, _) => match s.node? n with | some nd => nd.managed | none => true) then
    throw "absent label on a managed or unknown node"
  if (fldOpt impl "panic").isSome then return { allowed := some false, spec := some false, why := "the scheduler panicked" }
  let limits ← (← arrD inp "limits").mapM (fun j => do pure ((← strF j "node"), (← natF j "count")))
  let p ← passObs impl
  pure (toResp (judgePass s p absent limits) "room")

/-- `c04.history`: pass 1, creation, the gate, adversarial launch, and pass 2 at every lifecycle stage -/
def opHistory (strict : Bool) (inp impl : Json) : Except String Resp := do
  let s ← scenario (← fld inp "scenario")
  if (fldOpt impl "panic").isSome then return { allowed := some false, spec := some false, why := "the real code panicked" }
  if let some (.str e) := fldOpt impl "harness_error" then throw s!"harness error: {e}"
  let p1 ← passObs (← fld impl "pass1")
  let mut v := judgePass s p1
  let created ← natF impl "created"
  let syncedBefore ← boolF impl "syncedBefore"
  if !syncedBefore then
    v := v.merge { model := some "Cluster.Synced() is false although cluster state holds every node and NodeClaim of the API" }
  if created == 0 then return toResp v "history"
  -- the gate
  let syncedAfterCreate ← boolF impl "syncedAfterCreate"
  if syncedAfterCreate then
    v := v.merge { spec := some s!"[gate] Cluster.Synced() is true right after {created} NodeClaim(s) were created and before any of them was launched: a scheduling pass may run" }
  if (← boolD impl "gateRan" false) then
    let b ← natF impl "gateClaimsBefore"
    let a ← natF impl "gateClaimsAfter"
    let ran ← boolD impl "gatePassRan" false
    if a != b || ran then
      v := v.merge { spec := some s!"[gate] Provisioner.Reconcile ran a scheduling pass while {created} created NodeClaim(s) were not launched yet (NodeClaims in the API: {b} before, {a} after)" }
  let launchErr := match fldOpt impl "launchErr" with | some (.str e) => e | _ => ""
  if launchErr != "" then return toResp v "history"
  let during ← boolList (← fld impl "syncedDuringLaunch")
  for (b, k) in during.zipIdx do
    let want := syncedExpected created (k + 1)
    if b != want then
      let w := s!"[gate] after {k + 1} of {created} created NodeClaims were launched Cluster.Synced() = {b}"
      v := v.merge (if b then { spec := some w } else { model := some w })
  -- what pass 1 placed on capacity that exists afterwards
  let launched ← arrD impl "launched"
  let mut onLaunched : List (String × List String) := []
  let mut claimOf : List (String × Claim) := []
  for l in launched do
    onLaunched := onLaunched ++ [((← strF l "name"), (← listF asStr l "pods"))]
    match p1.out.claims[(← intF l "claim").toNat]? with
    | some c => if (← intF l "claim") ≥ 0 then claimOf := claimOf ++ [((← strF l "name"), c)]
    | none => pure ()
  let placedBefore1 := p1.out.existing ++ onLaunched
  -- pass 2 at every stage
  for pj in (← arrD impl "passes") do
    let p ← passObs pj
    let s' := { s with nodes := s.nodes ++ p.nodes }
    let pv := judgePass s' p
    v := v.merge pv
    if !p.synced then v := v.merge { model := some s!"Cluster.Synced() is false at stage {p.stage} although every NodeClaim is launched" }
    -- the launched node keeps what its NodeClaim promised to the pods it was opened for
    if p.err == "" then
      for n in p.nodes do
        if n.deleting then continue
        match claimOf.lookup n.name, onLaunched.lookup n.name with
        | some c, some pods =>
          match reopenedForLostLabel s' c (Karp.Spec.Admissible.nodeLabels s' n) pods p.out with
          | some (pn, k) =>
            v := v.merge { spec := some s!"[launch-labels] re-running provisioning at stage {p.stage} put pod {pn} on a new NodeClaim: NodeClaim {n.name}, opened for it in pass 1 with a requirement on {k} that needs the label, was launched without a label for {k} that the requirement admits (label: {(Karp.Spec.Admissible.nodeLabels s' n).lookup k}), so its in-flight node cannot take the pod back" }
          | none => pure ()
        | _, _ => pure ()
    match ← viewsAgree s' p.nodes p.views with
    | some w => v := v.merge { model := some w }
    | none => pure ()
    if strict && pv.spec.isNone && p.err == "" then
      -- pods pass 1 placed on capacity that can (by this specification's own reading) hold them together
      let placedBefore := placedBefore1.flatMap (fun (nn, pods) =>
        match s'.node? nn with
        | none => []
        | some n =>
          let ps := pods.filterMap s'.pod?
          if ps.length == pods.length && ps.all (fun q => nodeAdmits s' n (ps.filter (·.name != q.name)) q) then pods else [])
      let re := reopened s' placedBefore p.out
      if !re.isEmpty then
        -- did the pass move pods between the nodes pass 1 had assigned them to?
        let displaced := p.out.existing.any (fun (n, pods) =>
          match onLaunched.lookup n with
          | some own => pods.any (fun x => !own.contains x)
          | none => match p1.out.existing.lookup n with
            | some own => pods.any (fun x => !own.contains x)
            | none => !pods.isEmpty)
        let tag := if displaced then "[reshuffle]" else "[reopened]"
        v := v.merge { spec := some s!"{tag} re-running provisioning at stage {p.stage} put {re} on a new NodeClaim although pass 1 had already placed them on capacity that is still there" }
  pure (toResp v "history")


/-! ### `c04.view`: StateNode accessors -/

open Karp.Provision in
def resOf (j : Json) : Except String Res := do
  let f (k : String) : Except String Int := do
    let v ← intF j k
    pure (if v < 0 then 0 else v)       -- a missing quantity reads as zero
  pure { cpu := ← f "cpu", mem := ← f "mem", pods := ← f "pods" }

def sortPairs (l : List (String × String)) : List (String × String) := (l.toArray.qsort (fun a b => a.1 < b.1)).toList

open Karp.Provision in
def opView (inp impl : Json) : Except String Resp := do
  if (fldOpt impl "panic").isSome then return { allowed := some false, spec := some false, why := "cluster state panicked" }
  let claimJ := fldOpt inp "claim"
  let nodeJ := fldOpt inp "node"
  let marked ← boolD inp "marked" false
  let claim : Option ClaimObj ← match claimJ with
    | none => pure none
    | some c => do
      let del ← boolD c "deleting" false
      let term ← boolD c "terminating" false
      pure (some { name := "claim-a", labels := ← labelsF c "labels", taints := ← listF taint c "taints",
                   startupTaints := ← listF taint c "startupTaints", alloc := ← resOf (← fld c "alloc"), deleting := del || term })
  let nodeRaw : Option (NodeObj × Bool) ← match nodeJ with
    | none => pure none
    | some n => do
      pure (some ({ name := "node-a", labels := ← labelsF n "labels", taints := ← listF taint n "taints", alloc := ← resOf (← fld n "alloc") },
                  ← boolD n "deleting" false))
  -- `Cluster.UpdateNode` ignores a managed node without an instance-type label until it is initialized
  let node : Option (NodeObj × Bool) := nodeRaw.filter (fun (nd, _) =>
    !((nd.labels.lookup "karpenter.sh/nodepool").getD "" != "" && (nd.labels.lookup "node.kubernetes.io/instance-type").getD "" == "" &&
      (nd.labels.lookup Karp.Gen.C04Flow.nodeInitializedLabelKey).getD "" == ""))
  let tracked := claim.isSome || node.isSome
  let sn : SNode := { node := node.map (·.1), claim := claim, marked := marked && tracked, nodeDeleting := (node.map (·.2)).getD false }
  let a := sn.allocatable
  let model : Json :=
    if !tracked then
      jObj [("tracked", jBool false), ("managed", jBool false), ("registered", jBool false), ("initialized", jBool false), ("name", jStr ""),
            ("labels", jArr []), ("taints", jArr []), ("alloc", jObj [("cpu", jInt 0), ("mem", jInt 0), ("pods", jInt 0)]),
            ("markedForDeletion", jBool false), ("active", jBool false)]
    else
      jObj [("tracked", jBool true), ("managed", jBool sn.managed), ("registered", jBool sn.registered), ("initialized", jBool sn.initialized),
            ("name", jStr sn.name),
            ("labels", jArr ((sortPairs sn.labels).map (fun (k, v) => jArr [jStr k, jStr v]))),
            ("taints", jArr (sn.taints.map (fun t => jObj [("key", jStr t.key), ("value", jStr t.value), ("effect", jStr t.effect)]))),
            ("alloc", jObj [("cpu", jInt a.cpu), ("mem", jInt a.mem), ("pods", jInt a.pods)]),
            ("markedForDeletion", jBool sn.markedForDeletion), ("active", jBool (!sn.markedForDeletion))]
  -- the property's reading of the view, on what the real StateNode presented
  let iTracked ← boolF impl "tracked"
  let mut why : Option String := none
  if iTracked then
    let iInit ← boolF impl "initialized"
    let iTaints ← listF taint impl "taints"
    let iAlloc ← resOf (← fld impl "alloc")
    let iActive ← boolF impl "active"
    match claim with
    | some c =>
      if !iInit then
        match iTaints.find? (fun t => Karp.Spec.Admissible.ephemeralTaint t || c.startupTaints.any (fun st => st.key == t.key && st.effect == t.effect)) with
        | some t => why := why <|> some s!"[view-taints] the in-flight node is not initialized but presents the startup / ephemeral taint {t.key}:{t.effect} to the scheduler"
        | none => pure ()
        let want (nodeV claimV : Int) : Int := if node.isSome && nodeV > 0 then nodeV else claimV
        let nd : Res := (node.map (·.1.alloc)).getD { cpu := 0, mem := 0, pods := 0 }
        let w : Res := { cpu := want nd.cpu c.alloc.cpu, mem := want nd.mem c.alloc.mem, pods := want nd.pods c.alloc.pods }
        if iAlloc != w then
          why := why <|> some s!"[view-alloc] the in-flight node presents allocatable {iAlloc.cpu}m/{iAlloc.mem}Mi/{iAlloc.pods}; NodeClaim promises {c.alloc.cpu}m/{c.alloc.mem}Mi/{c.alloc.pods}, node reports {nd.cpu}m/{nd.mem}Mi/{nd.pods} (zero = not reported yet)"
      if (marked || c.deleting) && iActive then
        why := why <|> some "[view-deleting] a node marked for deletion (or whose NodeClaim is being deleted) survives StateNodes.Active() and would be counted as capacity"
    | none =>
      if (marked || ((node.map (·.2)).getD false)) && iActive then
        why := why <|> some "[view-deleting] a node marked for deletion survives StateNodes.Active() and would be counted as capacity"
  pure { model := some model, spec := some why.isNone, why := why.getD "",
         extra := why.map (fun w => jObj [("signature", jStr (sigOf w "view"))]) }

/-! ### `c04.synced`: the gate -/

open Karp.Provision in
structure SyncSim where
  st : Sync
  apiPid : List (String × String)     -- NodeClaims in the API with their provider ids

open Karp.Provision in
def simOp (m : SyncSim) (op : String) : Except String SyncSim := do
  let parts := op.splitOn ":"
  let kind := parts.head!
  let n := (parts.drop 1).headD ""
  let inApi := m.apiPid.any (·.1 == n)
  match kind with
  | "api-claim" =>
    if inApi then pure m else pure { st := { m.st with apiClaims := n :: m.st.apiClaims }, apiPid := m.apiPid ++ [(n, "")] }
  | "create" =>
    if inApi then pure m else
      pure { st := { (m.st.updateNodeClaim n "") with apiClaims := n :: m.st.apiClaims }, apiPid := m.apiPid ++ [(n, "")] }
  | "see-claim" =>
    match m.apiPid.lookup n with
    | none => pure m
    | some pid => pure { m with st := m.st.updateNodeClaim n pid }
  | "launch" =>
    match m.apiPid.lookup n with
    | some "" => pure { m with apiPid := m.apiPid.map (fun (k, v) => if k == n then (k, "fake:///" ++ n) else (k, v)) }
    | _ => pure m
  | "del-claim" =>
    pure { st := { (m.st.deleteNodeClaim n) with apiClaims := m.st.apiClaims.filter (· != n) }, apiPid := m.apiPid.filter (·.1 != n) }
  | "api-node" =>
    if m.st.apiNodes.contains n then pure m else pure { m with st := { m.st with apiNodes := n :: m.st.apiNodes } }
  | "see-node" =>
    if m.st.apiNodes.contains n then pure { m with st := m.st.updateNode n } else pure m
  | "del-node" =>
    pure { m with st := { (m.st.deleteNode n) with apiNodes := m.st.apiNodes.filter (· != n) } }
  | "unsync" => pure { m with st := { m.st with hasSynced := false } }
  | _ => throw s!"bad op {op}"

open Karp.Provision in
def opSynced (inp impl : Json) : Except String Resp := do
  if (fldOpt impl "panic").isSome then return { allowed := some false, spec := some false, why := "cluster state panicked" }
  let ops ← listF asStr inp "ops"
  let mut m : SyncSim := { st := { hasSynced := false, claims := [], nodes := [], apiClaims := [], apiNodes := [] }, apiPid := [] }
  let mut verdicts : List Bool := []
  let mut unl : List (List String) := []
  for op in ops do
    m ← simOp m op
    let (ok, st') := m.st.synced
    m := { m with st := st' }
    verdicts := verdicts ++ [ok]
    unl := unl ++ [sortStrs ((m.st.claims.filter (·.2 == "")).map (·.1))]
  let model := jObj [("synced", jArr (verdicts.map jBool)), ("unlaunched", jArr (unl.map (fun l => jArr (l.map jStr))))]
  -- the gate, on what the real cluster reported
  let iSynced ← boolList (← fld impl "synced")
  let iUnl ← listOf strList (← fld impl "unlaunched")
  let bad := (iSynced.zip iUnl).zipIdx.find? (fun ((b, u), _) => b && !u.isEmpty)
  match bad with
  | some ((_, u), i) =>
    let w := s!"[gate] after event {i} Cluster.Synced() is true while NodeClaim(s) {u} tracked by cluster state are not launched: a scheduling pass may run"
    pure { model := some model, spec := some false, why := w, extra := some (jObj [("signature", jStr "gate")]) }
  | none => pure { model := some model, spec := some true }


/-! ### `c04.mark`: the deletion mark -/

open Karp.Provision in
def markEvOf (op : String) : Except String (MarkEv × String × List String) := do
  let parts := op.splitOn ":"
  let kind := parts.head!
  let arg := (parts.drop 1).headD ""
  let ids := (arg.splitOn ",").filter (· != "")
  match kind with
  | "see-node" => pure (.seeNode arg, kind, [])
  | "see-claim" => pure (.seeClaim arg, kind, [])
  | "del-node" => pure (.delNode arg, kind, [])
  | "del-claim" => pure (.delClaim arg, kind, [])
  | "mark" => pure (.mark ids, kind, ids)
  | "unmark" => pure (.unmark ids, kind, ids)
  | _ => throw s!"bad op {op}"

open Karp.Provision in
def opMark (inp impl : Json) : Except String Resp := do
  if (fldOpt impl "panic").isSome then return { allowed := some false, spec := some false, why := "cluster state panicked" }
  let ops ← listF asStr inp "ops"
  let names := ["a", "b", "c"]
  let mut st : MarkSt := []
  let mut obs : List Json := []
  let mut evs : List (String × List String) := []
  for op in ops do
    let (ev, kind, ids) ← markEvOf op
    st := markStep st ev
    let pick (f : String → Bool) : Json := jArr ((names.filter f).map jStr)
    obs := obs ++ [jObj [("tracked", pick st.tracked), ("marked", pick st.marked), ("active", pick (fun n => st.active.contains n)),
                         ("deleting", pick (fun n => st.deleting.contains n))]]
    evs := evs ++ [(kind, ids)]
  let model := jObj [("obs", jArr obs)]
  let view (j : Json) : Except String MarkView := do
    pure { tracked := ← listF asStr j "tracked", marked := ← listF asStr j "marked", active := ← listF asStr j "active", deleting := ← listF asStr j "deleting" }
  let iObs ← (← arrD impl "obs").mapM view
  let mut before : MarkView := { tracked := [], marked := [], active := [], deleting := [] }
  let mut why : Option String := none
  for ((kind, ids), after) in evs.zip iObs do
    if why.isNone then
      why := (markJudge before after kind ids).map (fun w => s!"{w} (event {kind}:{ids})")
    before := after
  pure { model := some model, spec := some why.isNone, why := why.getD "",
         extra := why.map (fun w => jObj [("signature", jStr (sigOf w "mark"))]) }

/-! ### `c04.account`: which pods a node is charged for, over histories of API changes and informer deliveries -/

namespace Acct
open Karp.PodAcct Karp.Spec.Assigned

/-- the universe of the harness (`harness/internal/c04/account.go`): pods, the daemonset-owned ones, nodes -/
def pods : List String := ["a", "b", "c", "d"]
def daemonPods : List String := ["d"]
def nodes : List String := ["n0", "n1"]

/-- the API change (or informer delivery) an op of the harness amounts to, given what the API holds -/
def evOf (api : String → Option (PodRec String)) (op : String) : Except String (Option (Ev String String)) := do
  let parts := op.splitOn ":"
  let kind := parts.head!
  let x := (parts.drop 1).headD ""
  let y := (parts.drop 2).headD ""
  match kind with
  | "new" => pure (if (api x).isNone then some (.podSet x { node := none, terminal := false, terminating := false }) else none)
  | "bind" =>
    match api x with
    | none => pure (some (.podSet x { node := some y, terminal := false, terminating := false }))
    | some r => pure (if r.node.isNone && !r.terminal && !r.terminating then some (.podSet x { r with node := some y }) else none)
  | "finish" | "fail" =>
    match api x with
    | some r => pure (if r.terminal then none else some (.podSet x { r with terminal := true }))
    | none => pure none
  | "term" =>
    match api x with
    | some r => pure (if r.terminating then none else some (.podSet x { r with terminating := true }))
    | none => pure none
  | "gone" => pure (if (api x).isSome then some (.podGone x) else none)
  | "node" => pure (some (.nodeSet x))
  | "nonode" => pure (some (.nodeGone x))
  | "see-pod" => pure (some (.seePod x))
  | "see-node" => pure (some (.seeNode x))
  | _ => throw s!"bad op {op}"

def chargedOn (acct : String → String → Bool) (n : String) : List String := pods.filter (fun p => acct n p)

def nodeJson (s : St String String) (n : String) : Json :=
  let ch := if s.tracked n then chargedOn s.acct n else []
  jObj [("name", jStr n), ("tracked", jBool (s.tracked n)), ("requests", jArr (ch.map jStr)), ("ports", jArr (ch.map jStr)),
        ("daemon", jArr ((ch.filter daemonPods.contains).map jStr)), ("pods", jNat ch.length)]

end Acct

open Karp.PodAcct Karp.Spec.Assigned in
def opAccount (inp impl : Json) : Except String Resp := do
  if (fldOpt impl "panic").isSome then return { allowed := some false, spec := some false, why := "cluster state panicked" }
  if let some (.str e) := fldOpt impl "harness_error" then throw s!"harness error: {e}"
  let ops ← listF asStr inp "ops"
  let isteps ← arrD impl "steps"
  if isteps.length != ops.length then throw "steps / ops length mismatch"
  let mut st : St String String := St.init
  let mut msteps : List Json := []
  -- specification side: what the API holds (the model state's copy is the same function of the ops) and which pods have an
  -- undelivered change, from the informer's own answer ("requeue")
  let mut dirty : List String := []
  let mut why : Option String := none
  for (op, (ij, i)) in ops.zip isteps.zipIdx do
    let ev ← Acct.evOf st.apiPod op
    let before := st
    match ev with
    | none => pure ()
    | some e => st := step st e
    let requeue := match ev with
      | some (.seePod k) => (match before.apiPod k with
          | some r => !(updatePod before k r).2
          | none => false)
      | _ => false
    msteps := msteps ++ [jObj [("requeue", jBool requeue), ("nodes", jArr (Acct.nodes.map (Acct.nodeJson st)))]]
    -- the independent judgement of what the real cluster state holds after this event
    let iReq ← boolD ij "requeue" false
    match ev with
    | some (.podSet k _) => dirty := if dirty.contains k then dirty else k :: dirty
    | some (.podGone k) => dirty := if dirty.contains k then dirty else k :: dirty
    | some (.seePod k) => if !iReq then dirty := dirty.filter (· != k)
    | _ => pure ()
    if why.isNone then
      for nj in (← arrD ij "nodes") do
        let n ← strF nj "name"
        -- a node whose Node object cluster state does not hold (unknown, or only the NodeClaim half is left) can be
        -- charged for nothing, delivered or not
        let tracked ← boolF nj "tracked"
        let want := if tracked then Acct.pods.filter (fun p => assigned st.apiPod n p && !dirty.contains p) else []
        let judged := fun (l : List String) => if tracked then l.filter (fun p => !dirty.contains p) else l
        let req := judged (← listF asStr nj "requests")
        let ports := judged (← listF asStr nj "ports")
        let daemon := judged (← listF asStr nj "daemon")
        for (what, got, exp) in [("the requests", req, want), ("the host ports", ports, want), ("the daemonset requests", daemon, want.filter Acct.daemonPods.contains)] do
          if why.isSome then continue
          match got.find? (fun p => !exp.contains p) with
          | some p =>
            why := some (if tracked then s!"[phantom] after event {i} ({op}) node {n} is still charged for {what} of pod {p}, which is not assigned to it any more (finished, removed or bound elsewhere) although its last change has been delivered"
                         else s!"[phantom] after event {i} ({op}) the state node of {n}, whose Node object is gone, is still charged for {what} of pod {p}")
          | none =>
            match exp.find? (fun p => !got.contains p) with
            | some p => why := some s!"[forgotten] after event {i} ({op}) node {n} is not charged for {what} of pod {p}, which is bound to it, has not finished and whose last change has been delivered"
            | none => pure ()
  let model := jObj [("steps", jArr msteps)]
  match why with
  | some w => pure { model := some model, spec := some false, why := w, extra := some (jObj [("signature", jStr ("account-" ++ sigOf w "account"))]) }
  | none => pure { model := some model, spec := some true }

/-! ### `c04.churn`: a pass after the bound pods went through their lifecycle -/

open Karp.Spec.Assigned in
def opChurn (inp impl : Json) : Except String Resp := do
  let s ← scenario (← fld inp "scenario")
  if (fldOpt impl "panic").isSome then return { allowed := some false, spec := some false, why := "the real code panicked" }
  if let some (.str e) := fldOpt impl "harness_error" then throw s!"harness error: {e}"
  let changes ← listF (fun j => do
      pure ({ kind := ← strF j "kind", pod := ← strD j "pod" "", node := ← strD j "node" "" } : Change)) inp "events"
  -- outside this op's domain: lifecycle changes of pods that carry inter-pod constraints (whether a finished or
  -- terminating pod still "targets" others is not what C04 is about)
  let t := touched changes
  if (s.allPods.filter (fun p => t.contains p.name)).any (fun p => !p.affinity.isEmpty || !p.spreads.isEmpty) then
    return { allowed := some true, spec := some true }
  let p ← passObs impl
  pure (toResp (judgePass (scenarioAfter s changes) p) "churn")

def handle : Handler := fun op inp impl =>
  match op with
  | "c04.history" => opHistory false inp impl
  | "c04.repass" => opHistory true inp impl
  | "c04.pass" => opPass inp impl
  | "c04.view" => opView inp impl
  | "c04.synced" => opSynced inp impl
  | "c04.mark" => opMark inp impl
  | "c04.account" => opAccount inp impl
  | "c04.churn" => opChurn inp impl
  | "c04.room" => opRoom inp impl
  | _ => .error s!"unknown op {op}"

end Karp.Driver.C04
