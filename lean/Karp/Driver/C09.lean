import Karp.Driver.Proto
import Karp.Model.Term
import Karp.Model.TermWorld
import Karp.Spec.Finalize

namespace Karp.Driver.C09
open Lean Karp.Driver Karp.Term

/-! ## decoding the shared vocabulary -/

def parseFault (s : String) : Except String Fault :=
  match s with
  | "" | "none" => pure .ok
  | "err" => pure .err
  | "conflict" => pure .conflict
  | "notfound" => pure .notFound
  | "crash" => pure .crash
  -- provider calls only: the near misses of "instance not found" (an error that is or wraps a Kubernetes API
  -- NotFound / Conflict / Gone for another object, the provider's other typed errors, a context error, a message that
  -- merely says "not found") are failures like any other: none of them confirms that the instance is gone
  | "apiNotFound" | "apiNotFoundBare" | "apiConflict" | "apiGone" | "ncnr" | "ice" | "ctx" | "notFoundText" => pure .err
  -- the provider answers honestly, a not-found answer wrapped in another error (still a NodeClaimNotFoundError)
  | "wrapnf" => pure .ok
  | _ => .error s!"bad fault class {s}"

def faultOf (faults : Json) (k : String) : Except String Fault :=
  match fldOpt faults k with
  | none => pure .ok
  | some v => do parseFault (← asStr v)

def parseCondS (s : String) : Except String CondS :=
  match s with
  | "" => pure .absent
  | "True" => pure .true_
  | "False" => pure .false_
  | "Unknown" => pure .unknown
  | _ => .error s!"bad condition status {s}"

def condStr : CondS → String
  | .absent => "" | .true_ => "True" | .false_ => "False" | .unknown => "Unknown"

def parseInst (s : String) : Except String Inst :=
  match s with
  | "running" => pure .running
  | "terminating" => pure .terminating
  | "gone" => pure .gone
  | _ => .error s!"bad instance state {s}"

def instStr : Inst → String
  | .running => "running" | .terminating => "terminating" | .gone => "gone"

def resStr : Res → String
  | .none => "none" | .requeue => "requeue" | .after n => s!"after:{n}" | .crash => "crash"

def actStr : Act → String
  | .deleteClaim => "deleteClaim" | .providerGet => "providerGet" | .patchNode => "patchNode"
  | .providerDelete => "providerDelete" | .patchClaimStatus => "patchClaimStatus"
  | .removeNodeFinalizer => "removeNodeFinalizer" | .annotateClaim => "annotateClaim" | .deleteNode => "deleteNode"
  | .removeClaimFinalizer => "removeClaimFinalizer" | .addClaimFinalizer => "addClaimFinalizer"
  | .providerCreate => "providerCreate" | .patchClaim => "patchClaim"

/-- the model's reading of the toleration variants (what `ToleratesDisruptedNoScheduleTaint` answers) -/
def tolVariantTolerates (v : String) : Bool := v == "exact" || v == "equal" || v == "all" || v == "anyEffect"

/-- the specification's reading: the variant as a `core/v1` toleration, judged by the Kubernetes rule -/
def tolVariantSpec (v : String) : List Karp.Spec.Finalize.Toleration :=
  let k := "karpenter.sh/disrupted"
  match v with
  | "exact" => [{ key := k, opExists := true, value := "", effect := "NoSchedule" }]
  | "equal" => [{ key := k, opExists := false, value := "", effect := "NoSchedule" }]
  | "all" => [{ key := "", opExists := true, value := "", effect := "" }]
  | "anyEffect" => [{ key := k, opExists := true, value := "", effect := "" }]
  | "wrongEffect" => [{ key := k, opExists := true, value := "", effect := "NoExecute" }]
  | "otherKey" => [{ key := "example.com/other", opExists := true, value := "", effect := "NoSchedule" }]
  | _ => []

structure PodIn where
  name : String
  tol : String
  mirror : Bool
  phase : String
  deletedAt : Option Int
  pv : Int
  pvcMissing : Bool
  otherNode : Bool

def parsePod (j : Json) : Except String PodIn := do
  pure { name := ← strF j "name", tol := ← strF j "tol", mirror := ← boolD j "mirror" false, phase := ← strF j "phase",
         deletedAt := ← intO j "deletedAt", pv := ← intF j "pv", pvcMissing := ← boolD j "pvcMissing" false,
         otherNode := ← boolD j "otherNode" false }

def PodIn.toModel (p : PodIn) : Pod :=
  { name := p.name, tolerates := tolVariantTolerates p.tol, mirror := p.mirror,
    terminal := p.phase == "Succeeded" || p.phase == "Failed", deletedAt := p.deletedAt,
    hasVol := p.pv ≥ 0, pv := if p.pv ≥ 0 && !p.pvcMissing then some p.pv.toNat else none, onNode := !p.otherNode }

def PodIn.toSpec (p : PodIn) (phase : String) (deletedAt : Option Int) : Karp.Spec.Finalize.Pod :=
  { tolerations := tolVariantSpec p.tol, static := p.mirror, phase := phase, deletedAt := deletedAt,
    pvs := if p.pv ≥ 0 && !p.pvcMissing then [p.pv.toNat] else [] }

structure VAIn where
  name : String
  pv : Int
  otherNode : Bool
  /-- deletionTimestamp set, held by the external-attacher's finalizer -/
  deleting : Bool
  /-- status.attached = false -/
  unattached : Bool

def parseVA (j : Json) : Except String VAIn := do
  pure { name := ← strF j "name", pv := ← intF j "pv", otherNode := ← boolD j "otherNode" false,
         deleting := ← boolD j "deleting" false, unattached := ← boolD j "unattached" false }

def VAIn.toModel (v : VAIn) : VA :=
  { name := v.name, pv := if v.pv ≥ 0 then some v.pv.toNat else none, onNode := !v.otherNode,
    terminating := v.deleting, unattached := v.unattached }

def parseTermAnn (j : Json) : Except String TermAnn := do
  if ← boolD j "termBad" false then pure .bad
  else match ← intO j "term" with
    | none => pure .absent
    | some t => pure (.at t)

def parseClaimObs (j : Json) : Except String ClaimObs := do
  pure { deleting := ← boolF j "deleting",
         conds := { drained := ← parseCondS (← strF j "drained"), drainedAt := ← intF j "drainedAt",
                    vol := ← parseCondS (← strF j "vol"), inst := ← parseCondS (← strF j "inst") },
         term := ← parseTermAnn j, mine := !(← boolD j "otherPid" false) }

def parseNodeObs (j : Json) : Except String NodeObs := do
  pure { deleting := ← boolF j "deleting", finalizer := ← boolF j "finalizer", managed := ← boolF j "managed",
         ready := (← strF j "ready") == "True", tainted := (← strF j "taint") == "ok", lb := ← boolF j "lb",
         hasPid := ← boolF j "hasPid" }

def parseNodeFaults (j : Json) : Except String NodeFaults := do
  pure { listClaims := ← faultOf j "listClaims", deleteClaim := ← faultOf j "deleteClaim", patchNode := ← faultOf j "patchNode",
         listPodsDrain := ← faultOf j "listPods#0", listVAs := ← faultOf j "listVAs", listPodsFilter := ← faultOf j "listPods#1",
         getPVC := ← faultOf j "getPVC", patchStatus := ← faultOf j "patchClaimStatus", removeFinalizer := ← faultOf j "removeNodeFinalizer" }

/-! ## judging snapshots with the independent specification -/

structure Verdict where
  ok : Bool := true
  why : String := ""
  sig : String := ""

/-- both verdicts; the signature of a failing combination lists every violated class once (so that a new violation
    next to a recorded finding is still reported) -/
def Verdict.and (a b : Verdict) : Verdict :=
  if a.ok then b
  else if b.ok then a
  else
    let parts := (a.sig.splitOn "+") ++ (b.sig.splitOn "+")
    let uniq := parts.foldl (fun acc x => if acc.contains x then acc else acc ++ [x]) []
    let sorted := uniq.toArray.qsort (· < ·) |>.toList
    { ok := false, why := a.why, sig := "+".intercalate sorted }

/-- pods of the input (static facts) by name -/
abbrev PodTable := List (String × PodIn)
abbrev VATable := List (String × VAIn)

def nodeSnapOf (pods : PodTable) (vas : VATable) (s : Json) : Except String Karp.Spec.Finalize.NodeSnap := do
  let now ← intF s "now"
  let podFacts ← arrF s "pods"
  let specPods ← podFacts.mapM (fun pf => do
    let name ← strF pf "name"
    match pods.lookup name with
    | none => throw s!"snapshot names unknown pod {name}"
    | some p => pure (p.toSpec (← strF pf "phase") (← intO pf "deletedAt")))
  let vaNames ← strList (← fld s "vas")
  let specVAs ← vaNames.mapM (fun n => match vas.lookup n with
    | none => throw s!"snapshot names unknown attachment {n}"
    | some v => pure (if v.pv ≥ 0 then some v.pv.toNat else none))
  pure { now := now, tainted := ← boolF s "tainted", ready := (← strF s "ready") == "True", claims := ← natF s "claims",
         deadline := ← intO s "termTime", pods := specPods, vas := specVAs, instanceGone := (← strF s "instance") == "gone" }

/-- for the diagnostic only: which attachments exist, and which of them are deleted-but-held -/
def vaNote (s : Json) : String :=
  let names (k : String) : List String := match fldOpt s k with
    | some j => (strList j).toOption.getD []
    | none => []
  s!" attachments={names "vas"} (terminating: {names "vasTerminating"})"

def judgeNodeRemoval (pods : PodTable) (vas : VATable) (s : Json) : Except String Verdict := do
  let snap ← nodeSnapOf pods vas s
  if Karp.Spec.Finalize.nodeRemovalOk snap then pure {}
  else
    let why := s!"the Node's termination finalizer was removed while: tainted={snap.tainted} drained={snap.drained} volumesOk={snap.volumesOk} instanceGone={snap.instanceGone} ready={snap.ready} claims={snap.claims}" ++ vaNote s
    pure { ok := false, why := why, sig := if snap.claims > 1 then "node:duplicate-claims" else "node:finalizer-early" }

def judgeInstanceDelete (pods : PodTable) (vas : VATable) (s : Json) : Except String Verdict := do
  let snap ← nodeSnapOf pods vas s
  if Karp.Spec.Finalize.instanceDeleteOk snap then pure {}
  else pure { ok := false, sig := "node:instance-delete-early",
              why := s!"the provider was asked to terminate the instance while: tainted={snap.tainted} drained={snap.drained} volumesOk={snap.volumesOk}" ++ vaNote s }

def judgeClaimRemoval (s : Json) : Except String Verdict := do
  let snap : Karp.Spec.Finalize.ClaimSnap :=
    { registered := (← strF s "registered") == "True", nodes := ← natF s "nodes", launched := ← boolF s "launched",
      instanceGone := (← strF s "instance") == "gone" }
  if Karp.Spec.Finalize.claimRemovalOk snap then pure {}
  else
    let pidSet ← boolF s "pidSet"
    let lost ← boolD s "lost" false
    let sig := if snap.registered && snap.nodes > 0 then "claim:nodes-remain"
      else if !pidSet then "claim:unpersisted-provider-id"
      else if lost then "claim:instance-lost-by-relaunch" else "claim:instance-remains"
    pure { ok := false, sig := sig,
           why := s!"the NodeClaim's termination finalizer was removed while: registered={snap.registered} nodes={snap.nodes} launched={snap.launched} instanceGone={snap.instanceGone} providerIdPersisted={pidSet}" }

def judgeSnapshots (pods : PodTable) (vas : VATable) (removed asked : List Json) : Except String Verdict := do
  let mut v : Verdict := {}
  for s in removed do
    let k ← strF s "kind"
    let r ← if k == "node" then judgeNodeRemoval pods vas s else judgeClaimRemoval s
    v := v.and r
  for s in asked do
    v := v.and (← judgeInstanceDelete pods vas s)
  pure v

def Verdict.toResp (v : Verdict) (model : Option Json) : Resp :=
  { model := model, spec := some v.ok, why := v.why,
    extra := if v.ok then none else some (jObj [("signature", jStr v.sig)]) }

/-! ## c09.node -/

def nodeOp (inp impl : Json) : Except String Resp := do
  let now ← intF inp "now"
  let n ← parseNodeObs (← fld inp "node")
  let claims ← (← arrF inp "claims").mapM parseClaimObs
  let podIns ← (← arrF inp "pods").mapM parsePod
  let vaIns ← (← arrF inp "vas").mapM parseVA
  let inst ← parseInst (← strF inp "instance")
  let fj ← fld inp "faults"
  let f ← parseNodeFaults fj
  -- a Node without provider id: `Get("")` finds nothing
  let getOut := provAnswer (if n.hasPid then inst else .gone) (← faultOf fj "providerGet")
  let delOut := provAnswer inst (← faultOf fj "providerDelete")
  let o := nodeReconcile now n claims (podIns.map (·.toModel)) (vaIns.map (·.toModel)) f getOut delOut
  -- the model's account of the end state
  let mineIdx : List Nat := (List.range claims.length).filter (fun i => n.hasPid && (claims.getD i default).mine)
  let single : Option Nat := match mineIdx with | [i] => some i | _ => none
  let claimsAfter := (List.range claims.length).map (fun i =>
    let c := claims.getD i default
    let isSingle := single == some i
    let conds := if isSingle then (o.conds.getD c.conds) else c.conds
    jObj [("exists", jBool true), ("deleting", jBool (c.deleting || (isSingle && o.deletedClaim))),
          ("drained", jStr (condStr conds.drained)), ("vol", jStr (condStr conds.vol)), ("inst", jStr (condStr conds.inst))])
  let instAfter := if o.triggered && inst = .running then Inst.terminating else inst
  let model := jObj [
    ("calls", jArr (o.calls.map (fun a => jStr (actStr a)))),
    ("result", jStr (resStr o.res)), ("err", jBool o.err),
    ("nodeGone", jBool o.removed), ("finalizer", jBool (!o.removed && n.finalizer)),
    ("tainted", jBool (!o.removed && (n.tainted || o.taintPatched))),
    ("claims", jArr claimsAfter), ("instance", jStr (instStr instAfter)),
    -- ground-truth snapshots are observations, not model outputs: echoed
    ("removed", (fldOpt impl "removed").getD (jArr [])), ("asked", (fldOpt impl "asked").getD (jArr []))]
  let removed ← arrD impl "removed"
  let asked ← arrD impl "asked"
  let v ← judgeSnapshots (podIns.map (fun p => (p.name, p))) (vaIns.map (fun v => (v.name, v))) removed asked
  pure (v.toResp (some model))

/-! ## c09.claim -/

def parseClaimState (j : Json) : Except String ClaimState := do
  let fresh ← boolD j "fresh" false
  let term : TermAnn := match ← intO j "term" with | none => .absent | some t => .at t
  let tgp : Option Nat := (← intO j "tgp").map Int.toNat
  let launched ← parseCondS ((← strO j "launched").getD "")
  let registered ← parseCondS ((← strO j "registered").getD "")
  let inst ← parseCondS ((← strO j "inst").getD "")
  pure { managed := ← boolF j "managed", deleting := ← boolD j "deleting" false, deletedAt := (← intO j "deletedAt").getD 0,
         finalizer := ← boolF j "finalizer", pid := ← boolD j "pid" false, fresh := fresh,
         launched := if fresh then .absent else launched,
         registered := if fresh then .absent else registered,
         inst := if fresh then .absent else inst, term := term, tgp := tgp }

def parseNodeRef (j : Json) : Except String NodeRef := do
  pure { name := ← strF j "name", deleting := ← boolD j "deleting" false, held := ← boolD j "held" false,
         mine := !(← boolD j "otherPid" false) }

def parseClaimFaults (j : Json) : Except String ClaimFaults := do
  pure { annotate := ← faultOf j "annotateClaim", listNodes := ← faultOf j "listNodes", deleteNode := ← faultOf j "deleteNode",
         patchStatus := ← faultOf j "patchClaimStatus", removeFinalizer := ← faultOf j "removeClaimFinalizer",
         addFinalizer := ← faultOf j "addClaimFinalizer", patchClaim := ← faultOf j "patchClaim" }

def parseCreateOut (faults : Json) : Except String CreateOut :=
  match fldOpt faults "providerCreate" with
  | none => pure .ok
  | some v => do
    match ← asStr v with
    | "" | "none" => pure .ok
    | "ice" => pure .ice
    | "ncnr" => pure .ncnr
    | "crash" => pure .crash
    | _ => pure .err

/-- the stored launch condition after a pass -/
def launchedAfter (c : ClaimState) (o : ClaimOut) : CondS :=
  if c.fresh then (if o.statusPersisted then (if o.launchPersisted then .true_ else .unknown) else .absent) else c.launched

def termAfter (c : ClaimState) (o : ClaimOut) : TermAnn :=
  if o.annotated then .at (c.deletedAt + (c.tgp.getD 0 : Nat)) else c.term

def claimOp (inp impl : Json) : Except String Resp := do
  let cj ← fld inp "claim"
  let c ← parseClaimState cj
  let nodes ← (← arrF inp "nodes").mapM parseNodeRef
  let inst ← parseInst (← strF inp "instance")
  let fj ← fld inp "faults"
  let f ← parseClaimFaults fj
  let delOut := provAnswer inst (← faultOf fj "providerDelete")
  let createOut ← parseCreateOut fj
  let o := claimReconcile c nodes false f delOut createOut
  let gone := o.removed
  let res := if !c.deleting && o.res ≠ .crash then "-" else resStr o.res
  let nodesSorted := nodes.toArray.qsort (fun a b => a.name < b.name) |>.toList
  let listed := c.registered = .true_ && c.pid
  let nodesAfter := nodesSorted.map (fun n =>
    let deletedNow := listed && n.mine && !n.deleting && o.nodesDeleted > 0
    jObj [("name", jStr n.name), ("exists", jBool (!(deletedNow && !n.held))), ("deleting", jBool ((n.deleting || deletedNow) && !(deletedNow && !n.held)))])
  let instAfter : Inst :=
    if o.created then .running
    else if o.triggered && inst = .running then .terminating else inst
  let termJ : Json := if gone then Json.null else match termAfter c o with | .at t => jInt t | _ => Json.null
  let model := jObj [
    ("calls", jArr (o.calls.map (fun a => jStr (actStr a)))),
    ("result", jStr res), ("err", jBool o.err),
    ("exists", jBool (!gone)), ("deleting", jBool (!gone && (c.deleting || o.selfDeleted))),
    ("finalizer", jBool (!gone && (c.finalizer || o.finalizerAdded))),
    ("annotated", termJ),
    ("inst", jStr (if gone then "" else condStr (if o.instPersisted then .true_ else c.inst))),
    ("pid", jBool (!gone && (c.pid || o.launchPersisted))),
    ("launched", jStr (if gone then "" else condStr (launchedAfter c o))),
    ("nodesAfter", jArr nodesAfter), ("instance", jStr (instStr instAfter)),
    ("removed", (fldOpt impl "removed").getD (jArr []))]
  let removed ← arrD impl "removed"
  let v ← judgeSnapshots [] [] removed []
  pure (v.toResp (some model))

/-! ## c09.protocol -/

def parseProvFaults (j : Json) : Except String ProvFaults := do
  pure { get := ← faultOf j "providerGet", delete := ← faultOf j "providerDelete", create := ← parseCreateOut j }

/-- an event, and the static facts of the pod / attachment it introduces (for the specification's lookup tables) -/
structure Introduced where
  pod : Option PodIn := none
  va : Option VAIn := none

def parseEvent (j : Json) : Except String (Event × Introduced) := do
  let op ← strF j "op"
  let fj : Json := (fldOpt j "faults").getD (jObj [])
  match op with
  | "rn" => pure (.reconcileNode (← parseNodeFaults fj) (← parseProvFaults fj), {})
  | "rc" => pure (.reconcileClaim (← parseClaimFaults fj) (← parseProvFaults fj), {})
  | "delNode" => pure (.deleteNode, {})
  | "delClaim" => pure (.deleteClaim, {})
  | "podGone" => pure (.podGone (← strF j "name"), {})
  | "podTerm" => pure (.podTerminating (← strF j "name"), {})
  | "podAdd" => do
    let p ← parsePod (← fld j "pod")
    pure (.podAdd p.toModel, { pod := some p })
  | "vaGone" => pure (.vaGone (← strF j "name"), {})
  | "vaAdd" => do
    let v ← parseVA (← fld j "va")
    pure (.vaAdd v.toModel, { va := some v })
  | "vaTerm" => pure (.vaTerminating (← strF j "name"), {})
  | "tick" => pure (.tick (← natF j "d"), {})
  | "instGone" => pure (.instanceGone, {})
  | "ready" => pure (.setReady true, {})
  | "notReady" => pure (.setReady false, {})
  | "restart" => pure (.restart, {})
  | _ => throw s!"bad event {op}"

def initialWorld (inp : Json) (pods : List PodIn) (vas : List VAIn) : Except String World := do
  let mode ← strF inp "mode"
  let now ← intF inp "now"
  let tgp : Option Nat := (← intO inp "tgp").map Int.toNat
  let ready := (← strF inp "nodeReady") == "True"
  let tainted := (← strF inp "taint") == "ok"
  let nodePresent ← boolF inp "nodePresent"
  let st0 : ClaimState := { managed := true, deleting := false, deletedAt := 0, finalizer := true, pid := true, fresh := false,
                            launched := .true_, registered := .true_, inst := .absent, term := .absent, tgp := tgp }
  let node (fin : Bool) : NodeObs := { deleting := false, finalizer := fin, managed := true, ready := ready, tainted := tainted, lb := false, hasPid := true }
  let base : World := { now := now, node := none, claim := none, pods := pods.map (·.toModel), vas := vas.map (·.toModel), inst := .running }
  match mode with
  | "running" => pure { base with node := some (node true), claim := some { st := st0 } }
  | "unregistered" =>
    pure { base with node := if nodePresent then some (node false) else none, claim := some { st := { st0 with registered := .unknown } } }
  | "fresh" =>
    pure { base with inst := .gone, claim := some { st := { st0 with finalizer := false, pid := false, fresh := true, launched := .absent, registered := .absent } } }
  | _ => throw s!"bad mode {mode}"

def termJson : TermAnn → Json
  | .at t => jInt t
  | _ => Json.null

def digestJson (phases : List (String × String)) (w : World) (info : PassInfo) (isReconcile : Bool) : Json :=
  let nodeJ := match w.node with
    | none => jObj [("exists", jBool false), ("deleting", jBool false), ("finalizer", jBool false), ("tainted", jBool false), ("ready", jStr "")]
    | some n => jObj [("exists", jBool true), ("deleting", jBool n.deleting), ("finalizer", jBool n.finalizer), ("tainted", jBool n.tainted),
                      ("ready", jStr (if n.ready then "True" else "False"))]
  let claimJ := match w.claim with
    | none => jObj [("exists", jBool false), ("deleting", jBool false), ("finalizer", jBool false), ("pid", jBool false), ("fresh", jBool false),
                    ("launched", jStr ""), ("registered", jStr ""), ("drained", jStr ""), ("drainedAt", jInt 0), ("vol", jStr ""), ("inst", jStr ""),
                    ("term", Json.null)]
    | some c => jObj [("exists", jBool true), ("deleting", jBool c.st.deleting), ("finalizer", jBool c.st.finalizer), ("pid", jBool c.st.pid),
                      ("fresh", jBool c.st.fresh), ("launched", jStr (condStr c.st.launched)), ("registered", jStr (condStr c.st.registered)),
                      ("drained", jStr (condStr c.drained)), ("drainedAt", jInt (if c.drained = .absent then 0 else c.drainedAt)),
                      ("vol", jStr (condStr c.vol)), ("inst", jStr (condStr c.st.inst)), ("term", termJson c.st.term)]
  let podsSorted := (w.pods.filter (·.onNode)).toArray.qsort (fun a b => a.name < b.name) |>.toList
  let podsJ := podsSorted.map (fun p => jObj [("name", jStr p.name), ("phase", jStr ((phases.lookup p.name).getD "")), ("deletedAt", jOptInt p.deletedAt)])
  let vasSorted := ((w.vas.filter (·.onNode)).map (·.name)).toArray.qsort (· < ·) |>.toList
  let vasTermSorted := ((w.vas.filter (fun v => v.onNode && v.terminating)).map (·.name)).toArray.qsort (· < ·) |>.toList
  let res : String :=
    if !isReconcile then ""
    else if info.skipped then "skipped"
    else if info.launchPath && info.res ≠ .crash then "-"
    else resStr info.res
  jObj [("now", jInt w.now), ("node", nodeJ), ("claim", claimJ), ("pods", jArr podsJ), ("vas", jArr (vasSorted.map jStr)),
        ("vasTerminating", jArr (vasTermSorted.map jStr)),
        ("instance", jStr (instStr w.inst)), ("lost", jBool w.lost),
        ("calls", jArr (info.calls.map (fun a => jStr (actStr a)))), ("result", jStr res), ("err", jBool info.err)]

def isReconcileEvent : Event → Bool
  | .reconcileNode _ _ | .reconcileClaim _ _ => true
  | _ => false

def protoOp (inp impl : Json) : Except String Resp := do
  let podIns ← (← arrF inp "pods").mapM parsePod
  let vaIns ← (← arrF inp "vas").mapM parseVA
  let evs ← (← arrF inp "events").mapM parseEvent
  let added := evs.filterMap (·.2.pod)
  let allPods := podIns ++ added
  let allVAs := vaIns ++ evs.filterMap (·.2.va)
  let phases := allPods.map (fun p => (p.name, p.phase))
  let w0 ← initialWorld inp podIns vaIns
  -- run the model along the history
  let mut w := w0
  let mut digests : List Json := []
  for (e, _) in evs do
    let info := passInfo w e
    w := step w e
    digests := digests ++ [digestJson phases w info (isReconcileEvent e)]
  -- compare with what the real controllers did, step by step
  let implSteps ← arrD impl "steps"
  let mut allowed := true
  let mut why := ""
  if implSteps.length ≠ digests.length then
    allowed := false
    why := s!"implementation reported {implSteps.length} steps, the history has {digests.length} events"
  else
    let mut i := 0
    for (m, r) in digests.zip implSteps do
      if allowed && !jsonEq m r then
        allowed := false
        why := s!"step {i}: model {m.compress} vs implementation {r.compress}"
      i := i + 1
  -- the property, on the ground truth
  let removed ← arrD impl "removed"
  let asked ← arrD impl "asked"
  let v ← judgeSnapshots (allPods.map (fun p => (p.name, p))) (allVAs.map (fun v => (v.name, v))) removed asked
  -- "a completed deletion never orphans a cloud instance": judged on every reported state
  let mut orphan : Verdict := {}
  let mut k := 0
  for s in implSteps do
    let claimExists ← boolF (← fld s "claim") "exists"
    let instExists := (← strF s "instance") != "gone" || (← boolF s "lost")
    if orphan.ok && Karp.Spec.Finalize.orphaned claimExists instExists then
      orphan := { ok := false, sig := "orphan", why := s!"after event {k} the NodeClaim is gone while an instance launched for it still exists" }
    k := k + 1
  -- (an orphan is implied by, and reported as, a bad NodeClaim finalizer removal when there is one)
  let v := if !v.ok && (v.sig.splitOn "+").any (fun x => x.startsWith "claim:") then v else v.and orphan
  let r := v.toResp none
  pure { r with allowed := some allowed, why := if v.ok then why else r.why }

def handle : Handler := fun op inp impl =>
  match op with
  | "c09.node" => nodeOp inp impl
  | "c09.claim" => claimOp inp impl
  | "c09.protocol" => protoOp inp impl
  | _ => .error s!"unknown op {op}"

end Karp.Driver.C09
