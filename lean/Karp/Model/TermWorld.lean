/-
The termination protocol as a transition system (C09): one Node, one NodeClaim, the pods and volume attachments of
the node, the cloud instance, the clock, and what the controller process holds in memory (the launch cache).

A step is either a reconcile of one of the two controllers (the single-pass models of `Karp.Model.Term`, fed with an
observation of the world and with an arbitrary fault vector, their effects applied to the world) or an event of the
environment (a user deletes the Node / the NodeClaim, a pod goes away or starts terminating, a new pod lands on the
node, a volume attachment is removed, is deleted but held by the attacher's finalizer, or appears, time passes, the instance disappears, the kubelet stops / resumes reporting, the
controller process restarts).  The provider is honest: `Get` / `Delete` answer not-found exactly when the instance is
gone (or fail).  Reads are linearizable (informer-cache staleness is not modelled).
-/
import Karp.Model.Term

namespace Karp.Term

structure ClaimW where
  st : ClaimState
  drained : CondS := .absent
  drainedAt : Int := 0
  vol : CondS := .absent
deriving Repr, DecidableEq, Inhabited

def ClaimW.conds (c : ClaimW) : Conds := { drained := c.drained, drainedAt := c.drainedAt, vol := c.vol, inst := c.st.inst }

structure World where
  now : Int
  node : Option NodeObs
  claim : Option ClaimW
  pods : List Pod
  vas : List VA
  /-- the instance most recently launched for the claim -/
  inst : Inst
  /-- an earlier instance launched for the claim is still running and nothing refers to it any more -/
  lost : Bool := false
  /-- the launch cache (in memory) holds the claim returned by provider `Create` -/
  cache : Bool := false
deriving Repr, DecidableEq, Inhabited

/-- provider-side faults of one reconcile -/
structure ProvFaults where
  get : Fault := .ok
  delete : Fault := .ok
  create : CreateOut := .ok
deriving Repr, DecidableEq, Inhabited

inductive Event
  | reconcileNode (f : NodeFaults) (p : ProvFaults)
  | reconcileClaim (f : ClaimFaults) (p : ProvFaults)
  | deleteNode
  | deleteClaim
  | podGone (name : String)
  | podTerminating (name : String)
  | podAdd (p : Pod)
  | vaGone (name : String)
  /-- the attach-detach controller deletes the VolumeAttachment; the external-attacher's finalizer keeps the object
      (deletionTimestamp set) until the detach completes (`vaGone`) -/
  | vaTerminating (name : String)
  /-- a new VolumeAttachment of the node appears (e.g. the volume of a pod that landed late gets attached), possibly
      after `VolumesDetached` was already recorded as True -/
  | vaAdd (v : VA)
  | tick (d : Nat)
  | instanceGone
  | setReady (b : Bool)
  | restart
deriving Repr, DecidableEq, Inhabited

def floorSec (t : Int) : Int := t - t % 1000000000

/-- honest provider: not-found iff the instance is gone; an injected fault fails (or crashes) the call -/
def provAnswer (inst : Inst) (fault : Fault) : ProvOut :=
  match fault with
  | .crash => .crash
  | .ok => if inst = .gone then .notFound else .ok
  | _ => .err

/-- what the node termination controller reads -/
def World.claimObs (w : World) : List ClaimObs :=
  match w.claim with
  | none => []
  | some c => [{ deleting := c.st.deleting, conds := c.conds, term := c.st.term, mine := c.st.pid }]

/-- what the lifecycle controller reads -/
def World.nodeRefs (w : World) : List NodeRef :=
  match w.node, w.claim with
  | some n, some c => [{ name := "node-0", deleting := n.deleting, held := n.finalizer, mine := n.hasPid && c.st.pid }]
  | _, _ => []

def World.nodePass (w : World) (n : NodeObs) (f : NodeFaults) (p : ProvFaults) : NodeOut :=
  nodeReconcile w.now n w.claimObs w.pods w.vas f (provAnswer w.inst p.get) (provAnswer w.inst p.delete)

/-- the NodeClaim after an API `Delete` -/
def deleteClaimObj (now : Int) (c : ClaimW) : Option ClaimW :=
  if c.st.deleting then some c
  else if c.st.finalizer then some { c with st := { c.st with deleting := true, deletedAt := floorSec now } }
  else none

/-- the Node after an API `Delete` -/
def deleteNodeObj (n : NodeObs) : Option NodeObs :=
  if n.deleting then some n else if n.finalizer then some { n with deleting := true } else none

def triggerInst (i : Inst) : Inst := if i = .running then .terminating else i

def applyNodeOut (w : World) (n : NodeObs) (o : NodeOut) : World :=
  let claim := match w.claim with
    | none => none
    | some c =>
      let c := match o.conds with
        | none => c
        | some k => { c with drained := k.drained, drainedAt := floorSec k.drainedAt, vol := k.vol, st := { c.st with inst := k.inst } }
      if o.deletedClaim then deleteClaimObj w.now c else some c
  let node := if o.removed then none else some { n with tainted := n.tainted || o.taintPatched, lb := n.lb || o.taintPatched }
  { w with claim := claim, node := node, inst := if o.triggered then triggerInst w.inst else w.inst,
           cache := if o.res = .crash then false else w.cache }

/-- is a reconcile of this (non-deleting) claim inside the modelled domain of the launch path? -/
def launchDomain (c : ClaimState) : Bool := c.fresh || (c.launched = .true_ && c.registered = .true_)

def World.claimPass (w : World) (c : ClaimW) (f : ClaimFaults) (p : ProvFaults) : ClaimOut :=
  claimReconcile c.st w.nodeRefs w.cache f (provAnswer w.inst p.delete) p.create

/-- the stored NodeClaim after a lifecycle pass -/
def claimStAfter (st : ClaimState) (o : ClaimOut) : ClaimState :=
  let st := { st with finalizer := st.finalizer || o.finalizerAdded }
  let st := if o.annotated then { st with term := .at (st.deletedAt + (st.tgp.getD 0 : Nat)) } else st
  let st := if o.instPersisted then { st with inst := .true_ } else st
  if o.statusPersisted then
    { st with fresh := false, launched := if o.launchPersisted then .true_ else .unknown, registered := .unknown,
              pid := st.pid || o.launchPersisted }
  else st

def applyClaimOut (w : World) (c : ClaimW) (o : ClaimOut) : World :=
  let c := { c with st := claimStAfter c.st o }
  let claim : Option ClaimW := if o.removed then none else if o.selfDeleted then deleteClaimObj w.now c else some c
  let node := match w.node with
    | none => none
    | some n => if o.nodesDeleted > 0 then deleteNodeObj n else some n
  let inst := if o.created then .running else if o.triggered then triggerInst w.inst else w.inst
  -- `c.clock.Sleep(time.Second)` after the persisting patches of the launch path (the fake clock steps)
  let now := if o.statusPersisted then w.now + 1000000000 else w.now
  { w with now := now, claim := claim, node := node, inst := inst, lost := w.lost || (o.created && w.inst ≠ .gone),
           cache := if o.res = .crash then false else o.cached }

def step (w : World) : Event → World
  | .reconcileNode f p =>
    match w.node with
    | none => w
    | some n => applyNodeOut w n (w.nodePass n f p)
  | .reconcileClaim f p =>
    match w.claim with
    | none => w
    | some c =>
      if !c.st.deleting && !launchDomain c.st then w
      else applyClaimOut w c (w.claimPass c f p)
  | .deleteNode => { w with node := w.node.bind deleteNodeObj }
  | .deleteClaim => { w with claim := w.claim.bind (deleteClaimObj w.now) }
  | .podGone name => { w with pods := w.pods.filter (·.name != name) }
  | .podTerminating name =>
    { w with pods := w.pods.map (fun p => if p.name == name && p.deletedAt.isNone then { p with deletedAt := some (floorSec w.now) } else p) }
  | .podAdd p => if w.pods.any (·.name == p.name) then w else { w with pods := w.pods ++ [p] }
  | .vaGone name => { w with vas := w.vas.filter (·.name != name) }
  | .vaAdd v => if w.vas.any (·.name == v.name) then w else { w with vas := w.vas ++ [v] }
  | .vaTerminating name => { w with vas := w.vas.map (fun v => if v.name == name then { v with terminating := true } else v) }
  | .tick d => { w with now := w.now + d }
  | .instanceGone => { w with inst := .gone }
  | .setReady b => { w with node := w.node.map (fun n => { n with ready := b }) }
  | .restart => { w with cache := false }

/-- what a reconcile event reports (for the action-log comparison with the real controllers) -/
structure PassInfo where
  calls : List Act := []
  res : Res := .none
  err : Bool := false
  /-- the reconcile ran (the object exists and the pass is inside the modelled domain) -/
  ran : Bool := false
  skipped : Bool := false
  /-- lifecycle reconcile of a claim that is not being deleted (its requeue interval is not modelled) -/
  launchPath : Bool := false
deriving Repr, DecidableEq, Inhabited

def passInfo (w : World) : Event → PassInfo
  | .reconcileNode f p =>
    match w.node with
    | none => {}
    | some n => let o := w.nodePass n f p; { calls := o.calls, res := o.res, err := o.err, ran := true }
  | .reconcileClaim f p =>
    match w.claim with
    | none => {}
    | some c =>
      if !c.st.deleting && !launchDomain c.st then { skipped := true }
      else let o := w.claimPass c f p; { calls := o.calls, res := o.res, err := o.err, ran := true, launchPath := !c.st.deleting }
  | _ => {}

def run (w : World) : List Event → World
  | [] => w
  | e :: es => run (step w e) es

/-- every world visited along a history (after each event) -/
def trace (w : World) : List Event → List World
  | [] => []
  | e :: es => step w e :: trace (step w e) es

/-- the instance (or an earlier, lost one) still exists -/
def World.instanceExists (w : World) : Bool := w.inst ≠ .gone || w.lost

end Karp.Term
