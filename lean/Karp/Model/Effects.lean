/-
C18 — model of what a scheduling simulation can touch.

A pure model cannot see aliasing, so the model is a small heap:

* `Heap`   : cells addressed by `Nat`, with an allocation pointer (`next`); everything below `next` exists already.
* `Obj`    : an aggregate such as `state.StateNode`: named fields that are either scalars (stored inline) or references
             to a heap cell (a map / pointer / slice; the cell stands for the whole aggregate behind the reference).
* `copyObj`: what the generated `DeepCopyInto` does, field by field: `*out = *in` (every field copied as it is) and then,
             for the fields it treats, a fresh allocation holding a copy of what the field referred to.
* `World`  : the live cluster state (`nodes`), the cells of everything else that must not change (`shared`: API objects,
             the provider's instance types and offerings) and the pod bookkeeping / nominations as plain values.
* `simulate`: `Cluster.DeepCopyNodes()` followed by an ARBITRARY list of writes (the scheduler; a rejection or a timeout
             is just a shorter list).  Which writes are possible is not decided here: the theorems take the confinement
             of the writes (to what the copies reach, or to memory allocated later) as a hypothesis, and
             `Karp/Props/C18.lean` discharges that hypothesis from the write-effect facts regenerated from the Go source.

The second half models the two effects a *provisioning* pass does have on the live state: `Results.Record` nominating
nodes and `Cluster.MarkPodSchedulingDecisions` / `UpdatePodToNodeClaimMapping` keeping the pod bookkeeping.
Core Lean only.
-/
import Karp.Gen.C18Copy
import Karp.Spec.NoEffect

namespace Karp.Effects

/-- addresses are natural numbers -/
notation "Addr" => Nat

inductive FVal where
  | scalar (v : Int)
  | ref (a : Addr)
  deriving DecidableEq, Repr

abbrev Obj := List (String × FVal)

structure Heap where
  cell : Addr → Int
  next : Addr

def Heap.write (h : Heap) (a : Addr) (v : Int) : Heap :=
  { h with cell := fun x => if x = a then v else h.cell x }

def Heap.writes (h : Heap) : List (Addr × Int) → Heap
  | [] => h
  | (a, v) :: ws => (h.write a v).writes ws

/-- allocate a fresh cell holding `v` (its address is the old `next`) -/
def Heap.alloc (h : Heap) (v : Int) : Heap :=
  { cell := fun x => if x = h.next then v else h.cell x, next := h.next + 1 }

/-- the addresses an object refers to -/
def refs : Obj → List Addr
  | [] => []
  | (_, .scalar _) :: r => refs r
  | (_, .ref a) :: r => a :: refs r

/-- what an observer sees of an object: the scalars and the contents behind the references -/
def observe (h : Heap) : Obj → List (String × Int)
  | [] => []
  | (n, .scalar v) :: r => (n, v) :: observe h r
  | (n, .ref a) :: r => (n, h.cell a) :: observe h r

/-- names of the reference fields of an object -/
def refFields : Obj → List String
  | [] => []
  | (_, .scalar _) :: r => refFields r
  | (n, .ref _) :: r => n :: refFields r

/-- `DeepCopyInto`: every field is copied as it is; a reference field that the function treats gets a fresh cell with
    the same content, a reference field it does not treat keeps pointing at the original's cell. -/
def copyObj (treated : String → Bool) : Heap → Obj → Heap × Obj
  | h, [] => (h, [])
  | h, (n, .scalar v) :: r => ((copyObj treated h r).1, (n, .scalar v) :: (copyObj treated h r).2)
  | h, (n, .ref a) :: r =>
    if treated n then
      ((copyObj treated (h.alloc (h.cell a)) r).1, (n, .ref h.next) :: (copyObj treated (h.alloc (h.cell a)) r).2)
    else
      ((copyObj treated h r).1, (n, .ref a) :: (copyObj treated h r).2)

/-- `Cluster.DeepCopyNodes`: `DeepCopy` mapped over the nodes -/
def copyAll (treated : String → Bool) : Heap → List Obj → Heap × List Obj
  | h, [] => (h, [])
  | h, o :: os =>
    ((copyAll treated (copyObj treated h o).1 os).1, (copyObj treated h o).2 :: (copyAll treated (copyObj treated h o).1 os).2)

/-- every reference field of the object is treated by the deep copy -/
def Complete (treated : String → Bool) (o : Obj) : Bool := (refFields o).all treated

/-- well-formed: the object only refers to allocated cells -/
def WF (h : Heap) (o : Obj) : Prop := ∀ a ∈ refs o, a < h.next

/-! ## Worlds and simulations -/

structure World where
  heap : Heap
  /-- the live `StateNode`s of `state.Cluster` -/
  nodes : List Obj
  /-- everything else that must stay as it is: API objects, the provider's instance types / offerings -/
  shared : List Addr

def World.WF (w : World) : Prop := (∀ o ∈ w.nodes, Karp.Effects.WF w.heap o) ∧ (∀ a ∈ w.shared, a < w.heap.next)

/-- what the property calls observable -/
def World.obs (w : World) : List (List (String × Int)) × List Int :=
  (w.nodes.map (observe w.heap), w.shared.map w.heap.cell)

/-- one simulation: deep-copy the nodes, then the scheduler performs the writes `ws` (any list: an accepted, a rejected
    and a timed-out simulation differ only in how long it is).  The live nodes and the shared cells are the same objects
    afterwards; only the heap can differ. -/
def simulate (treated : String → Bool) (w : World) (ws : List (Addr × Int)) : World :=
  { w with heap := (copyAll treated w.heap w.nodes).1.writes ws }

/-- the copies a simulation hands to the scheduler -/
def simCopies (treated : String → Bool) (w : World) : List Obj := (copyAll treated w.heap w.nodes).2

/-- heap right after the copies were made -/
def simHeap (treated : String → Bool) (w : World) : Heap := (copyAll treated w.heap w.nodes).1

/-- The scheduler's writes are confined: each goes to a cell one of the copies refers to, or to memory allocated after
    the copies were made (scheduler-local objects).  This is the shape of the regenerated write-effect facts. -/
def Confined (treated : String → Bool) (w : World) (ws : List (Addr × Int)) : Prop :=
  ∀ x ∈ ws, (∃ c ∈ simCopies treated w, x.1 ∈ refs c) ∨ (simHeap treated w).next ≤ x.1

/-- a history of simulations -/
def simulateAll (treated : String → Bool) : World → List (List (Addr × Int)) → World
  | w, [] => w
  | w, ws :: rest => simulateAll treated (simulate treated w ws) rest

/-- every simulation of the history is confined (relative to the world it starts from) -/
def ConfinedAll (treated : String → Bool) : World → List (List (Addr × Int)) → Prop
  | _, [] => True
  | w, ws :: rest => Confined treated w ws ∧ ConfinedAll treated (simulate treated w ws) rest

/-! ## The schema of `state.StateNode`, from the regenerated facts -/

open Karp.Gen.C18Copy in
/-- the fields `StateNode.DeepCopyInto` treats (re-allocates or delegates to the field's own deep copy) -/
def stateNodeTreated (n : String) : Bool := stateNodeDeepCopied.any (fun p => p.1 == n)

open Karp.Gen.C18Copy in
/-- an object shaped like a `StateNode`: its reference fields are among the generated reference-holding fields -/
def IsStateNode (o : Obj) : Bool :=
  (refFields o).all (fun n => stateNodeFields.any (fun f => f.1 == n && f.2.2))

/-! ## Provisioning effects: nominations and pod bookkeeping -/

open Karp.Spec.NoEffect (NodeVal PodVal PlacedPod ExistingPlacement ClaimPlacement Outcome Live)

/-- `state.nominationWindow`: `max(2*BatchMaxDuration, 10s)` with the constants regenerated from the source -/
def nominationWindow (batchMaxNs : Int) : Int :=
  max ((Karp.Gen.C18Copy.nominationBatchMultiplier : Int) * batchMaxNs)
      ((Karp.Gen.C18Copy.nominationFloorSeconds : Int) * 1000000000)

/-- `Results.Record`: every existing node that received at least one pod is nominated until now + window -/
def nominate (now window : Int) (o : Outcome) (ns : List NodeVal) : List NodeVal :=
  ns.map fun n =>
    if o.existing.any (fun e => e.providerID == n.providerID && !e.pods.isEmpty) then
      { n with nominatedUntil := now + window }
    else n

/-- sync.Map.LoadOrStore on a timestamp (0 = absent) -/
def loadOrStore (old now : Int) : Int := if old = 0 then now else old

/-- the `podErrors` branch of `MarkPodSchedulingDecisions` -/
def markError (now : Int) (p : PodVal) : PodVal :=
  { p with schedulable := 0, attempted := loadOrStore p.attempted now, healthy := 0, nodeClaim := "" }

/-- the `npPods` branch for one pod scheduled against NodePool `pool` -/
def markScheduled (now : Int) (pool : String) (healthyPools : List String) (bound : Bool) (p : PodVal) : PodVal :=
  if bound then p else
    let p := { p with schedulable := loadOrStore p.schedulable now, attempted := loadOrStore p.attempted now }
    if pool != "" && healthyPools.contains pool then { p with healthy := loadOrStore p.healthy now }
    else { p with healthy := 0 }

/-- one bookkeeping update of `MarkPodSchedulingDecisions` / `UpdatePodToNodeClaimMapping`, addressed to a pod by name -/
inductive Edit where
  /-- the `podErrors` branch -/
  | err
  /-- the `npPods` branch: scheduled against NodePool `pool` ("" = an unmanaged node) -/
  | sched (pool : String) (bound : Bool)
  /-- `UpdatePodToNodeClaimMapping`: meant for NodeClaim `nc` -/
  | claim (nc : String)
  deriving DecidableEq, Repr

def Edit.apply (now : Int) (healthyPools : List String) : Edit → PodVal → PodVal
  | .err, p => markError now p
  | .sched pool bound, p => markScheduled now pool healthyPools bound p
  | .claim nc, p => { p with nodeClaim := nc }

/-- apply one edit to the pod it is addressed to -/
def applyTo (now : Int) (healthyPools : List String) (e : String × Edit) (ps : List PodVal) : List PodVal :=
  ps.map fun p => if p.key == e.1 then e.2.apply now healthyPools p else p

def applyEdits (now : Int) (healthyPools : List String) (es : List (String × Edit)) (ps : List PodVal) : List PodVal :=
  es.foldl (fun ps e => applyTo now healthyPools e ps) ps

/-- the edits of `MarkPodSchedulingDecisions(podErrors, NodePoolToPodMapping, ExistingNodeToPodMapping)` as
    `Provisioner.Schedule` calls it, in the order of the code (errors, NodePool mapping, NodeClaim mapping of the managed
    existing nodes).  A pod occurs in at most one placement, so the order of the Go map iterations is irrelevant. -/
def decisionEdits (o : Outcome) : List (String × Edit) :=
  o.errors.map (fun n => (n, Edit.err)) ++
  o.claims.flatMap (fun c => c.pods.map (fun pp => (pp.name, Edit.sched c.pool pp.bound))) ++
  o.existing.flatMap (fun e => e.pods.map (fun pp => (pp.name, Edit.sched e.pool pp.bound))) ++
  o.existing.flatMap (fun e => if e.nodeClaim == "" then [] else e.pods.map (fun pp => (pp.name, Edit.claim e.nodeClaim)))

/-- `GetPendingPods`: the pods the provisioner refuses to consider are marked as scheduling errors -/
def ignoredEdits (ignored : List String) : List (String × Edit) := ignored.map (fun n => (n, Edit.err))

def markDecisions (now : Int) (healthyPools : List String) (o : Outcome) (ps : List PodVal) : List PodVal :=
  applyEdits now healthyPools (decisionEdits o) ps

def markIgnored (now : Int) (ignored : List String) (ps : List PodVal) : List PodVal :=
  applyEdits now [] (ignoredEdits ignored) ps

/-- one provisioning pass up to (not including) the creation of NodeClaims -/
def provisionPass (now batchMaxNs : Int) (healthyPools ignored : List String) (o : Outcome) (l : Live) : Live :=
  { nodes := nominate now (nominationWindow batchMaxNs) o l.nodes,
    pods := markDecisions now healthyPools o (markIgnored now ignored l.pods) }

/-- a pass that failed before `Solve` returned results (cancelled context, …): only the ignored pods were marked -/
def failedPass (now : Int) (ignored : List String) (l : Live) : Live :=
  { l with pods := markIgnored now ignored l.pods }

/-- what a *simulation* does to the live values: nothing, except that `GetPendingPods` (shared with the provisioner)
    marks the pods it ignores -/
def simulationPass (now : Int) (ignored : List String) (l : Live) : Live :=
  { l with pods := markIgnored now ignored l.pods }

/-! ## Histories of the live values -/

/-- one step of a history of the live values: a provisioning pass with its outcome, a failed pass, or a simulation -/
inductive Step where
  | pass (now batch : Int) (healthy ignored : List String) (o : Outcome)
  | failed (now : Int) (ignored : List String)
  | simulation (now : Int) (ignored : List String)

def Step.run : Step → Live → Live
  | .pass now batch healthy ignored o, l => provisionPass now batch healthy ignored o l
  | .failed now ignored, l => failedPass now ignored l
  | .simulation now ignored, l => simulationPass now ignored l

def runSteps (l : Live) (steps : List Step) : Live := steps.foldl (fun l s => s.run l) l

/-- what no step ever changes: which nodes and pods there are, the deletion marks, when a pod was first seen, and a
    first decision time once it is set -/
def Stable (a b : Live) : Prop :=
  b.nodes.map (fun n => (n.providerID, n.marked)) = a.nodes.map (fun n => (n.providerID, n.marked)) ∧
  b.pods.map (fun p => (p.key, p.ack)) = a.pods.map (fun p => (p.key, p.ack)) ∧
  b.pods.length = a.pods.length ∧
  ∀ i (h1 : i < a.pods.length) (h2 : i < b.pods.length), (a.pods[i]).attempted ≠ 0 → (b.pods[i]).attempted = (a.pods[i]).attempted

end Karp.Effects
