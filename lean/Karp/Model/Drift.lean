/-
Model of
* `pkg/controllers/nodeclaim/disruption/drift.go`: `areStaticFieldsDrifted`, `areRequirementsDrifted`,
  `instanceTypeNotFound`, `isDrifted`, `Drift.Reconcile`, and the guards of `Controller.Reconcile`;
* `pkg/controllers/nodepool/hash/controller.go`: `Reconcile` / `updateNodeClaimHash`;
* `pkg/controllers/nodeclaim/lifecycle/launch.go`: `PopulateNodeClaimDetails` (labels / annotations), and `Launch.Reconcile` inside
  `lifecycle.Controller.Reconcile` with its cache of created instances and API writes that may fail (`launchReconcile`);
* `pkg/controllers/provisioning/scheduling/nodeclaimtemplate.go`: `NewNodeClaimTemplate` / `ToNodeClaim` — what a NodeClaim
  created from the NodePool AS IT IS STORED (whatever its annotations say) is stamped and labelled with (`createClaim`);
as functions on a small state (one NodePool, some NodeClaims, the provider's answers), driven by histories of steps.
External calls are parameters of the state (`Prov`).  Requirement algebra: `Karp.Model.Req`.  Core Lean only.
-/
import Karp.Model.Hash
import Karp.Model.Req
import Karp.Gen.C15Drift
import Karp.Gen.Labels
import Karp.Gen.Template

namespace Karp.Drift
open Karp.Req Karp.Hash

abbrev Labels := List (String × String)

/-- the two static-drift annotations (`karpenter.sh/nodepool-hash`, `-hash-version`); `none` = annotation absent -/
structure Ann where
  hash : Option String := none
  version : Option String := none
deriving Repr, DecidableEq

def currentVersion : String := Karp.Gen.C15Hash.hashVersion
def nodePoolKey : String := Karp.Gen.C15Drift.nodePoolLabelKey
def instanceTypeKey : String := "node.kubernetes.io/instance-type"
def capacityTypeKey : String := Karp.Gen.Labels.capacityTypeLabelKey

/-! ### The three drift predicates -/

/-- `areStaticFieldsDrifted`: all four annotations present, same hash version, different hash -/
def staticDrifted (np nc : Ann) : Bool :=
  match np.hash, np.version, nc.hash, nc.version with
  | some ph, some pv, some ch, some cv => pv == cv && ph != ch
  | _, _, _, _ => false

/-- `NewNodeSelectorRequirementsWithMinValues(reqs...)`: construct and `Add` (intersect per key), in order -/
def addSel (R : Reqs) (s : Sel) : Except NewErr Reqs :=
  match Req.new s.key s.op s.minValues s.values with
  | .ok r => .ok (R.add1 r)
  | .error e => .error e

def buildReqs (sels : List Sel) : Except NewErr Reqs := sels.foldlM addSel []

/-- `NewRequirement(key, In, value)` -/
def labelReq (k v : String) : Req := { key := normalizeKey k, complement := false, values := [v] }

/-- `NewLabelRequirements(labels)` (Go iterates the map in any order; the result is the same value set per key) -/
def labelReqs (ls : Labels) : Reqs := ls.foldl (fun R kv => R.add1 (labelReq kv.1 kv.2)) []

/-- `areRequirementsDrifted`: `nodeClaimReq.Compatible(nodepoolReq) != nil`, no undefined key allowed -/
def requirementsDrifted (poolSels : List Sel) (labels : Labels) : Except NewErr Bool := do
  let P ← buildReqs poolSels
  pure (!(labelReqs labels).compatible P [])

/-- an offering as the provider lists it: its requirements (zone, capacity type, reservation id) and whether capacity
    can currently be launched into it (`Offering.Available`: false e.g. while spot capacity of that zone is sold out) -/
structure Offer where
  reqs : Reqs
  available : Bool := true
deriving Repr

/-- an instance type as the provider lists it: its name and its offerings -/
structure ITD where
  name : String
  offerings : List Offer
deriving Repr

/-- `instanceTypeNotFound`: the instance type is looked up by name and `it.Offerings.HasCompatible(reqs)` goes through
    EVERY listed offering — `Offer.available` is not read: an offering that is merely sold out is still offered -/
def instanceTypeNotFound (its : List ITD) (labels : Labels) (wellKnown reservedLabels : List String) : Bool :=
  match its.find? (fun it => it.name == (labels.lookup instanceTypeKey).getD "") with
  | none => true
  | some it =>
    let reqs := labelReqs labels
    let both : Req := { key := capacityTypeKey, complement := false,
                        values := [Karp.Gen.Labels.capacityTypeReserved, Karp.Gen.Labels.capacityTypeOnDemand] }
    let reqs : Reqs :=
      if labels.lookup capacityTypeKey == some Karp.Gen.Labels.capacityTypeReserved then
        List.filter (fun p => !reservedLabels.contains p.1) (reqs.set capacityTypeKey both)
      else reqs
    !(it.offerings.any (fun o => reqs.compatible o.reqs wellKnown))

/-! ### State -/

structure Claim where
  name : String
  labels : Labels
  ann : Ann := {}
  /-- the `Launched` condition is True -/
  launched : Bool := true
  /-- the `Drifted` condition: `none` = absent, `some r` = True with reason `r` -/
  drifted : Option String := none
  deleting : Bool := false
  /-- `nodeclaimutils.IsManaged`: the node class kind is one the provider supports -/
  managed : Bool := true
  /-- creation time (ns on the history's clock) -/
  createdAt : Int := 0
deriving Repr

structure PoolSt where
  name : String
  present : Bool := true
  pool : Pool
  ann : Ann := {}
deriving Repr

/-- what the cloud provider answers -/
structure Prov where
  its : List ITD := []
  itErr : Bool := false
  drift : String := ""
  driftErr : Bool := false
deriving Repr

structure St where
  pool : PoolSt
  claims : List Claim
  prov : Prov := {}
  /-- `instanceTypeNotFoundCheckCache`: claims whose instance type was found (entries live 30 min of real time,
      i.e. for the whole history) -/
  checked : List String := []
  now : Int := 0
  wellKnown : List String := []
  reservedLabels : List String := []
  /-- (group, kind) of the node class the provider supports -/
  nodeClass : String × String := ("", "")
deriving Repr

/-- `nodepoolutils.IsManaged` -/
def St.poolManaged (s : St) : Bool :=
  match s.pool.pool.template.nodeClassRef with
  | some r => r.group == s.nodeClass.1 && r.kind == s.nodeClass.2
  | none => false

def hourNs : Int := 3600000000000

/-! ### `isDrifted` / `Drift.Reconcile` -/

inductive Verdict
  | reason (r : String)   -- drifted with this reason ("" = not drifted)
  | error
deriving Repr, DecidableEq

/-- `isDrifted`; also returns whether the instance-type check succeeded (a cache entry is added) -/
def isDrifted (s : St) (c : Claim) : Except NewErr (Verdict × Bool) := do
  -- both predicates are evaluated (the Go slice literal is built first), so malformed requirements panic even when
  -- the hash already differs; the first non-empty reason wins
  let reqDrift ← requirementsDrifted (s.pool.pool.template.requirements.getD []) c.labels
  if staticDrifted s.pool.ann c.ann then return (.reason Karp.Gen.C15Drift.reasonNodePoolDrifted, false)
  if reqDrift then return (.reason Karp.Gen.C15Drift.reasonRequirementsDrifted, false)
  let doCheck := !s.checked.contains c.name && decide (s.now - c.createdAt > hourNs)
  if doCheck && s.prov.itErr then return (.error, false)
  if doCheck && instanceTypeNotFound s.prov.its c.labels s.wellKnown s.reservedLabels then
    return (.reason Karp.Gen.C15Drift.reasonInstanceTypeNotFound, false)
  if s.prov.driftErr then return (.error, doCheck)
  return (.reason s.prov.drift, doCheck)

/-- `Drift.Reconcile` on one claim: new claim, whether an error was returned, whether a cache entry was added -/
def driftReconcile (s : St) (c : Claim) : Except NewErr (Claim × Bool × Bool) := do
  if !c.launched then return ({ c with drifted := none }, false, false)
  match ← isDrifted s c with
  | (.error, cached) => return (c, true, cached)
  | (.reason r, cached) =>
    if r == "" then return ({ c with drifted := none }, false, cached)
    else return ({ c with drifted := some r }, false, cached)

/-- `disruption.Controller.Reconcile` for the claim named `n`: (state, error returned) -/
def reconcileClaim (s : St) (n : String) : Except NewErr (St × Bool) := do
  match s.claims.find? (·.name == n) with
  | none => return (s, false)
  | some c =>
    if !c.managed || c.deleting then return (s, false)
    match c.labels.lookup nodePoolKey with
    | none => return (s, false)
    | some pn =>
      if !(s.pool.present && pn == s.pool.name) then return (s, false)
      let (c', err, cached) ← driftReconcile s c
      return ({ s with claims := s.claims.map (fun x => if x.name == n then c' else x),
                       checked := if cached then n :: s.checked else s.checked }, err)

/-! ### The hash controller -/

/-- `updateNodeClaimHash` for one NodeClaim of the pool -/
def migrateClaim (h : String) (c : Claim) : Claim :=
  if c.ann.version != some currentVersion then
    { c with ann := { version := some currentVersion, hash := if c.drifted.isNone then some h else c.ann.hash } }
  else c

/-- `hash.Controller.Reconcile` -/
def hashReconcile (s : St) : St :=
  if !(s.pool.present && s.poolManaged) then s else
  let h := s.pool.pool.hashString
  let claims :=
    if s.pool.ann.version != some currentVersion then
      s.claims.map (fun c => if c.managed && c.labels.lookup nodePoolKey == some s.pool.name then migrateClaim h c else c)
    else s.claims
  { s with claims := claims, pool := { s.pool with ann := { hash := some h, version := some currentVersion } } }

/-! ### Launch -/

/-- `lo.Assign(a, b)`: entries of `b` win -/
def assign (a b : Labels) : Labels := b ++ a

/-- `PopulateNodeClaimDetails`: provider labels below the NodeClaim's own labels -/
def populateLabels (claimLabels providerLabels : Labels) : Labels := assign providerLabels claimLabels

/-! ### Creating a NodeClaim from the NodePool (`NewNodeClaimTemplate` → `ToNodeClaim` → launch) -/

/-- `strings.ToLower` on the (ASCII) kind of a node class -/
def lowerAscii (s : String) : String := String.ofList (s.toList.map Char.toLower)

/-- `v1.NodeClassLabelKey(GroupKind)` -/
def nodeClassLabelKey (r : NodeClassRef) : String := r.group ++ "/" ++ lowerAscii r.kind

/-- a Go map built from the list: the first entry of a key wins -/
def dedupKV : Labels → Labels
  | [] => []
  | kv :: rest => kv :: (dedupKV rest).filter (fun p => p.1 != kv.1)

/-- `NodeClaimTemplate.Labels` after `NewNodeClaimTemplate`: the template's labels below the NodePool / NodeClass labels -/
def templateLabels (poolName : String) (t : Template) (r : NodeClassRef) : Labels :=
  dedupKV (assign (t.labels.getD []) [(nodePoolKey, poolName), (nodeClassLabelKey r, r.name)])

/-- `NodeClaimTemplate.Requirements` after `NewNodeClaimTemplate`: the NodePool's requirements and one `In [v]` per label
    (the two simulation keys and the instance-type / capacity-type entries `ToNodeClaim` adds are never resolved into
    labels and are left out) -/
def templateReqs (sels : List Sel) (tl : Labels) : Except NewErr Reqs := do
  let R ← buildReqs sels
  pure (R.add ((labelReqs tl).map (·.2)))

/-- keys for which `resolveCustomLabelsFromRequirements` materialises a label; `wellKnown` is the run-time table (the
    provider registers its own keys) -/
def customKey (wellKnown : List String) (k : String) : Bool :=
  !(wellKnown.contains k || Karp.Gen.Labels.restrictedLabels.contains k || Karp.Gen.Template.simulationKeys.contains k)

/-- `resolveCustomLabelsFromRequirements` is random (`Requirement.Any()`): `resolved` is an allowed outcome iff every
    entry is a custom key with a non-empty value `Any()` may return, and every custom key without an entry may return
    the empty string -/
def resolvedAllowed (wellKnown : List String) (R : Reqs) (resolved : Labels) : Bool :=
  resolved.all (fun kv => customKey wellKnown kv.1 && kv.2 != "" &&
    (match R.lookup kv.1 with | some r => r.anyAllowed kv.2 | none => false))
  && R.all (fun kr => !customKey wellKnown kr.1 || (resolved.lookup kr.1).isSome || kr.2.anyAllowed "")

/-- the labels of the launched NodeClaim, in order of precedence: resolved custom labels, the template's labels (with
    the NodePool / NodeClass labels), the provider's labels -/
def createLabels (tl resolved providerLabels : Labels) : Labels :=
  dedupKV (populateLabels (assign tl resolved) providerLabels)

/-- what `NewNodeClaimTemplate` stamps: `nodePool.Hash()` of the template the NodeClaim is built from — NOT the
    NodePool's annotation, which is only eventually consistent with the template — and the current hash version -/
def stampOf (p : Pool) : Ann := { hash := some p.hashString, version := some currentVersion }

/-- the provisioner creates NodeClaim `n` from the stored NodePool and the provider launches it (`resolved`: the outcome
    of the `Any()` calls, `providerLabels`: what `Create` answers, `launched`: whether the launch completed) -/
def createClaim (s : St) (n : String) (resolved providerLabels : Labels) (launched : Bool) : Except NewErr St :=
  if !s.pool.present || s.claims.any (·.name == n) then pure s else
  match s.pool.pool.template.nodeClassRef with
  | none => .error .panicIndex  -- a nil dereference (the CRD requires nodeClassRef; never generated)
  | some r => do
    -- `NewNodeSelectorRequirementsWithMinValues(spec.requirements...)` indexes values[0] of a comparison operator
    let _ ← buildReqs (s.pool.pool.template.requirements.getD [])
    let tl := templateLabels s.pool.name s.pool.pool.template r
    let c : Claim :=
      { name := n, labels := createLabels tl resolved providerLabels, ann := stampOf s.pool.pool, launched := launched,
        drifted := none, deleting := false, managed := s.poolManaged, createdAt := s.now }
    pure { s with claims := s.claims ++ [c] }

/-! ### The ways a NodeClaim is built from a NodePool

`NewNodeClaimTemplate(nodePool)` is a function of the NodePool it is handed and must leave it alone: the provisioner
calls it once per NodePool object of a scheduling pass, the static-capacity code calls it SEVERAL times on one in-memory
NodePool object (`static.provisioning` once per missing replica, `StaticDrift.ComputeCommands` once per drifted
candidate).  In the model all of them are `createClaim` on the NodePool as stored — in particular the second and every
further NodeClaim built from one NodePool object is stamped like the first; the static-capacity controllers only act on
NodePools whose node class the provider supports (`nodepoolutils.IsManaged`). -/

inductive Via
  | provisioner   -- NewNodeClaimTemplate on a NodePool freshly read from the API
  | sameObject    -- NewNodeClaimTemplate once more on the NodePool object of the previous creation
  | static        -- static.provisioning Reconcile: one template per missing replica
  | staticDrift   -- StaticDrift.ComputeCommands: one replacement per drifted candidate
deriving Repr, DecidableEq

def Via.ofString : String → Via
  | "same" => .sameObject
  | "static" => .static
  | "staticdrift" => .staticDrift
  | _ => .provisioner

/-- does this way go through a controller that skips NodePools it does not manage? -/
def Via.managedOnly : Via → Bool
  | .static | .staticDrift => true
  | _ => false

/-! ### Histories -/

inductive Step
  | editPool (p : Pool)
  | deletePool
  | hashctl
  | setLabel (claim : String) (key : String) (value : Option String)
  | setAnn (target : Option String) (isHash : Bool) (value : Option String)   -- target `none` = the NodePool
  | setLaunched (claim : String) (v : Bool)
  | setProv (p : Prov)
  | advance (ns : Int)
  | reconcile (claim : String)
  | create (claim : String) (resolved providerLabels : Labels) (launched : Bool)
deriving Repr

def setKV (l : Labels) (k : String) (v : Option String) : Labels :=
  let l' := l.filter (fun p => p.1 != k)
  match v with
  | some v => l' ++ [(k, v)]
  | none => l'

def setAnnField (a : Ann) (isHash : Bool) (v : Option String) : Ann :=
  if isHash then { a with hash := v } else { a with version := v }

def updClaim (s : St) (n : String) (f : Claim → Claim) : St :=
  { s with claims := s.claims.map (fun c => if c.name == n then f c else c) }

/-- one step: the new state and whether the step returned an error -/
def step (s : St) : Step → Except NewErr (St × Bool)
  | .editPool p => pure (if s.pool.present then { s with pool := { s.pool with pool := p } } else s, false)
  | .deletePool => pure ({ s with pool := { s.pool with present := false } }, false)
  | .hashctl => pure (hashReconcile s, false)
  | .setLabel n k v => pure (updClaim s n (fun c => { c with labels := setKV c.labels k v }), false)
  | .setAnn none isHash v =>
    pure (if s.pool.present then { s with pool := { s.pool with ann := setAnnField s.pool.ann isHash v } } else s, false)
  | .setAnn (some n) isHash v =>
    -- the value "$pool" copies the NodePool's annotation of the same name (absent if the NodePool or it is absent)
    let v := if v == some "$pool" then
        (if s.pool.present then (if isHash then s.pool.ann.hash else s.pool.ann.version) else none) else v
    pure (updClaim s n (fun c => { c with ann := setAnnField c.ann isHash v }), false)
  | .setLaunched n v => pure (updClaim s n (fun c => { c with launched := v }), false)
  | .setProv p => pure ({ s with prov := p }, false)
  | .advance ns => pure ({ s with now := s.now + ns }, false)
  | .reconcile n => reconcileClaim s n
  | .create n resolved providerLabels launched => do pure (← createClaim s n resolved providerLabels launched, false)

/-- the step of a creation by way `via` in state `s`: nothing happens (the clock advances by zero) when a static-capacity
    controller meets a NodePool it does not manage -/
def createStep (s : St) (via : Via) (n : String) (resolved providerLabels : Labels) (launched : Bool) : Step :=
  if via.managedOnly && !s.poolManaged then .advance 0 else .create n resolved providerLabels launched

/-- the states after every step (and the error flags) -/
def run (s : St) : List Step → Except NewErr (List (St × Bool))
  | [] => pure []
  | st :: rest => do
    let (s', e) ← step s st
    let tl ← run s' rest
    pure ((s', e) :: tl)

/-! ### The launch under failing API writes (`lifecycle.Controller.Reconcile` → `Launch.Reconcile`)

The lifecycle controller launches a NodeClaim with `CloudProvider.Create`, keeps the provider's answer in an in-memory
cache keyed by the NodeClaim's UID, merges it into the NodeClaim (`PopulateNodeClaimDetails`), sets `Launched`, and then
writes the NodeClaim back with up to three API calls: the finalizer patch (before the launch), the metadata patch (labels /
annotations) and the status patch (providerID, `Launched`).  Any of them may fail; the work queue then reconciles again,
and the launch is REPLAYED from the cache instead of calling `Create` a second time.  Whatever path sets `Launched` must
leave the provider's labels (instance type, zone, capacity type, …: the launch choice) on the NodeClaim — a NodeClaim
that is Launched without them fails its NodePool's requirements on those keys and has no instance type to be found. -/

structure LaunchSt where
  /-- the labels of the NodeClaim as stored by the API server -/
  labels : Labels
  /-- the termination finalizer is stored -/
  finalizer : Bool := false
  /-- the stored `Launched` condition is True (written together with `status.providerID`) -/
  launched : Bool := false
  /-- `Launch.cache`: the provider's answer to the `Create` call for this UID, while it is kept -/
  cache : Option Labels := none
  /-- number of `CloudProvider.Create` calls so far -/
  creates : Nat := 0
deriving Repr, DecidableEq

/-- one `lifecycle.Controller.Reconcile` of a NodeClaim that is not being deleted; `provider` is what `Create` would answer
    now, `failAt` numbers the API write of THIS reconcile that fails (1 = the first one issued, 0 = none fails).
    Returns the new state and whether the reconcile returned an error. -/
def launchReconcile (s : LaunchSt) (provider : Labels) (failAt : Nat) : LaunchSt × Bool :=
  -- the finalizer patch comes first ("we shouldn't launch if we don't yet have the finalizer")
  if !s.finalizer && failAt == 1 then (s, true) else
  let w := if s.finalizer then 0 else 1    -- writes issued so far
  let s := { s with finalizer := true }
  -- `Launch.Reconcile`: a NodeClaim that is Launched drops its cache entry and is left alone
  if s.launched then ({ s with cache := none }, false) else
  -- the cached answer, or a real launch
  let created := s.cache.getD provider
  let s := { s with cache := some created, creates := if s.cache.isSome then s.creates else s.creates + 1 }
  -- `PopulateNodeClaimDetails` + `Launched = True` happen in memory; then the metadata patch, then the status patch
  if failAt == w + 1 then (s, true) else
  let s := { s with labels := populateLabels s.labels created }
  if failAt == w + 2 then (s, true) else
  ({ s with launched := true }, false)

/-- a history of reconciles of one NodeClaim (`fs`: the failing write of each reconcile): the states and error flags
    after each.  `provider` is the provider's answer to `Create` for this NodeClaim (`C15_launch_creates_once`: it is
    asked at most once, so one answer is all there is). -/
def launchRun (s : LaunchSt) (provider : Labels) : List Nat → List (LaunchSt × Bool)
  | [] => []
  | f :: rest => let r := launchReconcile s provider f; r :: launchRun r.1 provider rest

/-- the state after the whole history -/
def launchFinal (s : LaunchSt) (provider : Labels) : List Nat → LaunchSt
  | [] => s
  | f :: rest => launchFinal (launchReconcile s provider f).1 provider rest

end Karp.Drift
