/-
C18 — the hand-written allowlist over the write-effect facts regenerated from the Go source
(`Karp/Gen/C18Effects.lean`, produced by `harness/cmd/kfacts/facts_c18*.go` on every check run).

`classify` decides, for one class of write sites reachable from an entry point, what kind of memory it writes.  Every rule
carries its justification.  The analysis behind the facts is type- and path-based (it does not track what is stored into
a field and loaded again elsewhere), so a rule that calls something a copy names the *origin lemma* it relies on; those
lemmas are the `fact_*` theorems over the mechanism facts in `Karp/Props/C18.lean` (who calls `DeepCopyNodes`, what
`trySchedule` is handed, what `filterInstanceTypesByRequirements` returns, what `DeepCopyInto` treats).

The generated tables refer to functions, types and fields by number (`Karp.Gen.C18Effects.names`).  A symbol this file
names is written `S.«…»`; the generator scans this file for these and emits their numbers (0 when the symbol does not
occur in the tables, so that the rule naming it can never apply).

The *footprint* of an entry point is the set of live regions its non-fresh writes can reach; the dynamic digest search
checks the real code against it (a changed component outside the footprint is a disagreement of this model with the
code), and `Karp/Props/C18.lean` proves the footprint is within what the property allows.
Core Lean only.
-/
import Karp.Gen.C18Effects
import Karp.Gen.C18Copy

namespace Karp.EffectFacts
open Karp.Gen.C18Effects Karp.Gen.C18Copy

inductive EntryPoint where
  | sim     -- disruption.SimulateScheduling
  | sched   -- Provisioner.Schedule
  deriving DecidableEq, Repr

inductive Class where
  /-- memory allocated by the run itself (the scheduler and everything it builds), results of library calls that
      return fresh memory, containers freshly built by shallow-copying library calls -/
  | fresh
  /-- a deep copy: the `StateNode`s of `Cluster.DeepCopyNodes()`, the `pod.DeepCopy()` handed to `trySchedule` -/
  | copy
  /-- memoised derived data of an instance type (`sync.Once`-guarded `allocatableOfferings`): a cache, not a change -/
  | memo
  /-- the lazily hydrated virtual-pod cache of the CapacityBuffer feature (a read cache of API objects) -/
  | cache
  /-- the process-wide counter behind the placeholder host names of in-memory NodeClaims -/
  | counter
  /-- pod bookkeeping of `state.Cluster` (field, by symbol number) -/
  | bookkeeping (field : Nat)
  /-- `StateNode.nominatedUntil` of a live node -/
  | nomination
  /-- known finding: the pods handed to the scheduler are mutated in place (see known_findings.json) -/
  | leak
  /-- no rule admits the write (rule number, for the report) -/
  | forbidden (rule : Nat)
  deriving DecidableEq, Repr

/-- `x` is a named symbol that occurs in the tables (0 = absent never matches) -/
def isSym (x s : Nat) : Bool := s != 0 && x == s

def anySym (x : Nat) (ss : List Nat) : Bool := ss.any (isSym x)

/-! ### Protected regions

The generated rows carry syntactic digests of their path and target (`cluster`, `provider`, `stateNode`, `pod`, …; see
the `Write` structure in the generated file) so that the rules below need not traverse the path. -/

/-- memo fields of an instance type: written once under `sync.Once`, derived from the other fields -/
def memoFields : List Nat :=
  [S.«cloudprovider.InstanceType.allocatableOfferings», S.«cloudprovider.InstanceType.once»,
   S.«cloudprovider.AllocatableOfferings.Offerings», S.«cloudprovider.AllocatableOfferings.Allocatable»]

/-- the functions that keep the pod bookkeeping -/
def bookkeepingWriters : List Nat :=
  [S.«state.Cluster.MarkPodSchedulingDecisions», S.«state.Cluster.UpdatePodToNodeClaimMapping»]

/-- the bookkeeping fields they maintain -/
def bookkeepingFieldSyms : List Nat :=
  [S.«state.Cluster.podsSchedulingAttempted», S.«state.Cluster.podsSchedulableTimes»,
   S.«state.Cluster.podHealthyNodePoolScheduledTime», S.«state.Cluster.podToNodeClaim»]

/-! ### Pods -/

/-- The two in-place mutations of the pods handed to the scheduler (known finding C18-sim-mutates-candidate-pods):
    `scheduling.newPodRequirements` sorts the pod's preferred node-affinity terms in place, and
    `DefaultTopologySpreadInjector.Inject` stamps the cluster-default spread constraints onto the pod. -/
def isKnownLeak (w : Write) : Bool :=
  (isSym w.via S.«scheduling.newPodRequirements» && w.kind == "sort" &&
     isSym w.tgt S.«k8s.io/api/core/v1.NodeAffinity.PreferredDuringSchedulingIgnoredDuringExecution») ||
  (isSym w.via S.«provisioning/scheduling.DefaultTopologySpreadInjector.Inject» && w.kind == "field" &&
     isSym w.tgt S.«k8s.io/api/core/v1.PodSpec.TopologySpreadConstraints»)

/-- roots that are pods made or copied by the run itself: writes below them are to fresh memory.
    * `Pod.DeepCopy`: `Solve` hands `pod.DeepCopy()` to `trySchedule` (fact_relaxation_on_copy), `GetDaemonSetPod` returns a
      deep copy of the cached daemon pod.
    * `lo.FilterMap`: `GetProvisionablePods` returns pointers to the elements of a `PodList` it just listed.
    * `PodList` allocated in `utils/node.GetPods` / `Topology.countDomains`: filled by the API client's `List`.
    * `Pod` built by `daemonset.PodForDaemonSet`, `PodSpec` built by `virtualpods.sanitizeVirtualPodSpec`,
      `TopologySpreadConstraint` values built by `Topology.newForTopologies` / copied by `Inject`. -/
def freshPodRoot (w : Write) : Bool :=
  (w.rootCode == 1 && anySym w.root [S.«k8s.io/api/core/v1.Pod.DeepCopy», S.«github.com/samber/lo.FilterMap»,
     S.«k8s.io/api/core/v1.TopologySpreadConstraint.DeepCopy»]) ||
  (w.rootCode == 0 && (isSym w.root S.«k8s.io/api/core/v1.PodList» ||
     (isSym w.root S.«k8s.io/api/core/v1.Pod» && isSym w.rootFn S.«utils/daemonset.PodForDaemonSet») ||
     (isSym w.root S.«k8s.io/api/core/v1.PodSpec» && isSym w.rootFn S.«state/virtualpods.sanitizeVirtualPodSpec») ||
     isSym w.root S.«k8s.io/api/core/v1.TopologySpreadConstraint»))

/-- relaxations `isDaemonPodCompatible` applies to a daemon pod (a deep copy, or built from the DaemonSet template) -/
def daemonRelaxation (w : Write) : Bool :=
  w.rootCode == 3 && isSym w.root S.«*k8s.io/api/core/v1.Pod» &&
  anySym w.via [S.«provisioning/scheduling.Preferences.removeRequiredNodeAffinityTerm»,
                S.«provisioning/scheduling.Preferences.toleratePreferNoScheduleTaints»]

/-! ### Library calls that return fresh memory -/

def freshCalls : List Nat :=
  [S.«github.com/samber/lo.Map», S.«github.com/samber/lo.FilterMap», S.«github.com/samber/lo.SliceToMap»,
   S.«github.com/samber/lo.Keys», S.«github.com/samber/lo.MapEntries», S.«github.com/samber/lo.MapToSlice»,
   S.«k8s.io/apimachinery/pkg/util/sets.New», S.«k8s.io/apimachinery/pkg/util/sets.List»,
   S.«k8s.io/apimachinery/pkg/util/sets.Set.Difference», S.«k8s.io/apimachinery/pkg/util/sets.Set.Intersection»,
   S.«k8s.io/apimachinery/pkg/util/sets.Set.Union», S.«k8s.io/apimachinery/pkg/util/sets.Set.UnsortedList»,
   S.«k8s.io/apimachinery/pkg/util/sets.Set.Insert», S.«k8s.io/apimachinery/pkg/util/sets.Set.Clone»,
   S.«k8s.io/api/core/v1.ResourceList.Memory», S.«k8s.io/api/core/v1.ResourceList.Cpu», S.«k8s.io/api/core/v1.ResourceList.Pods»,
   S.«k8s.io/api/core/v1.Pod.DeepCopy», S.«k8s.io/api/core/v1.TopologySpreadConstraint.DeepCopy»,
   S.«k8s.io/apimachinery/pkg/api/resource.Quantity.DeepCopy»,
   S.«k8s.io/apimachinery/pkg/apis/meta/v1.LabelSelectorRequirement.DeepCopy»,
   S.«k8s.io/apimachinery/pkg/apis/meta/v1.LabelSelector.DeepCopy»,
   -- module functions whose result the analysis does not trace through (too many return paths): constructors
   S.«scheduling.NewRequirement», S.«scheduling.NewRequirements», S.«scheduling.NewLabelRequirements»,
   -- the in-cluster resource slices the DRA allocator was handed (built per run by gatherResourceSlices)
   S.«scheduling/dynamicresources.NodeClaim.ResourceSlices», S.«fmt.Sprintf»]

/-- parameters of functions only library code calls: functional options applied to a struct `option.Resolve` allocates -/
def optionCallbacks : List Nat := [S.«*provisioning/scheduling.options», S.«*scheduling.CompatibilityOptions»]

/-! ### The allowlist -/

def classify (e : EntryPoint) (w : Write) : Class :=
  -- 0. a container-level write (element store, map update, append, sort) into a container a library call has just built
  --    (lo.Filter, lo.Assign, slices.Concat, …) writes fresh memory, wherever the elements came from
  bif w.shallow then .fresh
  -- 1. "the cloud provider's instance types and offerings are unmodified": only their memo fields may be written
  else bif w.provider != 0 then
    bif anySym w.provider memoFields && (w.tgt == 0 || anySym w.tgt memoFields) then .memo else .forbidden 1
  -- 2. live cluster state
  else bif w.cluster != 0 then
    bif anySym w.cluster bookkeepingFieldSyms && anySym w.via bookkeepingWriters then .bookkeeping w.cluster
    else bif e == .sched && isSym w.cluster S.«state.Cluster.nodes» && isSym w.tgt S.«state.StateNode.nominatedUntil»
         && isSym w.via S.«state.StateNode.Nominate» then .nomination
    else .forbidden 2
  -- 3. the shared inputs of a simulation (root 2 = a parameter of the entry point)
  else bif w.rootCode == 2 then
    bif isSym w.root S.«candidates» then
      bif isKnownLeak w then .leak else .forbidden 3
    else bif isSym w.head S.«provisioning.Provisioner.virtualPodCache» then
      bif isSym w.tgtPkg S.«state/virtualpods» then .cache
      else bif isKnownLeak w then .leak
      else .forbidden 3
    else .forbidden 3
  -- 4. StateNodes: only copies (root 0 = memory allocated on the way)
  else bif w.stateNode then
    bif w.rootCode == 0 && isSym w.root S.«state.StateNode» && isSym w.rootFn S.«state.StateNode.DeepCopy» then .copy
    else bif w.viaExistingNode then .copy   -- fact_existing_nodes_are_copies
    else bif w.rootCode == 0 && anySym w.root [S.«scheduling.HostPortUsage», S.«scheduling.VolumeUsage»,
              S.«[]scheduling.HostPort»] then .fresh   -- usage trackers the run allocates
    else bif w.viaDaemonGroup then .fresh
    else .forbidden 4
  -- 5. globals (root 4)
  else bif w.rootCode == 4 then
    bif isSym w.root S.«provisioning/scheduling.nodeID» then .counter else .forbidden 5
  -- 6. pods
  else bif w.pod then
    bif freshPodRoot w || daemonRelaxation w then .copy
    else bif isKnownLeak w then .leak
    else .forbidden 6
  -- 7. results of calls the analysis does not trace (root 1), parameters of library callbacks (root 3)
  else bif w.rootCode == 1 then
    bif anySym w.root freshCalls then .fresh else .forbidden 7
  else bif w.rootCode == 3 then
    bif anySym w.root optionCallbacks then .fresh else .forbidden 7
  -- 8. everything else hangs below memory the run allocated itself
  else bif w.rootCode == 0 then .fresh
  else .forbidden 8

/-- what a rule number means -/
def ruleText : Nat → String
  | 1 => "writes an instance type or offering of the provider"
  | 2 => "writes live cluster state"
  | 3 => "writes a shared input of the entry point (candidate / cached virtual pod)"
  | 4 => "writes a StateNode aggregate that is not a copy"
  | 5 => "writes a global"
  | 6 => "writes a pod that is not a copy"
  | 7 => "writes the result of a call / a callback parameter that is not known to be fresh"
  | _ => "unclassified root"

def Class.isForbidden : Class → Bool
  | .forbidden _ => true
  | _ => false

def writesOf : EntryPoint → List Write
  | .sim => simWrites
  | .sched => schedWrites

/-- the writes no rule admits -/
def offending (e : EntryPoint) : List Write := (writesOf e).filter (fun w => (classify e w).isForbidden)

/-- the live regions an entry point can write: (section, symbol of the field) -/
def regionOf : Class → Option (String × Nat)
  | .bookkeeping f => some ("cluster", f)
  | .nomination => some ("node", S.«state.StateNode.nominatedUntil»)
  | _ => none

def footprintSyms (e : EntryPoint) : List (String × Nat) :=
  ((writesOf e).filterMap (fun w => regionOf (classify e w))).eraseDups

/-- the same in the vocabulary of the dynamic snapshots: (section, field name without the type) -/
def fieldName (s : Nat) : String :=
  let n := name s
  ((n.splitOn ".").getLast?).getD n

def footprint (e : EntryPoint) : List (String × String) := (footprintSyms e).map (fun r => (r.1, fieldName r.2))

/-- the known leaks as (root code, root, writer) -/
def leakSyms (e : EntryPoint) : List (Nat × Nat × Nat) :=
  (((writesOf e).filter (fun w => classify e w == .leak)).map (fun w => (w.rootCode, w.root, w.via))).eraseDups

def leaks (e : EntryPoint) : List (Nat × String × String) := (leakSyms e).map (fun r => (r.1, name r.2.1, name r.2.2))

end Karp.EffectFacts
