/-
Model of `pkg/scheduling/dynamicresources/consumable_capacity.go` AS IT IS — what an allocation consumes of a
multi-allocatable device and the guard that admits it:

  fillEmptyRequest, roundUpRange, roundUpValidValues, calculateConsumedCapacity, violatesPolicy (violateValidRange,
  violateValidValues), computeConsumedCapacity (one dimension of its loop over the DEVICE's dimensions) and the
  comparison `used + consumed > total` of `allocator.checkCapacity`.

Quantities are integers (`resource.Quantity.Value()`); Go's truncating `/` and `%` are `Int.tdiv` / `Int.tmod`.
`ValidRange.Min` is required by the API and modelled as always present.  Core Lean only.
-/
namespace Karp.DraCapacity

structure Range where
  min : Int
  max : Option Int := none
  step : Option Int := none
deriving Repr

structure Policy where
  default : Option Int := none
  values : List Int := []
  range : Option Range := none
deriving Repr

/-- `resourcev1.DeviceCapacity` -/
structure Dim where
  value : Int
  policy : Option Policy := none
deriving Repr

/-- a `DeviceCapacity` from the flat fields of the protocol: the request policy is absent when nothing of it is set -/
def Dim.ofFields (value : Int) (default : Option Int) (values : List Int) (range : Option (Int × Option Int × Option Int)) : Dim :=
  { value := value,
    policy := if default.isNone && values.isEmpty && range.isNone then none
              else some { default := default, values := values, range := range.map (fun g => { min := g.1, max := g.2.1, step := g.2.2 }) } }

/-- `fillEmptyRequest`: RequestPolicy.Default if defined, otherwise the full device capacity -/
def fillEmptyRequest (d : Dim) : Int :=
  match d.policy with
  | some p => (match p.default with | some v => v | none => d.value)
  | none => d.value

/-- `roundUpRange` -/
def roundUpRange (r : Int) (g : Range) : Int :=
  if r < g.min then g.min else
  match g.step with
  | none => r
  | some s =>
    let added := r - g.min
    let n := Int.tdiv added s
    let n := if Int.tmod added s != 0 then n + 1 else n
    g.min + s * n

/-- `roundUpValidValues`: the first valid value ≥ the request, else the request itself -/
def roundUpValidValues (r : Int) (vs : List Int) : Int := (vs.find? (fun v => r ≤ v)).getD r

/-- `calculateConsumedCapacity` -/
def calculateConsumedCapacity (req : Option Int) (d : Dim) : Int :=
  match req with
  | none => fillEmptyRequest d
  | some r =>
    match d.policy with
    | none => r
    | some p =>
      match p.range with
      | some g => roundUpRange r g
      | none => if p.values.isEmpty then r else roundUpValidValues r p.values

def violateValidRange (v : Int) (g : Range) : Bool :=
  (match g.max with | some m => v > m | none => false) ||
  (match g.step with | some s => Int.tmod (v - g.min) s != 0 | none => false)

def violateValidValues (v : Int) (vs : List Int) : Bool := !vs.contains v

/-- `violatesPolicy` -/
def violatesPolicy (c : Int) (p : Option Policy) : Bool :=
  match p with
  | none => false
  | some p =>
    if p.default == some c then false else
    match p.range with
    | some g => violateValidRange c g
    | none => if p.values.isEmpty then false else violateValidValues c p.values

/-- one iteration of the loop of `computeConsumedCapacity` (it ranges over the dimensions of the DEVICE; `req` is the
    request's entry for this dimension, if any): `none` = the error return -/
def consumedDim (req : Option Int) (d : Dim) : Option Int :=
  let c := calculateConsumedCapacity req d
  if violatesPolicy c d.policy then none else some c

/-- the comparison of `checkCapacity` for one dimension: `used` = pre-allocated + in flight + allocating -/
def fits (total used c : Int) : Bool := !(used + c > total)

/-- a sequence of shares of one dimension offered to the guard, each booked when admitted (deductAllocatingCapacity /
    commitCapacity): the amount in use afterwards -/
def admitAll (total : Int) : Int → List Int → Int
  | used, [] => used
  | used, c :: rest => admitAll total (if fits total used c then used + c else used) rest

end Karp.DraCapacity
