/-
Model of a provisioning pass in which every pod needs a node of its own, some NodePools own a capacity
reservation and some have a cpu limit (Provisioner.Schedule → Scheduler.Solve → addToNewNodeClaim in strict
reserved-offering mode):

  * the templates are the usable pools in `OrderByWeight` order;
  * evaluating template `q` for pod `p` plainly fails when `q` cannot host `p`, or when the pool's limit does not
    allow another node (`filterByRemainingResources` leaves no instance type: capacity > limit − Σ capacity of
    the claims opened so far, `subtractMax`); when `q` has a compatible reserved offering whose capacity is used up
    by the claims opened earlier in the pass it fails with a ReservedOfferingError (`NodeClaim.offeringsToReserve`,
    strict mode); otherwise it succeeds;
  * the pod opens its claim from the first template that does not plainly fail if that one succeeded, and is
    deferred (no claim, no fallback to a lower-weight pool) if that one reported the reserved-offering error;
  * a claim opened in a pool takes one unit of its reservation (`ReservationManager.Reserve`) and one
    instance capacity of its limit.
Core Lean only.
-/
import Karp.Model.WeightOrder
import Karp.Model.FirstSuccess

namespace Karp.ReservedFallback
open Karp.WeightOrder Karp.FirstSuccess

structure RPool where
  name   : String
  key    : List Nat        -- UTF-8 bytes of the name (what OrderByWeight compares)
  weight : Int
  team   : String          -- value of the pool's custom label, "" = not defined
  cpu    : Nat             -- cpu capacity of the pool's instance type (what counts against the limit)
  alloc  : Nat             -- allocatable cpu of the pool's instance type
  cap    : Nat             -- capacity of the pool's reservation, 0 = the pool has none
  limit  : Option Nat      -- `spec.limits.cpu`
deriving Repr, DecidableEq

structure RPod where
  name : String
  cpu  : Nat
  team : String            -- nodeSelector on the custom label, "" = none
deriving Repr, DecidableEq

/-- `NodeClaim.CanAdd` on a fresh claim, apart from reservations and limits -/
def canHost (q : RPool) (p : RPod) : Bool := (p.team == "" || p.team == q.team) && decide (p.cpu ≤ q.alloc)

/-- the limit allows no further node after `used` claims: `capacity > limit − used·capacity` -/
def fullAt (used : Nat) (q : RPool) : Bool :=
  match q.limit with
  | none => false
  | some l => decide (l < (used + 1) * q.cpu)

/-- per template: (remaining reservation units, claims opened in this pass) -/
abbrev TState := List (Nat × Nat)

def outcomeFor (st : Nat × Nat) (q : RPool) (p : RPod) : Outcome :=
  if !canHost q p then .fail
  else if fullAt st.2 q then .fail
  else if q.cap = 0 then .ok
  else if 0 < st.1 then .ok else .reserved

inductive Verdict | placed (pool : String) | deferred | unschedulable
deriving Repr, DecidableEq

def claimOn (q : RPool) (st : Nat × Nat) : Nat × Nat := (if q.cap = 0 then st.1 else st.1 - 1, st.2 + 1)

/-- one pod -/
def stepPod (ordered : List RPool) (st : TState) (p : RPod) : Verdict × TState :=
  let outs := (ordered.zip st).map (fun (q, s) => outcomeFor s q p)
  match firstDecisive outs with
  | some (i, .ok) =>
    match ordered[i]? with
    | some q => (.placed q.name, st.modify i (claimOn q))
    | none => (.unschedulable, st)
  | some (_, .reserved) => (.deferred, st)
  | _ => (.unschedulable, st)

/-- the verdicts and the final per-template state -/
def runPods (ordered : List RPool) : TState → List RPod → List (String × Verdict) × TState
  | st, [] => ([], st)
  | st, p :: ps =>
    let (v, st') := stepPod ordered st p
    let (vs, fin) := runPods ordered st' ps
    ((p.name, v) :: vs, fin)

/-- `Queue`: larger cpu request first, then creation order (the sort is on distinct keys here) -/
def podBefore (a b : RPod × Nat) : Bool := decide (b.1.cpu < a.1.cpu) || (a.1.cpu == b.1.cpu && decide (a.2 < b.2))

def queueOrder (pods : List RPod) : List RPod :=
  (sortBy podBefore (pods.zip (List.range pods.length))).map (·.1)

def poolBefore (a b : RPool) : Bool := before { name := a.key, weight := a.weight } { name := b.key, weight := b.weight }

def templates (pools : List RPool) : List RPool := sortBy poolBefore pools

def initState (ordered : List RPool) : TState := ordered.map (fun q => (q.cap, 0))

def pass (pools : List RPool) (pods : List RPod) : List (String × Verdict) :=
  (runPods (templates pools) (initState (templates pools)) (queueOrder pods)).1

/-- claims opened per template at the end of the pass -/
def finalUsed (pools : List RPool) (pods : List RPod) : List Nat :=
  ((runPods (templates pools) (initState (templates pools)) (queueOrder pods)).2).map (·.2)

end Karp.ReservedFallback
