/-
Model of the four forceful reapers, as the code is:

* `pkg/controllers/nodeclaim/expiration/controller.go`        `Controller.Reconcile`      → `expiration`
* `pkg/controllers/nodeclaim/garbagecollection/controller.go` `Controller.Reconcile`      → `gc`
* `pkg/controllers/nodeclaim/lifecycle/liveness.go`           `Liveness.Reconcile` (inside the lifecycle
  controller's pass: launch step, then liveness)                                           → `lifecycle`
* `pkg/controllers/node/health/controller.go`                 `Controller.Reconcile`      → `repair`

Every API / provider call is a *parameter*: the input carries the outcome of each call (`Fault`), so a
statement "for all inputs" is a statement for all object states, clock positions and outcome vectors.
Times are integers (nanoseconds).  Core Lean only.  Constants come from the regenerated `Karp.Gen.Reapers`.
-/
import Karp.Gen.Reapers
import Karp.Model.Ring

namespace Karp.Reapers

/-- outcome class of one API call -/
inductive Fault | none | err | notFound | conflict
deriving Repr, DecidableEq

/-- `client.IgnoreNotFound(err) != nil` -/
def Fault.isErr : Fault → Bool
  | .none => false
  | .notFound => false
  | _ => true

/-- status of a condition; an absent dependent condition reads as `unknown` with the creation time as its
    last transition (`status.ConditionSet.For` initialises it so) — the driver applies that rule -/
inductive Tri | true_ | false_ | unknown
deriving Repr, DecidableEq

/-- what a reconcile pass was seen to do -/
structure Out where
  deletes : Nat := 0      -- Delete calls issued on NodeClaims
  requeue : Int := 0      -- `RequeueAfter` (only meaningful in the waiting branches)
  err     : Bool := false
deriving Repr, DecidableEq

/-! ## Expiration -/

/-- The *frame* of an expiration decision: everything else the reconciled NodeClaim and its surroundings carry
    that is **not** part of the documented trigger (creation time, `spec.expireAfter`, the clock):

    * durations — `spec.terminationGracePeriod` of the NodeClaim, the owning NodePool's template `expireAfter`
      and `terminationGracePeriod` (they differ from the NodeClaim's once the pool has been edited);
    * instants — the transition times of the status conditions (Launched, Registered, Initialized, Drifted,
      Consolidatable, …), the termination-timestamp annotation, `status.lastPodEventTime`, the creation time
      of the NodeClaim's Node;
    * flags — `karpenter.sh/do-not-disrupt`, a Node that is present / terminating, pods bound to it, condition
      statuses.

    `Controller.Reconcile` reads none of it: the model carries the frame only to *say* so (`expiration` below
    never looks at `i.frame`; `C16_expiration_frame` is the statement), and the correspondence harness varies
    all of it on the real controller. -/
structure ExpFrame where
  /-- `spec.terminationGracePeriod` (`none` = unset): how long a *deleted* NodeClaim may keep draining. It
      starts counting at the Delete; it does not move the Delete. -/
  terminationGracePeriod : Option Int := none
  /-- further named durations found on the object / its NodePool -/
  durations : List (String × Int) := []
  /-- named instants found on the object / its Node -/
  instants : List (String × Int) := []
  flags : List String := []
deriving Repr

structure ExpIn where
  managed     : Bool
  deleting    : Bool
  expireAfter : Option Int      -- `none` = "Never"
  created     : Int
  now         : Int
  deleteFault : Fault
  frame       : ExpFrame := {}
deriving Repr

def expiration (i : ExpIn) : Out :=
  if !i.managed then {}
  else if i.deleting then {}
  else match i.expireAfter with
    | none => {}
    | some d =>
      let expirationTime := i.created + d
      if i.now < expirationTime then { requeue := expirationTime - i.now }
      else { deletes := 1, err := i.deleteFault.isErr }

/-! ## Garbage collection -/

structure Claim where
  name       : String
  pid        : String
  registered : Tri
  deleting   : Bool
  managed    : Bool
deriving Repr, DecidableEq

/-- an instance as returned by `cloudProvider.List`; `deleting` = it carries a deletion timestamp (terminating) -/
structure Inst where
  pid      : String
  deleting : Bool
deriving Repr, DecidableEq

structure GNode where
  name  : String
  pid   : String
  ready : Bool        -- the Node's Ready condition has status True
  /-- the Node carries a deletion timestamp (it is draining under the termination finalizer) but still exists.
      The collector does not look at it: a terminating Node is a present Node. -/
  terminating : Bool := false
deriving Repr, DecidableEq

/-- The *frame* of the collector's guarding reads: WHICH error a failing read returned (the class names are the
    harness's: kube API `notfound` / `conflict` / `timeout` / …, provider `nodeclaim-notfound` (bare, wrapped,
    joined) / `insufficient-capacity` / `nodeclass-not-ready` / …) and whether the failing `cloudProvider.List`
    returned a partial result next to its error.  `Controller.Reconcile` tests each of the three reads with a
    plain `err != nil` (the Node lookup: after discounting its own NodeNotFound / DuplicateNode results, which are
    *outcomes* of a lookup that worked — `Lookup.notFound` / `.duplicate` below): no error type is an excuse, a
    read that failed has established nothing.  The model carries the frame only to *say* so (`gcWith` never looks
    at `i.errs`; `C16_gc_error_class_frame` is the statement), and the correspondence harness varies all of it on
    the real controller. -/
structure GCErrFrame where
  listClaims          : String := ""
  providerList        : String := ""
  providerListPartial : Bool := false
  lookup              : String := ""
deriving Repr, DecidableEq

structure GCIn where
  claims            : List Claim
  provider          : List Inst
  nodes             : List GNode
  listClaimsFault   : Bool            -- listing NodeClaims fails (with whatever error)
  providerListFault : Bool            -- `cloudProvider.List` fails (with whatever error)
  lookupFault       : List String     -- provider ids for which the Node list fails (with whatever error)
  deleteFaults      : List (String × Fault)
  errs              : GCErrFrame := {}
deriving Repr

/-- `NodeForNodeClaim` -/
inductive Lookup | failed | notFound | duplicate | one (ready : Bool)
deriving Repr, DecidableEq

def nodesOf (i : GCIn) (pid : String) : List GNode := i.nodes.filter (fun n => n.pid == pid)

def lookup (i : GCIn) (c : Claim) : Lookup :=
  if c.pid == "" then .notFound                 -- `AllNodesForNodeClaim` does not list for an unresolved provider id
  else if i.lookupFault.contains c.pid then .failed
  else match nodesOf i c.pid with
    | [] => .notFound
    | [n] => .one n.ready
    | _ => .duplicate

/-- provider ids of the instances the provider lists as live (terminating ones are filtered out) -/
def livePids (i : GCIn) : List String := (i.provider.filter (fun p => !p.deleting)).map (·.pid)

/-- the controller's filter: managed, Registered, not deleting, provider does not list it -/
def candidate (i : GCIn) (c : Claim) : Bool :=
  c.managed && c.registered == .true_ && !c.deleting && !(livePids i).contains c.pid

def deleteFaultOf (i : GCIn) (name : String) : Fault :=
  match i.deleteFaults.find? (fun p => p.1 == name) with
  | some p => p.2
  | none => .none

/-- the per-NodeClaim closure: (Delete called, `errs[i] != nil` afterwards).
    `returnsOnLookupErr` = the regenerated fact `gcReturnsOnNodeLookupError`. -/
def gcOne (returnsOnLookupErr : Bool) (i : GCIn) (c : Claim) : Bool × Bool :=
  match lookup i c with
  | .failed =>
    if returnsOnLookupErr then (false, true)
    else
      -- errs[i] = err, then falls through with node == nil: Delete; a failing Delete overwrites errs[i]
      match deleteFaultOf i c.name with
      | .none => (true, true)
      | f => (true, f.isErr)
  | .one true => (false, false)
  | _ => (true, (deleteFaultOf i c.name).isErr)

/-- (names Delete was called for, in list order; error returned) -/
def gcWith (returnsOnLookupErr : Bool) (i : GCIn) : List String × Bool :=
  if i.listClaimsFault || i.providerListFault then ([], true)
  else
    let rs := (i.claims.filter (candidate i)).map (fun c => (c.name, gcOne returnsOnLookupErr i c))
    ((rs.filter (fun r => r.2.1)).map (·.1), rs.any (fun r => r.2.2))

/-- the code as it is -/
def gc (i : GCIn) : List String × Bool := gcWith Karp.Gen.Reapers.gcReturnsOnNodeLookupError i

/-! ## Liveness (inside one pass of the lifecycle controller) -/

def launchTimeout : Int := Karp.Gen.Reapers.launchTimeoutNs
def registrationTimeout : Int := Karp.Gen.Reapers.registrationTimeoutNs

/-- how the NodeClaim relates to its NodePool -/
inductive Pool
  | none      -- no nodepool label
  | missing   -- label, but the NodePool does not exist
  | owned     -- NodePool exists and owns the claim (owner reference with its UID)
  | foreign   -- NodePool exists but the claim is owned by another UID
deriving Repr, DecidableEq

/-- Frame: the NodeClaim's `spec.terminationGracePeriod` and `spec.expireAfter` are deliberately **not** fields
    of `LiveIn` — neither timeout depends on them (the correspondence op sets them on the real NodeClaim, with
    clocks inside `[timeout − terminationGracePeriod, timeout)`, and the model must still agree). -/
structure LiveIn where
  managed       : Bool
  deleting      : Bool
  launched      : Tri
  launchedAt    : Int
  registered    : Tri
  registeredAt  : Int
  now           : Int
  createOk      : Bool            -- what `cloudProvider.Create` does when the launch step calls it
  pool          : Pool
  poolCondFalse : Bool            -- NodeRegistrationHealthy is already False on the NodePool
  prior         : List Bool       -- outcomes recorded earlier in the pool's registration-health window
  getFaults     : List Fault      -- outcome of the k-th NodePool Get
  patchFaults   : List Fault      -- outcome of the k-th NodePool status patch
  deleteFaults  : List Fault      -- outcome of the k-th NodeClaim Delete
deriving Repr

/-- state threaded through `Liveness.Reconcile` -/
structure LState where
  tracker   : Karp.Ring.Tracker
  condFalse : Bool
  gets      : Nat := 0
  patches   : Nat := 0
  dels      : Nat := 0

def faultAt (l : List Fault) (k : Nat) : Fault := l.getD k .none

inductive HRes | ok | err | conflict
deriving Repr, DecidableEq

/-- `Liveness.updateNodePoolRegistrationHealth` (result as seen through `client.IgnoreNotFound`) -/
def updateHealth (i : LiveIn) (s : LState) : HRes × LState :=
  match i.pool with
  | .none => (.ok, s)
  | p =>
    let f := faultAt i.getFaults s.gets
    let s := { s with gets := s.gets + 1 }
    match f with
    | .err => (.err, s)
    | .conflict => (.conflict, s)
    | .notFound => (.ok, s)
    | .none =>
      match p with
      | .owned =>
        if (s.tracker.dryRun false).status == .unhealthy && !s.condFalse then
          let pf := faultAt i.patchFaults s.patches
          let s := { s with patches := s.patches + 1 }
          match pf with
          | .err => (.err, s)
          | .conflict => (.conflict, s)
          | .notFound => (.ok, { s with tracker := s.tracker.update false })
          | .none => (.ok, { s with tracker := s.tracker.update false, condFalse := true })
        else (.ok, { s with tracker := s.tracker.update false })
      | _ => (.ok, s)        -- missing: NotFound (ignored); foreign: owner reference does not match

/-- how a timeout branch ends: fall through to the rest of `Reconcile`, or return (with or without error) -/
inductive PRes | continue | stop (err : Bool)
deriving Repr, DecidableEq

/-- the body of a timeout branch once the timeout has passed: update the pool's health, then Delete -/
def timeoutBranch (i : LiveIn) (s : LState) : PRes × LState :=
  match updateHealth i s with
  | (.err, s) => (.stop true, s)
  | (.conflict, s) => (.stop false, s)
  | (.ok, s) =>
    let df := faultAt i.deleteFaults s.dels
    let s := { s with dels := s.dels + 1 }
    match df with
    | .none => (.continue, s)
    | .notFound => (.stop false, s)
    | _ => (.stop true, s)

/-- `Liveness.Reconcile` on the conditions as the earlier sub-reconcilers left them: (error, final state).
    `timeUntilTimeout := Timeout - clock.Since(lastTransition); timeUntilTimeout > 0` is written
    `now - lastTransition < Timeout`. -/
def launchPart (i : LiveIn) (launched : Tri) (launchedAt : Int) (s₀ : LState) : PRes × LState :=
  if launched != .true_ then
    if i.now - launchedAt < launchTimeout then (.stop false, s₀)
    else
      -- (repaired) the launch-timeout branch returns after its Delete instead of falling through to the
      -- registration timeout
      match timeoutBranch i s₀ with
      | (.continue, s) => (.stop false, s)
      | r => r
  else (.continue, s₀)

def liveness (i : LiveIn) (launched : Tri) (launchedAt : Int) (s₀ : LState) : Bool × LState :=
  if i.registered == .true_ then (false, s₀)
  else
    match launchPart i launched launchedAt s₀ with
    | (.stop e, s) => (e, s)
    | (.continue, s) =>
      if i.now - i.registeredAt < registrationTimeout then (false, s)
      else match timeoutBranch i s with
        | (.stop e, s) => (e, s)
        | (.continue, s) => (false, s)

/-- the launch step as far as it matters here: an Unknown `Launched` calls `cloudProvider.Create`; success
    sets `Launched=True` now, failure keeps it Unknown and makes the pass return an error -/
def launchStep (i : LiveIn) : Tri × Int × Bool :=
  if i.launched == .unknown then
    if i.createOk then (.true_, i.now, false) else (.unknown, i.launchedAt, true)
  else (i.launched, i.launchedAt, false)

def initState (i : LiveIn) : LState :=
  { tracker := i.prior.foldl (fun t ok => t.update ok) Karp.Ring.Tracker.new, condFalse := i.poolCondFalse }

/-- one pass of the lifecycle controller (no Node exists for the claim, so registration leaves
    `Registered` as it is) -/
def lifecycle (i : LiveIn) : Out :=
  if !i.managed then {}
  else if i.deleting then {}        -- finalize path: no liveness
  else
    let ls := launchStep i
    let r := liveness i ls.1 ls.2.1 (initState i)
    { deletes := r.2.dels, err := ls.2.2 || r.1 }

/-! ## Node repair -/

structure Policy where
  type       : String
  status     : String
  toleration : Int
deriving Repr, DecidableEq

structure NCond where
  type   : String
  status : String
  since  : Int
deriving Repr, DecidableEq

structure RNode where
  pool  : String            -- value of the nodepool label; "" = none
  conds : List NCond
  /-- the Node carries a deletion timestamp (e.g. it is draining after an earlier repair) but still exists.
      `areNodesHealthy` lists and counts it like any other Node of the pool. -/
  terminating : Bool := false
deriving Repr, DecidableEq

inductive Annot | none | time (sec : Int) | garbage
deriving Repr, DecidableEq

/-- Frame: the NodeClaim's `spec.terminationGracePeriod` and `spec.expireAfter` are deliberately **not** fields
    of `RepairIn` — the toleration is the provider's alone (the correspondence op sets them on the real
    NodeClaim, with clocks inside `[toleration end − terminationGracePeriod, toleration end)`). -/
structure RepairIn where
  policies       : List Policy
  node           : RNode
  claims         : Nat              -- NodeClaims matching the Node's provider id
  claimPool      : Option String    -- nodepool label on the NodeClaim
  claimDeleting  : Bool
  annot          : Annot
  others         : List RNode
  now            : Int
  claimListFault : Bool
  nodeListFault  : Fault
  patchFault     : Fault
  deleteFault    : Fault
deriving Repr

/-- `nodeutils.GetCondition`: the first condition of that type -/
def getCond (conds : List NCond) (t : String) : Option NCond := conds.find? (fun c => c.type == t)

/-- the node condition a policy matches, if any (policies with an empty status are outside the model) -/
def policyMatch (p : Policy) (conds : List NCond) : Option NCond :=
  match getCond conds p.type with
  | some c => if c.status == p.status then some c else none
  | none => none

/-- `findUnhealthyConditions`: the matching condition with the earliest termination time (first wins on ties) -/
def findUnhealthy (ps : List Policy) (conds : List NCond) : Option (NCond × Int) :=
  ps.foldl (fun best p =>
    match policyMatch p conds with
    | none => best
    | some c =>
      match best with
      | none => some (c, p.toleration)
      | some (bc, btol) => if bc.since + btol > c.since + p.toleration then some (c, p.toleration) else best) none

def isUnhealthy (ps : List Policy) (n : RNode) : Bool := ps.any (fun p => (policyMatch p n.conds).isSome)

/-- the Nodes `areNodesHealthy` lists: the pool's (by Node label) or, for a standalone claim, the cluster's -/
def population (i : RepairIn) : List RNode :=
  match i.claimPool with
  | some p => (i.node :: i.others).filter (fun n => n.pool == p)
  | none => i.node :: i.others

/-- `intstr.GetScaledValueFromIntOrPercent(pct%, n, roundUp)` -/
def scaled (pct n : Nat) (roundUp : Bool) : Nat := if roundUp then (pct * n + 99) / 100 else pct * n / 100

def threshold (n : Nat) : Nat := scaled Karp.Gen.Reapers.allowedUnhealthyPercent n Karp.Gen.Reapers.unhealthyRoundUp

def unhealthyCount (i : RepairIn) : Nat := ((population i).filter (isUnhealthy i.policies)).length

def nodesHealthy (i : RepairIn) : Bool := unhealthyCount i ≤ threshold (population i).length

/-- does `annotateTerminationGracePeriod` issue a Patch? (not if a parsable timestamp not after now is present) -/
def patchNeeded (i : RepairIn) : Bool :=
  match i.annot with
  | .time s => !(s * 1000000000 ≤ i.now)
  | _ => true

inductive RBranch | idle | wait | blocked | acted
deriving Repr, DecidableEq

def repairB (i : RepairIn) : Out × RBranch :=
  if i.claimListFault then ({ err := true }, .idle)
  else if i.claims != 1 then ({}, .idle)          -- NotFound / Duplicate are ignored
  else match findUnhealthy i.policies i.node.conds with
    | none => ({}, .idle)
    | some (c, tol) =>
      let terminationTime := c.since + tol
      if i.now < terminationTime then ({ requeue := terminationTime - i.now }, .wait)
      else match i.nodeListFault with
        | .notFound => ({ err := i.claimPool.isNone }, .idle)   -- pool path: IgnoreNotFound; cluster path: returned
        | .err => ({ err := true }, .idle)
        | .conflict => ({ err := true }, .idle)
        | .none =>
          if !nodesHealthy i then ({}, .blocked)
          else if patchNeeded i && i.patchFault != .none then ({ err := i.patchFault.isErr }, .idle)
          else if i.claimDeleting then ({}, .idle)
          else ({ deletes := 1, err := i.deleteFault.isErr }, .acted)

def repair (i : RepairIn) : Out := (repairB i).1

/-! ## Node repair over an evolving cluster

One controller instance reconciling the Nodes of a cluster again and again while the cluster changes under it:
conditions flip, Nodes whose NodeClaim was deleted start terminating (deletion timestamp set by the
termination flow, object kept by the finalizer while the Node drains) and eventually disappear.  The
controller keeps no state of its own between reconciles, so each reconcile is `repairB` on the cluster as it
is at that moment; the only thing a reconcile changes is the NodeClaim it deleted (its finalizer keeps it,
with a deletion timestamp).  (The termination-timestamp annotation a reconcile writes is not tracked: it only
decides whether the next reconcile issues a Patch, and the Patch outcome is not varied here.) -/

/-- a Node of the cluster together with its NodeClaim -/
structure SNode where
  node          : RNode
  present       : Bool := true            -- the Node (and its NodeClaim) still exist
  hasClaim      : Bool := true            -- `false`: a Node karpenter does not manage
  claimPool     : Option String           -- nodepool label on the NodeClaim
  claimDeleting : Bool := false
deriving Repr, DecidableEq

inductive REvent
  /-- reconcile Node `k` with the clock at `now`; outcome of the Node list and of the Delete, if issued -/
  | reconcile (k : Nat) (now : Int) (nodeListFault deleteFault : Fault)
  /-- the kubelet / a monitor sets a condition of Node `k` -/
  | setCond (k : Nat) (c : NCond)
  /-- Node `k` gets a deletion timestamp; it stays present -/
  | terminate (k : Nat)
  /-- Node `k` and its NodeClaim are finalized and disappear -/
  | gone (k : Nat)
deriving Repr

/-- replace the condition(s) of that type, or add it -/
def setCondition (conds : List NCond) (c : NCond) : List NCond :=
  if conds.any (fun x => x.type == c.type) then conds.map (fun x => if x.type == c.type then c else x)
  else conds ++ [c]

/-- what a reconcile of Node `k` sees -/
def seqIn (ps : List Policy) (st : List SNode) (k : Nat) (now : Int) (nlf df : Fault) : Option RepairIn :=
  match st[k]? with
  | none => none
  | some s =>
    if !s.present then none
    else some {
      policies := ps, node := s.node, claims := if s.hasClaim then 1 else 0, claimPool := s.claimPool,
      claimDeleting := s.claimDeleting, annot := .none,
      others := ((st.eraseIdx k).filter (·.present)).map (·.node), now := now,
      claimListFault := false, nodeListFault := nlf, patchFault := .none, deleteFault := df }

def updateAt (st : List SNode) (k : Nat) (f : SNode → SNode) : List SNode :=
  match st[k]? with
  | some s => st.set k (f s)
  | none => st

/-- the cluster after an event; `deleted` = the reconcile deleted the Node's NodeClaim (Delete issued and
    accepted by the API server) -/
def applyEvent (st : List SNode) (ev : REvent) (deleted : Bool) : List SNode :=
  match ev with
  | .reconcile k _ _ _ => if deleted then updateAt st k (fun s => { s with claimDeleting := true }) else st
  | .setCond k c => updateAt st k (fun s => { s with node := { s.node with conds := setCondition s.node.conds c } })
  | .terminate k => updateAt st k (fun s => { s with node := { s.node with terminating := true } })
  | .gone k => updateAt st k (fun s => { s with present := false })

/-- one reconcile: the input it sees, what it does, the branch it took (`none`: not a reconcile, or the Node
    is gone) -/
def seqStep (ps : List Policy) (st : List SNode) (ev : REvent) : Option (RepairIn × Out × RBranch) :=
  match ev with
  | .reconcile k now nlf df =>
    match seqIn ps st k now nlf df with
    | some i => some (i, (repairB i).1, (repairB i).2)
    | none => none
  | _ => none

/-- did that step delete the NodeClaim? (Delete issued, and not failed by the API server) -/
def stepDeleted (ev : REvent) (r : Option (RepairIn × Out × RBranch)) : Bool :=
  match ev, r with
  | .reconcile _ _ _ df, some (_, o, _) => o.deletes > 0 && df == .none
  | _, _ => false

/-- the whole run: one entry per event -/
def runSeq (ps : List Policy) : List SNode → List REvent → List (Option (RepairIn × Out × RBranch))
  | _, [] => []
  | st, ev :: rest =>
    let r := seqStep ps st ev
    r :: runSeq ps (applyEvent st ev (stepDeleted ev r)) rest

/-- Delete calls issued in a run -/
def totalDeletes (tr : List (Option (RepairIn × Out × RBranch))) : Nat :=
  (tr.map (fun r => match r with | some (_, o, _) => o.deletes | none => 0)).sum

/-! ## Node repair: which NodeClaim is the Node's

`Controller.Reconcile` starts from a *Node* and acts on a *NodeClaim*: `nodeutils.NodeClaimForNode` →
`nodeutils.GetNodeClaims` resolves the Node to the NodeClaims whose `status.providerID` equals the Node's
`spec.providerID`.  The cluster around the reconciled Node holds many NodeClaims: the Node's own, those of the
other Nodes, and NodeClaims that are **still launching** — they have no provider id yet (`""`), no Node and no
condition of any kind.  A Node may lack a provider id too (the cloud-controller-manager has not set it yet, or
the Node was registered by hand).  `GetNodeClaims` answers "none" for such a Node *without asking the API
server* — the `status.providerID` field index lists every launching NodeClaim under `""`. -/

/-- a NodeClaim of the cluster, as far as node repair can see it -/
structure TClaim where
  name     : String
  pid      : String            -- `status.providerID`; "" = not launched yet
  pool     : Option String     -- nodepool label
  deleting : Bool := false
deriving Repr, DecidableEq

structure RepairTIn where
  policies       : List Policy
  node           : RNode
  nodePid        : String        -- `spec.providerID` of the reconciled Node; "" = not set
  claims         : List TClaim   -- ALL NodeClaims of the cluster
  others         : List RNode
  now            : Int
  claimListFault : Bool          -- the NodeClaim list (by provider id) fails, if it is issued
  nodeListFault  : Fault
  patchFault     : Fault
  deleteFault    : Fault
deriving Repr

/-- `nodeutils.GetNodeClaims`: none for a Node without provider id (`skipEmpty`: the early return in front of
    the LIST — the regenerated control-flow fact `nodeClaimLookupSkipsEmptyProviderID`), otherwise the NodeClaims
    the `status.providerID` index lists under the Node's provider id; without the early return that is, for a
    Node without provider id, every NodeClaim that is still launching -/
def nodeClaimsForWith (skipEmpty : Bool) (i : RepairTIn) : List TClaim :=
  if skipEmpty && i.nodePid == "" then [] else i.claims.filter (fun c => c.pid == i.nodePid)

def nodeClaimsFor (i : RepairTIn) : List TClaim :=
  nodeClaimsForWith Karp.Gen.Reapers.nodeClaimLookupSkipsEmptyProviderID i

/-- the reconcile as `repairB` sees it once the Node has been resolved to NodeClaim `c` -/
def RepairTIn.view (i : RepairTIn) (c : TClaim) : RepairIn :=
  { policies := i.policies, node := i.node, claims := 1, claimPool := c.pool, claimDeleting := c.deleting,
    annot := .none, others := i.others, now := i.now, claimListFault := false,
    nodeListFault := i.nodeListFault, patchFault := i.patchFault, deleteFault := i.deleteFault }

/-- does `repairB` reach `annotateTerminationGracePeriod`'s Patch? -/
def repairPatches (i : RepairIn) : Bool :=
  !i.claimListFault && i.claims == 1 &&
  (match findUnhealthy i.policies i.node.conds with
   | none => false
   | some (c, tol) => !(i.now < c.since + tol) && i.nodeListFault == .none && nodesHealthy i && patchNeeded i)

/-- what a reconcile did, by NodeClaim name -/
structure TOut where
  deleted : List String := []    -- NodeClaims Delete was called for
  patched : List String := []    -- NodeClaims the termination timestamp was stamped on (Patch issued)
  out     : Out := {}
  branch  : RBranch := .idle
deriving Repr, DecidableEq

def repairTWith (skipEmpty : Bool) (i : RepairTIn) : TOut :=
  -- the LIST is issued (and can fail) unless the lookup returned before it
  if !(skipEmpty && i.nodePid == "") && i.claimListFault then { out := { err := true } }
  else match nodeClaimsForWith skipEmpty i with
    | [c] =>
      let r := repairB (i.view c)
      { deleted := if 0 < r.1.deletes then [c.name] else [],
        patched := if repairPatches (i.view c) then [c.name] else [],
        out := r.1, branch := r.2 }
    | _ => {}                       -- NotFound / Duplicate are ignored

/-- the reconcile as the code is -/
def repairT (i : RepairTIn) : TOut := repairTWith Karp.Gen.Reapers.nodeClaimLookupSkipsEmptyProviderID i

end Karp.Reapers
