/-
Model of `pkg/utils/ringbuffer/buffer.go` (RingBuffer[T]) and of
`pkg/state/nodepoolhealth/tracker.go` (Tracker, State.DryRun).
Core Lean only.  Constants come from the regenerated `Karp.Gen.Health`.
-/
import Karp.Gen.Health

namespace Karp.Ring

/-- `RingBuffer[T]`: `values` in *physical* order (what `Items()` returns), `head` = index of the
    oldest element once the buffer is full, `cap` = `cap(b.values)`. -/
structure Ring (α : Type) where
  cap    : Nat
  values : List α
  head   : Nat
deriving Repr, DecidableEq

variable {α : Type}

def Ring.new (cap : Nat) : Ring α := { cap := cap, values := [], head := 0 }

/-- `Insert`. For `cap = 0` the Go code panics (index out of range); the model is only used with
    `0 < cap` (hypothesis of every theorem; `New` is always called with `BufferSize`). -/
def Ring.insert (b : Ring α) (v : α) : Ring α :=
  if b.values.length < b.cap then { b with values := b.values ++ [v] }
  else { b with values := b.values.set b.head v, head := (b.head + 1) % b.cap }

def Ring.reset (b : Ring α) : Ring α := { b with values := [], head := 0 }
def Ring.items (b : Ring α) : List α := b.values
def Ring.len (b : Ring α) : Nat := b.values.length

/-- `Clone` (added by the C20 repair): same capacity, values and head. -/
def Ring.clone (b : Ring α) : Ring α := { cap := b.cap, values := b.values, head := b.head }

/-- the elements oldest-first -/
def Ring.logical (b : Ring α) : List α := b.values.drop b.head ++ b.values.take b.head

/-! ### Tracker -/

inductive Status | unknown | healthy | unhealthy
deriving Repr, DecidableEq

def Status.toNat : Status → Nat
  | .unknown => Karp.Gen.Health.statusUnknown
  | .healthy => Karp.Gen.Health.statusHealthy
  | .unhealthy => Karp.Gen.Health.statusUnhealthy

def bufferSize : Nat := Karp.Gen.Health.bufferSize
def thrNum : Nat := Karp.Gen.Health.thresholdFalseNum
def thrDen : Nat := Karp.Gen.Health.thresholdFalseDen

def failures (l : List Bool) : Nat := (l.filter (fun v => !v)).length

/-- the status decision on a list of outcomes:
    `float64(unhealthy)/float64(BufferSize) >= ThresholdFalse`, as exact fractions -/
def statusOf (l : List Bool) : Status :=
  if l.length = 0 then .unknown
  else if thrNum * bufferSize ≤ failures l * thrDen then .unhealthy else .healthy

abbrev Tracker := Ring Bool

def Tracker.new : Tracker := Ring.new bufferSize
def Tracker.update (t : Tracker) (ok : Bool) : Tracker := t.insert ok
def Tracker.status (t : Tracker) : Status := statusOf t.items

/-- number of failures `SetStatus(StatusUnhealthy)` inserts: `int(BufferSize * ThresholdFalse)` -/
def unhealthySeed : Nat := bufferSize * thrNum / thrDen

def insertMany (t : Tracker) (v : Bool) : Nat → Tracker
  | 0 => t
  | n + 1 => insertMany (t.insert v) v n

def Tracker.setStatus (t : Tracker) : Status → Tracker
  | .unknown => t.reset
  | .healthy => t.reset.insert true
  | .unhealthy => insertMany t.reset false unhealthySeed

/-- `State.DryRun` as repaired: a clone of the tracker's buffer (same head), then `Update`. -/
def Tracker.dryRun (t : Tracker) (ok : Bool) : Tracker := (t.clone).insert ok

/-- `State.DryRun` as it was at the pinned commit: the items copied in *physical* order into a
    fresh buffer (head 0), then `Update`.  Kept to document the repaired defect. -/
def Tracker.dryRunPhysical (t : Tracker) (ok : Bool) : Tracker :=
  (t.items.foldl (fun (c : Tracker) v => c.insert v) Tracker.new).insert ok

/-! ### Histories -/

inductive Op
  | update (ok : Bool)
  | reset                 -- SetStatus(Unknown): NodePool / NodeClass changed
  | set (s : Status)      -- SetStatus: re-hydration from the persisted condition
  | restart               -- process restart: a new State
  | dry (ok : Bool)       -- what-if; no state change
  | status
deriving Repr, DecidableEq

def step (t : Tracker) : Op → Tracker
  | .update ok => t.update ok
  | .reset => t.setStatus .unknown
  | .set s => t.setStatus s
  | .restart => Tracker.new
  | .dry _ => t
  | .status => t

/-- what the harness observes after the op -/
def observe (t : Tracker) (op : Op) : Status :=
  match op with
  | .dry ok => (t.dryRun ok).status
  | _ => (step t op).status

def run (t : Tracker) : List Op → Tracker
  | [] => t
  | op :: ops => run (step t op) ops

def observations (t : Tracker) : List Op → List Status
  | [] => []
  | op :: ops => observe t op :: observations (step t op) ops

/-! ### The NodePool condition maintained by registration / liveness -/

/-- `NodeRegistrationHealthy` as persisted on the NodePool -/
inductive Cond | unknown | true_ | false_
deriving Repr, DecidableEq

/-- `Registration.updateNodePoolRegistrationHealth`: what-if success; set True iff the what-if is Healthy;
    then record the success. (The status patch is assumed to succeed; on failure the function returns
    before `Update`, i.e. nothing changes.) -/
def recordSuccess (c : Cond) (t : Tracker) : Cond × Tracker :=
  let c' := if (t.dryRun true).status = .healthy then Cond.true_ else c
  (c', t.update true)

/-- `Liveness.updateNodePoolRegistrationHealth` -/
def recordFailure (c : Cond) (t : Tracker) : Cond × Tracker :=
  let c' := if (t.dryRun false).status = .unhealthy ∧ c ≠ Cond.false_ then Cond.false_ else c
  (c', t.update false)

end Karp.Ring
