/-
Model of the exclusive-device part of `pkg/scheduling/dynamicresources/allocationtracker.go`
(`AllocationTracker.Commit` / `insertAllocation` / `ReleaseInstanceTypes` / `IsAllocated`).  Core Lean only.

The Go maps become relations (lists of triples):
  `InflightClusterAllocations : device ↦ {NodeClaimID, InstanceTypes}`            → `inflight : (device, nodeclaim, instance type)`
  `InflightClusterAllocationsByNodeClaim : nodeclaim ↦ instance type ↦ devices`   → `byNC     : (nodeclaim, instance type, device)`
  `InflightTemplateAllocations : nodeclaim ↦ instance type ↦ devices`             → `template : (nodeclaim, instance type, device)`
The four `panic` sites are `Except Panic`.  Multi-allocatable devices (consumed capacity) and shared counters are tracked
by other fields of the Go struct and are NOT modelled here (see the manifest: partial); a device listed in an
allocation's capacity-consumption map is skipped by `Commit` and is likewise outside this model.
The allocator's search (`Allocator.Allocate`) is not modelled: the devices of an allocation are a parameter.
-/
namespace Karp.DraTracker

abbrev NC := String
abbrev IT := String

structure Dev where
  name : String
  template : Bool        -- `DeviceID.Template`: a potential device of a cloud-provider slice template
deriving Repr, DecidableEq

inductive Panic
  | dupInstanceType   -- "device is already allocated for instance type"
  | otherNodeClaim    -- "device is already allocated for a different nodeclaim"
  | missingRefCount   -- "missing reference count for device ID"
  | missingITRef      -- "inflight allocation metadata for device is missing instance type reference"
deriving Repr, DecidableEq

structure Tracker where
  prealloc : List String
  inflight : List (String × NC × IT)
  byNC : List (NC × IT × String)
  template : List (NC × IT × String)
deriving Repr, DecidableEq

def Tracker.new (prealloc : List String) : Tracker := { prealloc := prealloc, inflight := [], byNC := [], template := [] }

/-- `InflightClusterAllocations[id].NodeClaimID` -/
def Tracker.owner? (t : Tracker) (d : String) : Option NC := (t.inflight.find? (fun x => x.1 == d)).map (·.2.1)

/-- `IsAllocated` -/
def Tracker.isAllocated (t : Tracker) (d : Dev) (nc : NC) (it : IT) : Bool :=
  if d.template then t.template.contains (nc, it, d.name)
  else if t.prealloc.contains d.name then true
  else match t.owner? d.name with
    | some o => o != nc || t.inflight.contains (d.name, nc, it)
    | none => false

/-- one device of `Commit` (with `insertAllocation` inlined) -/
def Tracker.commit1 (t : Tracker) (nc : NC) (it : IT) (d : Dev) : Except Panic Tracker :=
  if d.template then
    if t.template.contains (nc, it, d.name) then throw .dupInstanceType
    else pure { t with template := (nc, it, d.name) :: t.template }
  else if t.byNC.contains (nc, it, d.name) then throw .dupInstanceType
  else match t.owner? d.name with
    | some o =>
      if o != nc then throw .otherNodeClaim
      else if t.inflight.contains (d.name, nc, it) then throw .dupInstanceType
      else pure { t with byNC := (nc, it, d.name) :: t.byNC, inflight := (d.name, nc, it) :: t.inflight }
    | none => pure { t with byNC := (nc, it, d.name) :: t.byNC, inflight := (d.name, nc, it) :: t.inflight }

/-- `Commit` over the allocation's (instance type, device) pairs -/
def Tracker.commitPairs (t : Tracker) (nc : NC) : List (IT × Dev) → Except Panic Tracker
  | [] => pure t
  | (it, d) :: rest =>
    match t.commit1 nc it d with
    | .error p => .error p
    | .ok t' => t'.commitPairs nc rest

def pairsOf (alloc : List (IT × List Dev)) : List (IT × Dev) := alloc.flatMap (fun (it, ds) => ds.map (fun d => (it, d)))

/-- `Commit(alloc)`: `alloc.deviceIDsByIT` as a list -/
def Tracker.commit (t : Tracker) (nc : NC) (alloc : List (IT × List Dev)) : Except Panic Tracker := t.commitPairs nc (pairsOf alloc)

/-- the devices of one released instance type: drop their reference -/
def Tracker.unref (t : Tracker) (nc : NC) (it : IT) : List String → Except Panic Tracker
  | [] => pure t
  | d :: ds =>
    if !t.inflight.any (fun x => x.1 == d) then throw .missingRefCount
    else if !t.inflight.contains (d, nc, it) then throw .missingITRef
    else Tracker.unref { t with inflight := t.inflight.filter (fun x => x != (d, nc, it)) } nc it ds

/-- one instance type of `ReleaseInstanceTypes` -/
def Tracker.release1 (t : Tracker) (nc : NC) (it : IT) : Except Panic Tracker :=
  let devices := (t.byNC.filter (fun x => x.1 == nc && x.2.1 == it)).map (·.2.2)
  let t1 := { t with byNC := t.byNC.filter (fun x => !(x.1 == nc && x.2.1 == it)) }
  match t1.unref nc it devices with
  | .error p => .error p
  | .ok t2 => pure { t2 with template := t2.template.filter (fun x => !(x.1 == nc && x.2.1 == it)) }

/-- `ReleaseInstanceTypes(nodeClaim, instanceTypes...)` -/
def Tracker.release (t : Tracker) (nc : NC) : List IT → Except Panic Tracker
  | [] => pure t
  | it :: its =>
    match t.release1 nc it with
    | .error p => .error p
    | .ok t' => t'.release nc its

/-- keep the first occurrence of every element -/
def dedupe {α : Type} [BEq α] : List α → List α
  | [] => []
  | a :: as => a :: (dedupe as).filter (fun b => b != a)

/-- what a caller following the allocator's discipline commits: of the requested pairs, the first occurrence of each
    (instance type, device) pair whose device is not allocated for (nodeclaim, instance type) in the current state -/
def Tracker.grantable (t : Tracker) (nc : NC) (pairs : List (IT × Dev)) : List (IT × Dev) :=
  dedupe (pairs.filter (fun p => !t.isAllocated p.2 nc p.1))

inductive Op
  | commit (nc : NC) (alloc : List (IT × List Dev))     -- unguarded
  | guarded (nc : NC) (alloc : List (IT × List Dev))    -- only what `IsAllocated` leaves free
  | release (nc : NC) (its : List IT)
deriving Repr, DecidableEq

def stepOp (t : Tracker) : Op → Except Panic Tracker
  | .commit nc alloc => t.commit nc alloc
  | .guarded nc alloc => t.commitPairs nc (t.grantable nc (pairsOf alloc))
  | .release nc its => t.release nc its

def run (t : Tracker) : List Op → Except Panic Tracker
  | [] => pure t
  | op :: ops =>
    match stepOp t op with
    | .error p => .error p
    | .ok t' => run t' ops

end Karp.DraTracker
