/-
Model of the three places that maintain a NodePool's `NodeRegistrationHealthy` condition (C20):

* `pkg/controllers/nodepool/registrationhealth/controller.go`  `Controller.Reconcile`
  (re-hydration of an empty tracker from the persisted condition; reset on a NodePool / NodeClass
  generation change),
* `pkg/controllers/nodeclaim/lifecycle/registration.go`  `Registration.updateNodePoolRegistrationHealth`,
* `pkg/controllers/nodeclaim/lifecycle/liveness.go`      `Liveness.updateNodePoolRegistrationHealth`,

as they are, over the tracker model of `Karp.Model.Ring`.  Core Lean only.

Modelled, not verified: at most one NodePool call fails per event and the retry follows at once; the
NodePool copy handed to a controller is up to date; a NodePool / NodeClass edit is followed by the
registrationhealth reconcile before the next launch outcome of the pool is recorded (one event = edit
+ reconcile), likewise a restart.
-/
import Karp.Model.Ring

namespace Karp.PoolHealth
open Karp.Ring

/-- what the model keeps of one NodePool object, of the NodeClass it references and of the pool's
    tracker in `nodepoolhealth.State` -/
structure Pool where
  /-- the `NodeRegistrationHealthy` condition exists in `status.conditions` -/
  present  : Bool
  /-- its status (`.unknown` while absent) -/
  cond     : Cond
  /-- its `observedGeneration` -/
  condGen  : Nat
  /-- `metadata.generation` of the NodePool -/
  gen      : Nat
  /-- `metadata.generation` of the NodeClass -/
  classGen : Nat
  /-- `status.nodeClassObservedGeneration` -/
  classObs : Nat
  t        : Tracker
deriving Repr, DecidableEq

/-- a NodePool that was just created: no condition, nothing observed, no tracker yet
    (`nodePoolNodeRegistration` creates an empty one on first use) -/
def Pool.created : Pool :=
  { present := false, cond := .unknown, condGen := 0, gen := 1, classGen := 1, classObs := 0, t := Tracker.new }

/-- "If Karpenter restarts i.e. if the buffer for the nodePool is empty and the condition is
    true/false then we pre-hydrate the buffer" -/
def hydrate (p : Pool) : Tracker :=
  if p.t.status = .unknown then
    if p.present ∧ p.cond = .true_ then p.t.setStatus .healthy
    else if p.present ∧ p.cond = .false_ then p.t.setStatus .unhealthy
    else p.t
  else p.t

/-- the guard of the reset: condition absent, NodeClass generation not yet observed, or the condition
    was written for an older NodePool generation -/
def needsReset (p : Pool) : Bool :=
  !p.present || p.classObs != p.classGen || p.gen != p.condGen

/-- `registrationhealth.Controller.Reconcile` (the NodeClass exists and is supported):
    hydrate, then — if the guard holds — `SetUnknown` *and* `SetStatus(StatusUnknown)` whatever
    `SetUnknown` returns, then record the NodeClass generation. -/
def reconcile (p : Pool) : Pool :=
  let t1 := hydrate p
  if needsReset p then
    { p with present := true, cond := .unknown, condGen := p.gen, classObs := p.classGen,
             t := t1.setStatus .unknown }
  else { p with classObs := p.classGen, t := t1 }

/-- `Registration.updateNodePoolRegistrationHealth` for a NodeClaim the pool owns: the what-if verdict
    decides whether `SetTrue` is called (which also stamps the current generation); the success is
    recorded in every case. -/
def registered (p : Pool) : Pool :=
  let set : Bool := (p.t.dryRun true).status = .healthy
  let r := recordSuccess p.cond p.t
  { p with present := p.present || set, cond := r.1, condGen := if set then p.gen else p.condGen, t := r.2 }

/-- `Liveness.updateNodePoolRegistrationHealth` for a NodeClaim the pool owns (registration timeout or
    launch timeout — the two call sites differ only in the reason/message of the condition). -/
def timedOut (p : Pool) : Pool :=
  let set : Bool := (p.t.dryRun false).status = .unhealthy ∧ p.cond ≠ Cond.false_
  let r := recordFailure p.cond p.t
  { p with present := p.present || set, cond := r.1, condGen := if set then p.gen else p.condGen, t := r.2 }

/-! ### API faults and retries

The controllers reach the NodePool through two calls that can fail: the `Get` inside the two
`updateNodePoolRegistrationHealth` functions and the optimistic-lock status `Patch` (all three
controllers).  A failed call makes the reconciler return an error / `Requeue: true`; controller-runtime
then hands the object to the controller again.  `Fault` = which call of the event fails (once). -/

inductive Fault
  | none
  | get    -- the NodePool `Get` of the lifecycle controller fails
  | patch  -- the NodePool status `Patch` fails (409 Conflict or 5xx: same control flow up to `Requeue` vs. error)
deriving Repr, DecidableEq

/-- `Registration.updateNodePoolRegistrationHealth` issues the status patch iff the what-if verdict is
    Healthy and `SetTrue` changed something (status, or the observed generation) -/
def patchTrue (p : Pool) : Bool :=
  (p.t.dryRun true).status = .healthy ∧ ¬ (p.present ∧ p.cond = .true_ ∧ p.condGen = p.gen)

/-- `Liveness.updateNodePoolRegistrationHealth` issues the status patch iff the what-if verdict is
    Unhealthy and the condition is not False yet -/
def patchFalse (p : Pool) : Bool :=
  (p.t.dryRun false).status = .unhealthy ∧ p.cond ≠ Cond.false_

/-- what a registration leaves of the pool when fault `f` is armed (see `registrationStep`: the NodeClaim is
    marked Registered first, so a failed NodePool call is never made up for) -/
def registeredF (p : Pool) : Fault → Pool
  | .none => registered p
  | .get => p
  | .patch => if patchTrue p then p else registered p

/-- `registrationhealth.Controller.Reconcile` with an armed fault, then the retry if the patch failed.
    The patch is issued iff the reset guard holds (otherwise nothing changed: the NodeClass generation is
    already recorded).  A failed patch leaves the NodePool as it was, but `SetStatus` has already run. -/
def reconcileF (p : Pool) (f : Fault) : Pool :=
  if f = .patch ∧ needsReset p then reconcile { p with t := (hydrate p).setStatus .unknown }
  else reconcile p

/-! ### One NodeClaim under the lifecycle controller

What `Controller.Reconcile` (launch, registration, initialization, liveness — in the order the source
lists them, `Karp.Gen.Health.lifecycleOrder`) does to the pool's health when it looks at one NodeClaim
the pool owns. -/

/-- what the model keeps of a NodeClaim -/
structure Claim where
  /-- `Launched` is True (false: Unknown — the cloud provider cannot create the instance) -/
  launched   : Bool
  /-- `Registered` is True (persisted) -/
  registered : Bool
  /-- `metadata.deletionTimestamp` is set -/
  deleted    : Bool
deriving Repr, DecidableEq

def Claim.fresh (launched : Bool) : Claim := { launched := launched, registered := false, deleted := false }

/-- the circumstances of one reconcile of a NodeClaim (the environment's choices) -/
structure Look where
  /-- a Node with the NodeClaim's provider id exists -/
  node      : Bool
  /-- `LaunchTimeout` has passed since `Launched` was last written -/
  launchDue : Bool
  /-- `registrationTimeout` has passed since `Registered` went Unknown -/
  regDue    : Bool
deriving Repr, DecidableEq

/-- the state threaded through one pass -/
structure Pass where
  pool   : Pool
  claim  : Claim
  /-- the fault that is still armed -/
  fault  : Fault
  /-- a sub-reconciler returned an error / asked for a requeue because a NodePool call failed -/
  failed : Bool
deriving Repr, DecidableEq

/-- `Registration.Reconcile`: nothing for a NodeClaim that is Registered already or whose Node is not
    there (no provider id without a launch); otherwise `Registered = True` is set on the object — and
    persisted by `Controller.Reconcile` whatever happens next — BEFORE the NodePool is touched. -/
def registrationStep (l : Look) (s : Pass) : Pass :=
  if s.claim.registered then s
  else if !(l.node && s.claim.launched) then s
  else
    let c := { s.claim with registered := true }
    match s.fault with
    | .get => { s with claim := c, fault := .none, failed := true }
    | .patch =>
      if patchTrue s.pool then { s with claim := c, fault := .none, failed := true }
      else { s with claim := c, pool := registered s.pool }
    | .none => { s with claim := c, pool := registered s.pool }

/-- `Liveness.Reconcile`: nothing for a Registered NodeClaim; the launch-timeout branch for a NodeClaim
    that is not Launched (and only that branch), else the registration-timeout branch; in a due branch
    the failure is recorded and the NodeClaim deleted — unless a NodePool call fails, then the branch
    returns before recording and before deleting. -/
def livenessStep (l : Look) (s : Pass) : Pass :=
  if s.claim.registered then s
  else if !(if s.claim.launched then l.regDue else l.launchDue) then s
  else
    match s.fault with
    | .get => { s with fault := .none, failed := true }
    | .patch =>
      if patchFalse s.pool then { s with fault := .none, failed := true }
      else { s with pool := timedOut s.pool, claim := { s.claim with deleted := true } }
    | .none => { s with pool := timedOut s.pool, claim := { s.claim with deleted := true } }

/-- one sub-reconciler; launch and initialization (and anything the model does not know) do not touch
    the NodePool's health -/
def subStep (l : Look) (s : Pass) (name : String) : Pass :=
  if name = "registration" then registrationStep l s
  else if name = "liveness" then livenessStep l s
  else s

/-- one pass of `Controller.Reconcile`: a terminating NodeClaim goes to `finalize`, otherwise every
    sub-reconciler runs, in the order of the source, whatever the earlier ones returned -/
def pass (l : Look) (s : Pass) : Pass :=
  if s.claim.deleted then s else Karp.Gen.Health.lifecycleOrder.foldl (subStep l) s

/-- the environment hands the NodeClaim to the controller with fault `f` armed; if a NodePool call
    failed the controller gets the NodeClaim again (same circumstances, the fault is spent) -/
def look (l : Look) (f : Fault) (pc : Pool × Claim) : Pool × Claim :=
  let s1 := pass l { pool := pc.1, claim := pc.2, fault := f, failed := false }
  let s2 := if s1.failed then pass l { s1 with fault := .none, failed := false } else s1
  (s2.pool, s2.claim)

def looks (ls : List Look) (pc : Pool × Claim) : Pool × Claim :=
  ls.foldl (fun pc l => look l .none pc) pc

/-- one launch attempt of the pool: the looks before the decisive one, the decisive one (with the
    event's fault armed), the looks after it -/
def attempt (p : Pool) (launched : Bool) (pre : List Look) (final : Look) (f : Fault) (post : List Look) : Pool :=
  (looks post (look final f (looks pre (p, Claim.fresh launched)))).1

/-- nothing to see yet -/
def Look.waiting : Look := { node := false, launchDue := false, regDue := false }
/-- the Node has joined, no timeout has passed -/
def Look.joined : Look := { node := true, launchDue := false, regDue := false }
/-- the Node has joined, but every timeout has passed as well -/
def Look.joinedLate : Look := { node := true, launchDue := true, regDue := true }
/-- no Node, the launch timeout has passed (for a NodeClaim that could not be launched) -/
def Look.launchTimeout : Look := { node := false, launchDue := true, regDue := false }
/-- no Node, every timeout has passed -/
def Look.allTimeouts : Look := { node := false, launchDue := true, regDue := true }

/-- the events of one pool's life -/
inductive Ev
  | success (f : Fault)      -- a NodeClaim of the pool registered
  | lateSuccess (f : Fault)  -- its Node joined, but the controller looked only after the registration timeout
  | slowSuccess (f : Fault)  -- the controller looked twice before the Node joined and twice after registering it
  | failure (f : Fault)      -- a launched NodeClaim of the pool hit the registration timeout (seen in time or late)
  | launchFailure (f : Fault) -- a NodeClaim of the pool that could not be launched hit the launch timeout
  | lateFailure (f : Fault)  -- ONE NodeClaim of the pool that could not be launched, looked at again only after the
                             -- registration timeout has passed as well (the controller was not running in between)
  | noise       -- anything that is not this pool's: another pool's outcome or edit, a NodeClaim that
                -- carries the pool's name but is owned by another NodePool object (`!found → return nil`),
                -- another writer of the NodePool's status (nodepool.readiness writing NodeClassReady, also from
                -- an out-of-date copy of the NodePool: every status writer patches under the optimistic lock, a
                -- stale write is answered 409 and redone on the current object)
  | poolEdit (f : Fault)     -- NodePool spec edited (generation + 1), then reconciled
  | classEdit (f : Fault)    -- NodeClass spec edited (generation + 1), then the pool reconciled
  | classReplace (g : Nat) (f : Fault)
                -- the NodeClass object is replaced by one whose `metadata.generation` is `g` (deleted and re-created
                -- under the same name: g = 1, i.e. usually LOWER than the generation observed before; or re-created
                -- and edited before the NodePool is reconciled again), then the pool reconciled
  | restart     -- process restart (a new `State`), then the pool reconciled
  | resync      -- the pool reconciled although nothing changed
deriving Repr, DecidableEq

def step (p : Pool) : Ev → Pool
  | .success f => attempt p true [] .joined f []
  | .lateSuccess f => attempt p true [] .joinedLate f []
  | .slowSuccess f => attempt p true [.waiting, .waiting] .joined f [.joined, .joined]
  | .failure f => attempt p true [.waiting] .allTimeouts f []
  | .launchFailure f => attempt p false [.waiting] .launchTimeout f []
  -- `Liveness.Reconcile` returns after the launch-timeout branch: one attempt, one record
  | .lateFailure f => attempt p false [.waiting] .allTimeouts f []
  | .noise => p
  | .poolEdit f => reconcileF { p with gen := p.gen + 1 } f
  | .classEdit f => reconcileF { p with classGen := p.classGen + 1 } f
  | .classReplace g f => reconcileF { p with classGen := g } f
  | .restart => reconcile { p with t := Tracker.new }
  | .resync => reconcile p

/-- condition as the harness encodes it: 0 Unknown, 1 True, 2 False, 3 absent -/
def condCode (p : Pool) : Nat :=
  if !p.present then 3 else match p.cond with
    | .unknown => 0
    | .true_ => 1
    | .false_ => 2

/-- one observation: condition, tracker status, what-if(success), what-if(failure) -/
def observe (p : Pool) : List Nat :=
  [condCode p, p.t.status.toNat, (p.t.dryRun true).status.toNat, (p.t.dryRun false).status.toNat]

def run (p : Pool) : List Ev → Pool
  | [] => p
  | e :: es => run (step p e) es

def observations (p : Pool) : List Ev → List (List Nat)
  | [] => []
  | e :: es => observe (step p e) :: observations (step p e) es

/-- a pool as the harness starts it: created, then reconciled once -/
def Pool.started : Pool := reconcile Pool.created

end Karp.PoolHealth
