/-
Model of the three places that maintain a NodePool's `NodeRegistrationHealthy` condition (C20):

* `pkg/controllers/nodepool/registrationhealth/controller.go`  `Controller.Reconcile`
  (re-hydration of an empty tracker from the persisted condition; reset on a NodePool / NodeClass
  generation change),
* `pkg/controllers/nodeclaim/lifecycle/registration.go`  `Registration.updateNodePoolRegistrationHealth`,
* `pkg/controllers/nodeclaim/lifecycle/liveness.go`      `Liveness.updateNodePoolRegistrationHealth`,

as they are, over the tracker model of `Karp.Model.Ring`.  Core Lean only.

Modelled, not verified: the status patches succeed; the NodePool copy handed to a controller is
up to date; a NodePool / NodeClass edit is followed by the registrationhealth reconcile before the
next launch outcome of the pool is recorded (one event = edit + reconcile), likewise a restart.
-/
import Karp.Model.Ring

namespace Karp.PoolHealth
open Karp.Ring

/-- what the model keeps of one NodePool object, of the NodeClass it references and of the pool's
    tracker in `nodepoolhealth.State` -/
structure Pool where
  /-- the `NodeRegistrationHealthy` condition exists in `status.conditions` -/
  present  : Bool
  /-- its status (`.unknown` while absent) -/
  cond     : Cond
  /-- its `observedGeneration` -/
  condGen  : Nat
  /-- `metadata.generation` of the NodePool -/
  gen      : Nat
  /-- `metadata.generation` of the NodeClass -/
  classGen : Nat
  /-- `status.nodeClassObservedGeneration` -/
  classObs : Nat
  t        : Tracker
deriving Repr, DecidableEq

/-- a NodePool that was just created: no condition, nothing observed, no tracker yet
    (`nodePoolNodeRegistration` creates an empty one on first use) -/
def Pool.created : Pool :=
  { present := false, cond := .unknown, condGen := 0, gen := 1, classGen := 1, classObs := 0, t := Tracker.new }

/-- "If Karpenter restarts i.e. if the buffer for the nodePool is empty and the condition is
    true/false then we pre-hydrate the buffer" -/
def hydrate (p : Pool) : Tracker :=
  if p.t.status = .unknown then
    if p.present ∧ p.cond = .true_ then p.t.setStatus .healthy
    else if p.present ∧ p.cond = .false_ then p.t.setStatus .unhealthy
    else p.t
  else p.t

/-- the guard of the reset: condition absent, NodeClass generation not yet observed, or the condition
    was written for an older NodePool generation -/
def needsReset (p : Pool) : Bool :=
  !p.present || p.classObs != p.classGen || p.gen != p.condGen

/-- `registrationhealth.Controller.Reconcile` (the NodeClass exists and is supported):
    hydrate, then — if the guard holds — `SetUnknown` *and* `SetStatus(StatusUnknown)` whatever
    `SetUnknown` returns, then record the NodeClass generation. -/
def reconcile (p : Pool) : Pool :=
  let t1 := hydrate p
  if needsReset p then
    { p with present := true, cond := .unknown, condGen := p.gen, classObs := p.classGen,
             t := t1.setStatus .unknown }
  else { p with classObs := p.classGen, t := t1 }

/-- `Registration.updateNodePoolRegistrationHealth` for a NodeClaim the pool owns: the what-if verdict
    decides whether `SetTrue` is called (which also stamps the current generation); the success is
    recorded in every case. -/
def registered (p : Pool) : Pool :=
  let set : Bool := (p.t.dryRun true).status = .healthy
  let r := recordSuccess p.cond p.t
  { p with present := p.present || set, cond := r.1, condGen := if set then p.gen else p.condGen, t := r.2 }

/-- `Liveness.updateNodePoolRegistrationHealth` for a NodeClaim the pool owns (registration timeout or
    launch timeout — the two call sites differ only in the reason/message of the condition). -/
def timedOut (p : Pool) : Pool :=
  let set : Bool := (p.t.dryRun false).status = .unhealthy ∧ p.cond ≠ Cond.false_
  let r := recordFailure p.cond p.t
  { p with present := p.present || set, cond := r.1, condGen := if set then p.gen else p.condGen, t := r.2 }

/-- the events of one pool's life -/
inductive Ev
  | success     -- a NodeClaim of the pool registered
  | failure     -- a NodeClaim of the pool hit the registration / launch timeout
  | lateFailure -- ONE NodeClaim of the pool that could not be launched, looked at again only after the
                -- registration timeout has passed as well (the controller was not running in between)
  | noise       -- anything that is not this pool's: another pool's outcome or edit, a NodeClaim that
                -- carries the pool's name but is owned by another NodePool object (`!found → return nil`)
  | poolEdit    -- NodePool spec edited (generation + 1), then reconciled
  | classEdit   -- NodeClass spec edited (generation + 1), then the pool reconciled
  | restart     -- process restart (a new `State`), then the pool reconciled
  | resync      -- the pool reconciled although nothing changed
deriving Repr, DecidableEq

def step (p : Pool) : Ev → Pool
  | .success => registered p
  | .failure => timedOut p
  -- `Liveness.Reconcile` returns after the launch-timeout branch: one attempt, one record
  | .lateFailure => timedOut p
  | .noise => p
  | .poolEdit => reconcile { p with gen := p.gen + 1 }
  | .classEdit => reconcile { p with classGen := p.classGen + 1 }
  | .restart => reconcile { p with t := Tracker.new }
  | .resync => reconcile p

/-- condition as the harness encodes it: 0 Unknown, 1 True, 2 False, 3 absent -/
def condCode (p : Pool) : Nat :=
  if !p.present then 3 else match p.cond with
    | .unknown => 0
    | .true_ => 1
    | .false_ => 2

/-- one observation: condition, tracker status, what-if(success), what-if(failure) -/
def observe (p : Pool) : List Nat :=
  [condCode p, p.t.status.toNat, (p.t.dryRun true).status.toNat, (p.t.dryRun false).status.toNat]

def run (p : Pool) : List Ev → Pool
  | [] => p
  | e :: es => run (step p e) es

def observations (p : Pool) : List Ev → List (List Nat)
  | [] => []
  | e :: es => observe (step p e) :: observations (step p e) es

/-- a pool as the harness starts it: created, then reconciled once -/
def Pool.started : Pool := reconcile Pool.created

end Karp.PoolHealth
