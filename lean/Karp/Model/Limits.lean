/-
Model of the NodePool-limits bookkeeping of one scheduling pass and across passes:

* `pkg/controllers/provisioning/scheduling/scheduler.go`: `remainingResources` (initialised with the pool's
  `spec.limits`), `updateRemainingResources` (one `resources.Subtract` per existing node),
  the guard in `addToNewNodeClaim` (node limit exhausted / `filterByRemainingResources` empty),
  `subtractMax` after a new NodeClaim was opened;
* `pkg/apis/v1/nodepool.go`: `Limits.ExceededBy`, the check in `Provisioner.Create`;
* `pkg/controllers/state/statenode.go`: `StateNode.Capacity()` = launched capacity with `nodes: 1`.

Core Lean only.  A `corev1.ResourceList` is an association list `κ ↦ Int` (milli-units, exact); reading a
missing key yields the zero quantity, as in Go.  `κ` is the type of resource names; the driver uses
`String`, the theorems hold for every `κ`, the concrete witnesses use `Nat`.
-/
import Karp.Gen.C03Limits

namespace Karp.Limits

variable {κ : Type} [DecidableEq κ]

abbrev Res (κ : Type) := List (κ × Int)

/-- `list[name]` (zero quantity when absent) -/
def Res.get (m : Res κ) (k : κ) : Int := (m.lookup k).getD 0

/-- one node, in milli-units (`resource.MustParse("1")`) -/
def oneNode : Int := 1000

structure IT (κ : Type) where
  name : Nat
  /-- `InstanceType.Capacity` -/
  cap : Res κ

inductive Variant | asIs | repaired
deriving Repr, DecidableEq

/-- `resources.Subtract(lhs, rhs)`: only the keys of `lhs` -/
def subtract (lhs rhs : Res κ) : Res κ := lhs.map (fun (k, q) => (k, q - rhs.get k))

/-- maximum of the values present (`none` when there is none) -/
def maxOpt : List Int → Option Int
  | [] => none
  | x :: xs => match maxOpt xs with
    | none => some x
    | some m => some (if x > m then x else m)

/-- `resources.MaxResources(capacities...)[k]` -/
def maxAt (its : List (IT κ)) (k : κ) : Int := (maxOpt (its.filterMap (fun it => it.cap.lookup k))).getD 0

/-- `filterByRemainingResources`: keep `it` unless for some limited resource its capacity exceeds what remains -/
def viable (remaining : Res κ) (it : IT κ) : Bool := remaining.all (fun (k, q) => !(it.cap.get k > q))
def filterByRemaining (its : List (IT κ)) (remaining : Res κ) : List (IT κ) := its.filter (viable remaining)

/-- what `subtractMax` takes off the remaining amount of resource `k` for a NodeClaim whose options are `opts`.
    as is:    the largest capacity among the options; an instance type has no `nodes` capacity, so the node limit is
              decremented only if the source says so (regenerated: `Karp.Gen.C03Limits.subtractMaxCountsNode`, false
              at the pinned commit);
    repaired: the largest capacity, and one node (`fixes/C03-subtractmax-nodes.patch`). -/
def decrement (v : Variant) (nodes : κ) (opts : List (IT κ)) (k : κ) : Int :=
  match v with
  | .asIs => if Karp.Gen.C03Limits.subtractMaxCountsNode && k = nodes then oneNode else maxAt opts k
  | .repaired => if k = nodes then oneNode else maxAt opts k

/-- `subtractMax` -/
def subtractMax (v : Variant) (nodes : κ) (remaining : Res κ) (opts : List (IT κ)) : Res κ :=
  if opts.isEmpty then remaining
  else remaining.map (fun (k, q) => (k, q - decrement v nodes opts k))

/-- the early check in `addToNewNodeClaim`: `nodesRemaining, ok := remaining["nodes"]; ok && nodesRemaining.IsZero()` -/
def nodesExhausted (nodes : κ) (remaining : Res κ) : Bool := remaining.lookup nodes == some 0

/-- the instance types a new NodeClaim of the pool may start from (`none`: the template is skipped) -/
def openOptions (nodes : κ) (its : List (IT κ)) (remaining : Res κ) : Option (List (IT κ)) :=
  if nodesExhausted nodes remaining then none
  else
    let f := filterByRemaining its remaining
    if f.isEmpty then none else some f

/-- `StateNode.Capacity()`: the launched capacity with `nodes: 1` (`lo.Assign` overrides) -/
def nodeCapacity (nodes : κ) (launched : Res κ) : Res κ := (nodes, oneNode) :: launched.filter (fun (k, _) => k != nodes)

/-- `remainingResources[pool]` at the start of a pass: the limits minus every existing node of the pool
    (`updateRemainingResources` per node, `resources.Subtract`) -/
def remainingAtStart (limits : Res κ) (existing : List (Res κ)) : Res κ := existing.foldl subtract limits

/-- `Limits.ExceededBy(usage)`: some used resource is limited and above its limit -/
def exceededBy (limits usage : Res κ) : Bool :=
  usage.any (fun (k, u) => match limits.lookup k with | some l => u > l | none => false)

/-! ### A scheduling pass, as the sequence of the NodeClaims it opens for one pool -/

/-- one `OpenNew` commit is admissible in the model: the options are a non-empty sub-list of what the guard lets through
    (`CanAdd` only narrows) -/
def openOk (nodes : κ) (remaining : Res κ) (opts : List (IT κ)) : Bool :=
  !nodesExhausted nodes remaining && !opts.isEmpty && opts.all (viable remaining)

/-- the remaining resources after the pass opened `claims` (options of each, in order) -/
def passRemaining (v : Variant) (nodes : κ) (remaining : Res κ) : List (List (IT κ)) → Res κ
  | [] => remaining
  | opts :: rest => passRemaining v nodes (subtractMax v nodes remaining opts) rest

def passOk (v : Variant) (nodes : κ) (remaining : Res κ) : List (List (IT κ)) → Bool
  | [] => true
  | opts :: rest => openOk nodes remaining opts && passOk v nodes (subtractMax v nodes remaining opts) rest

/-! ### What a launched node uses of the pool's limits -/

/-- worst case over the options of a NodeClaim: the largest capacity, and exactly one node -/
def worst (nodes : κ) (opts : List (IT κ)) (k : κ) : Int := if k = nodes then oneNode else maxAt opts k

/-- usage of a node launched as instance type `it` -/
def usageOf (nodes : κ) (it : IT κ) (k : κ) : Int := if k = nodes then oneNode else it.cap.get k

/-! ### Many rounds: the pool as a transition system

`existing` holds, for every node of the pool that is not being deleted, the capacity the provider launched;
`unlaunched` holds the NodeClaims that were created and are not launched yet (their permitted instance types).
`Cluster.Synced()` is false while `unlaunched` is non-empty, and `Provisioner.Reconcile` only schedules when it is
true: a pass is enabled only then.  Every other event may happen at any time, in any order. -/

structure Pool (κ : Type) where
  limits : Res κ
  existing : List (Res κ)
  unlaunched : List (List (IT κ))

inductive Ev (κ : Type)
  /-- a scheduling pass opened these NodeClaims (instance-type options of each, in the order they were opened) -/
  | pass (claims : List (List (IT κ)))
  /-- the provider launches unlaunched NodeClaim `i` as its option `j` and reports capacity `launched` -/
  | launch (i j : Nat) (launched : Res κ)
  /-- an unlaunched NodeClaim disappears (launch failed, liveness, deleted) -/
  | lose (i : Nat)
  /-- a node is deleted or marked for deletion: it no longer counts -/
  | remove (i : Nat)

def nonNegIT (it : IT κ) : Bool := it.cap.all (fun (_, q) => decide (0 ≤ q))

def startRemaining (nodes : κ) (P : Pool κ) : Res κ :=
  remainingAtStart P.limits (P.existing.map (nodeCapacity nodes))

/-- what the provider may report for a node launched as `it` (cloud-provider contract: non-negative, at most the
    instance type's capacity; an offering `CapacityOverride` above the base capacity is outside the model) -/
def launchOk (it : IT κ) (launched : Res κ) : Bool :=
  launched.all (fun (k, q) => decide (0 ≤ q) && decide (q ≤ it.cap.get k))

def enabled (v : Variant) (nodes : κ) (P : Pool κ) : Ev κ → Bool
  | .pass claims =>
    P.unlaunched.isEmpty && passOk v nodes (startRemaining nodes P) claims && claims.all (fun o => o.all nonNegIT)
  | .launch i j launched =>
    match P.unlaunched[i]? with
    | some opts => match opts[j]? with
      | some it => launchOk it launched
      | none => false
    | none => false
  | .lose _ => true
  | .remove _ => true

def applyEv (P : Pool κ) : Ev κ → Pool κ
  | .pass claims => { P with unlaunched := P.unlaunched ++ claims }
  | .launch i _ launched => { P with existing := P.existing ++ [launched], unlaunched := P.unlaunched.eraseIdx i }
  | .lose i => { P with unlaunched := P.unlaunched.eraseIdx i }
  | .remove i => { P with existing := P.existing.eraseIdx i }

def runEvs (P : Pool κ) : List (Ev κ) → Pool κ
  | [] => P
  | e :: es => runEvs (applyEv P e) es

def enabledAll (v : Variant) (nodes : κ) (P : Pool κ) : List (Ev κ) → Bool
  | [] => true
  | e :: es => enabled v nodes P e && enabledAll v nodes (applyEv P e) es

end Karp.Limits
