/-
Model of the disruption-budget code of karpenter, as it is:

* `pkg/apis/v1/nodepool.go`: `Budget.IsActive`, `Budget.GetAllowedDisruptions`, `GetIntStrFromValue`,
  `NodePool.GetAllowedDisruptionsByReason`, `NodePool.MustGetAllowedDisruptions`
  (with `strconv.Atoi`, `intstr.FromInt` (int32 conversion) and `intstr.GetScaledValueFromIntOrPercent`);
* `pkg/controllers/disruption/helpers.go`: `BuildDisruptionBudgetMapping`;
* the budget accounting of the five disruption methods' `ComputeCommands`
  (`emptiness.go`, `multinodeconsolidation.go`, `singlenodeconsolidation.go`, `drift.go`, `staticdrift.go`);
* `pkg/controllers/disruption/validation.go`: both validators' `validateCandidates`;
* `controller.go` / `queue.go`: one method acts per round; the accepted candidates are marked for deletion.

Core Lean only.  Constants come from the regenerated `Karp.Gen.BudgetFacts`.
External behaviour is a parameter: the cron library (`Cron`), the scheduling simulation (`ok`), the
re-listing of candidates at validation time (`still`, `nominated`), the node-count reservation (`remaining`).
-/
import Karp.Gen.BudgetFacts

namespace Karp.Budget

/-! Instants are `Int`: nanoseconds since the Unix epoch (UTC); durations are `Int` nanoseconds. -/

/-- what `cron.ParseStandard("TZ=UTC " ++ s)` yields: `none` = parse error; `some next` where `next t` is
    `Schedule.Next t` and `none` stands for the zero `time.Time` ("no activation within five years") -/
abbrev Cron := String → Option (Int → Option Int)

/-- `v1.Budget`.  `reasons = none` is the Go nil slice, `some []` a non-nil empty slice.
    `nodes` is the string as a character list, `duration` in nanoseconds. -/
structure Budget where
  reasons  : Option (List String)
  nodes    : List Char
  schedule : Option String
  duration : Option Int
deriving Repr, DecidableEq

/-- `math.MaxInt32`, the value the code uses for "unbounded" (regenerated) -/
def unbounded : Int := Karp.Gen.BudgetFacts.inactiveAllowed

/-! ### `Budget.IsActive` -/

/-- `none` = the error return (`false, err`) -/
def isActive (cron : Cron) (b : Budget) (now : Int) : Option Bool :=
  if b.schedule.isNone && b.duration.isNone then some true
  else
    match cron (b.schedule.getD "") with
    | none => none
    | some next =>
      -- checkPoint := now - duration ; nextHit := schedule.Next(checkPoint) ; return !nextHit.After(now)
      match next (now - b.duration.getD 0) with
      | none => some true
      | some h => some (!(now < h))

/-! ### `strconv.Atoi`, `intstr` -/

def isDigit (c : Char) : Bool := '0' ≤ c && c ≤ '9'

def digitVal (c : Char) : Nat := c.toNat - '0'.toNat

/-- value of a digit string, most significant first -/
def digitsVal (cs : List Char) : Nat := cs.foldl (fun acc c => acc * 10 + digitVal c) 0

def maxInt64 : Int := 9223372036854775807
def minInt64 : Int := -9223372036854775808

/-- the optional sign of `strconv.Atoi`: `(negative, rest)` -/
def splitSign : List Char → Bool × List Char
  | '-' :: r => (true, r)
  | '+' :: r => (false, r)
  | r => (false, r)

/-- `strconv.Atoi` on a 64-bit platform: optional sign, at least one decimal digit, nothing else
    (base 10 is explicit, so no underscores); out of the int64 range is an error. -/
def atoi (cs : List Char) : Option Int :=
  let sd := splitSign cs
  if sd.2.isEmpty || !sd.2.all isDigit then none
  else
    let v : Int := if sd.1 then -(digitsVal sd.2 : Int) else (digitsVal sd.2 : Int)
    if v < minInt64 || maxInt64 < v then none else some v

/-- Go's `int32(v)` conversion of an `int` (two's complement truncation), as done by `intstr.FromInt` -/
def wrap32 (v : Int) : Int := (v + 2147483648) % 4294967296 - 2147483648

/-- `⌈a / 100⌉` on integers (what `math.Ceil(float64(p) * float64(total) / 100)` computes while the product is
    exactly representable) -/
def ceilDiv100 (a : Int) : Int := (a + 99) / 100

def floorDiv100 (a : Int) : Int := a / 100

/-- the scaling of a percentage: `GetScaledValueFromIntOrPercent(_, total, roundUp)` with the `roundUp`
    argument the call site passes (regenerated fact) -/
def scalePercent (p total : Int) : Int :=
  if Karp.Gen.BudgetFacts.scaledRoundUp then ceilDiv100 (p * total) else floorDiv100 (p * total)

/-- `GetScaledValueFromIntOrPercent(GetIntStrFromValue(nodes), total, true)`; `none` = error -/
def scaledValue (nodes : List Char) (total : Int) : Option Int :=
  match atoi nodes with
  | some v => some (wrap32 v)                       -- intstr.FromInt: Type Int, IntVal int32(v)
  | none =>                                         -- intstr.FromString
    match nodes.getLast? with
    | some '%' =>
      match atoi nodes.dropLast with
      | some p => some (scalePercent p total)
      | none => none
    | _ => none                                     -- "invalid type: string is not a percentage"

/-! ### `Budget.GetAllowedDisruptions` -/

/-- `(value, err)` as `(Int × Bool)`: `err = true` is a non-nil error (the value is then 0) -/
def budgetAllowed (cron : Cron) (b : Budget) (now : Int) (total : Int) : Int × Bool :=
  match isActive cron b now with
  | none => (0, true)
  | some false => (unbounded, false)
  | some true =>
    match scaledValue b.nodes total with
    | none => (0, true)
    | some v => (v, false)

/-! ### `NodePool.GetAllowedDisruptionsByReason` / `MustGetAllowedDisruptions` -/

/-- `budget.Reasons == nil || lo.Contains(budget.Reasons, reason)` — or, once the repair of finding
    `C05-empty-reasons` is applied, `len(budget.Reasons) == 0 || …`: which of the two guards the source has is a
    regenerated fact (`emptyReasonsApply`), so the model follows the code on either side of the repair. -/
def appliesTo (b : Budget) (reason : String) : Bool :=
  match b.reasons with
  | none => true
  | some rs => (Karp.Gen.BudgetFacts.emptyReasonsApply && rs.isEmpty) || rs.contains reason

def byReasonStep (cron : Cron) (now : Int) (total : Int) (reason : String) (acc : Int × Bool) (b : Budget) : Int × Bool :=
  let r := budgetAllowed cron b now total
  (if appliesTo b reason then min acc.1 r.1 else acc.1, acc.2 || r.2)

/-- `(allowedNodes, multiErr != nil)` -/
def allowedByReason (cron : Cron) (bs : List Budget) (now : Int) (total : Int) (reason : String) : Int × Bool :=
  bs.foldl (byReasonStep cron now total reason) (Karp.Gen.BudgetFacts.initialAllowed, false)

def mustAllowed (cron : Cron) (bs : List Budget) (now : Int) (total : Int) (reason : String) : Int :=
  let r := allowedByReason cron bs now total reason
  if r.2 then Karp.Gen.BudgetFacts.mustErrorValue else r.1

/-! ### `BuildDisruptionBudgetMapping` -/

/-- what the mapping reads of a `StateNode` -/
structure Node where
  name        : String
  pool        : String
  /-- `Managed()`: has a NodeClaim -/
  managed     : Bool
  /-- `Initialized()` -/
  initialized : Bool
  /-- the NodeClaim has `InstanceTerminating = True` -/
  terminating : Bool
  /-- the Node's `Ready` condition is `True` -/
  ready       : Bool
  /-- `MarkedForDeletion()`: marked by an in-flight command, or the NodeClaim is deleting -/
  marked      : Bool
deriving Repr, DecidableEq

structure Pool where
  name    : String
  budgets : List Budget
deriving Repr, DecidableEq

/-- the nodes that count towards `numNodes[pool]` -/
def counted (pool : String) (n : Node) : Bool :=
  n.managed && n.initialized && !n.terminating && n.pool == pool

/-- the nodes that count towards `disrupting[pool]` -/
def disruptingNode (pool : String) (n : Node) : Bool :=
  counted pool n && (!n.ready || n.marked)

def numNodes (nodes : List Node) (pool : String) : Nat := (nodes.filter (counted pool)).length
def disrupting (nodes : List Node) (pool : String) : Nat := (nodes.filter (disruptingNode pool)).length

/-- `lo.Max([]int{allowed - disrupting, 0})` -/
def poolRemaining (cron : Cron) (p : Pool) (nodes : List Node) (now : Int) (reason : String) : Nat :=
  (mustAllowed cron p.budgets now (numNodes nodes p.name) reason - disrupting nodes p.name).toNat

/-- the mapping as an association list: one entry per managed NodePool (NodePool names are unique in the API) -/
def buildMapping (cron : Cron) (pools : List Pool) (nodes : List Node) (now : Int) (reason : String) : List (String × Nat) :=
  pools.map (fun p => (p.name, poolRemaining cron p nodes now reason))

/-- a Go `map[string]int` read with the zero default -/
abbrev Mapping := String → Nat

def Mapping.ofList (l : List (String × Nat)) : Mapping := fun k => ((l.lookup k).getD 0)

def Mapping.dec (m : Mapping) (p : String) : Mapping := fun q => if q = p then m q - 1 else m q

/-! ### The methods' budget accounting -/

/-- what the selection loops read of a `Candidate` -/
structure Cand where
  name  : String
  pool  : String
  /-- `IsEmpty()` (emptiness) / `len(reschedulablePods) == 0` (drift ordering) -/
  empty : Bool
deriving Repr, DecidableEq

def countPool (p : String) (l : List Cand) : Nat := (l.filter (fun c => c.pool == p)).length

/-- the loop shared by `Emptiness.ComputeCommands` (`keep = IsEmpty`), `MultiNodeConsolidation.ComputeCommands`
    (`keep = true`) and `EmptinessValidator.validateCandidates` (`keep = not nominated`):
    skip if `!keep`; skip if `mapping[pool] == 0`; else take and decrement. -/
def budgetFilter (keep : Cand → Bool) : Mapping → List Cand → List Cand × Mapping
  | m, [] => ([], m)
  | m, c :: cs =>
    if !keep c then budgetFilter keep m cs
    else if m c.pool = 0 then budgetFilter keep m cs
    else
      let r := budgetFilter keep (m.dec c.pool) cs
      (c :: r.1, r.2)

/-- `Emptiness.ComputeCommands` before validation -/
def selectEmptiness (m : Mapping) (cands : List Cand) : List Cand := (budgetFilter (·.empty) m cands).1

/-- `MultiNodeConsolidation.ComputeCommands`: the budget pre-filter; `firstNConsolidationOption` then returns
    `candidates[0 : k]` for some `k` (binary search over prefixes; `k = 0`: no command). -/
def multiFiltered (m : Mapping) (cands : List Cand) : List Cand := (budgetFilter (fun _ => true) m cands).1
def selectMulti (m : Mapping) (cands : List Cand) (k : Nat) : List Cand := (multiFiltered m cands).take k

/-- `SingleNodeConsolidation.ComputeCommands` / `Drift.ComputeCommands`: the first candidate whose pool still has
    budget and whose simulation succeeds (`ok`); no decrement. -/
def selectFirst (ok : Cand → Bool) (m : Mapping) : List Cand → Option Cand
  | [] => none
  | c :: cs => if m c.pool = 0 then selectFirst ok m cs else if ok c then some c else selectFirst ok m cs

/-- Drift orders empty candidates before non-empty ones (`lo.FilterReject` + `slices.Concat`) -/
def driftOrder (cands : List Cand) : List Cand := cands.filter (·.empty) ++ cands.filter (fun c => !c.empty)

def selectDrift (ok : Cand → Bool) (m : Mapping) (cands : List Cand) : Option Cand := selectFirst ok m (driftOrder cands)

/-- `NodePoolState.ReserveNodeCount(pool, limit, wanted)` given `remaining = limit - counted - reserved` -/
def reserveGrant (remaining : Int) (wanted : Nat) : Nat :=
  if remaining < 0 then 0 else if (wanted : Int) > remaining then remaining.toNat else wanted

/-- `StaticDrift.ComputeCommands` for one pool: how many of its candidates are disrupted.
    `overReplicas`: running + pending-disruption nodes exceed `spec.replicas` (scale-down not finished). -/
def staticCount (mp : Nat) (ncands : Nat) (overReplicas : Bool) (remaining : Int) : Nat :=
  if mp = 0 then 0
  else if overReplicas then 0
  else reserveGrant remaining (min mp ncands)

/-! ### Validation (after `commandValidationDelay`) -/

/-- `ConsolidationValidator.validateCandidates`, the loop: every candidate must be un-nominated and within the
    freshly built mapping, which is decremented as it goes. -/
def allWithin (nominated : Cand → Bool) : Mapping → List Cand → Bool
  | _, [] => true
  | m, c :: cs => !nominated c && m c.pool != 0 && allWithin nominated (m.dec c.pool) cs

/-- `ConsolidationValidator.validateCandidates`: `cur` = the command's candidates that are still candidates now
    (`mapCandidates`); all must have survived, and all must fit the fresh mapping `m'`. -/
def validateConsolidation (m' : Mapping) (nominated : Cand → Bool) (cmd cur : List Cand) : Bool :=
  cur.length == cmd.length && allWithin nominated m' cur

/-- `EmptinessValidator.validateCandidates`: the survivors that fit the fresh mapping; `none` = validation error. -/
def validateEmptiness (m' : Mapping) (nominated : Cand → Bool) (cur : List Cand) : Option (List Cand) :=
  if cur.isEmpty then none
  else
    let valid := (budgetFilter (fun c => !nominated c) m' cur).1
    if valid.isEmpty then none else some valid

/-- `StaticDrift.ComputeCommands` over all pools that have candidates (`groups`: the keys of `lo.GroupBy`):
    the first `staticCount` candidates of each group, one command each -/
def selectStatic (m : Mapping) (over : String → Bool) (remaining : String → Int) (groups : List String) (cands : List Cand) : List Cand :=
  groups.flatMap (fun p => (cands.filter (fun c => c.pool == p)).take (staticCount (m p) (countPool p cands) (over p) (remaining p)))

/-! ### Rounds -/

inductive Method | emptiness | staticDrift | drift | multi | single
deriving Repr, DecidableEq

def Method.reason : Method → String
  | .emptiness => Karp.Gen.BudgetFacts.reasonOfEmptiness
  | .staticDrift => Karp.Gen.BudgetFacts.reasonOfStaticDrift
  | .drift => Karp.Gen.BudgetFacts.reasonOfDrift
  | .multi => Karp.Gen.BudgetFacts.reasonOfMultiNodeConsolidation
  | .single => Karp.Gen.BudgetFacts.reasonOfSingleNodeConsolidation

/-- `Queue.StartCommand` → `cluster.MarkForDeletion(candidates)` -/
def markNodes (names : List String) (nodes : List Node) : List Node :=
  nodes.map (fun n => if names.contains n.name then { n with marked := true } else n)

/-- the cluster at one instant -/
structure World where
  pools : List Pool
  nodes : List Node
  now   : Int
deriving Repr

/-- `BuildDisruptionBudgetMapping` on a world -/
def World.mapping (cron : Cron) (w : World) (reason : String) : Mapping :=
  Mapping.ofList (buildMapping cron w.pools w.nodes w.now reason)

/-- everything that is decided outside the budget accounting during one round: which method acts, its candidate
    list in the method's order (filters, sorting), the outcome of the scheduling simulations (`ok`), the prefix
    length found by multi-node's binary search (`k`), the static-pool reservation inputs, and what the world looks
    like when the validator runs after `commandValidationDelay` (`later`, the surviving candidates `cur` in the
    order of the re-listing, and which of them got nominated meanwhile). -/
structure RoundEnv where
  method    : Method
  cands     : List Cand
  ok        : Cand → Bool
  k         : Nat
  over      : String → Bool
  remaining : String → Int
  groups    : List String
  later     : World
  cur       : List Cand
  nominated : Cand → Bool

/-- one `Controller.disrupt(method)`: the accepted candidates (what reaches `Queue.StartCommand`) and the world on
    which their budget was last computed -/
def runRound (cron : Cron) (w : World) (e : RoundEnv) : List Cand × World :=
  match e.method with
  | .emptiness =>
    if (selectEmptiness (w.mapping cron e.method.reason) e.cands).isEmpty then ([], w)
    else
      match validateEmptiness (e.later.mapping cron e.method.reason) e.nominated e.cur with
      | none => ([], e.later)
      | some v => (v, e.later)
  | .multi =>
    if (selectMulti (w.mapping cron e.method.reason) e.cands e.k).isEmpty then ([], w)
    else if validateConsolidation (e.later.mapping cron e.method.reason) e.nominated
        (selectMulti (w.mapping cron e.method.reason) e.cands e.k) e.cur then (e.cur, e.later)
    else ([], e.later)
  | .single =>
    match selectFirst e.ok (w.mapping cron e.method.reason) e.cands with
    | none => ([], w)
    | some c =>
      if validateConsolidation (e.later.mapping cron e.method.reason) e.nominated [c] e.cur then (e.cur, e.later)
      else ([], e.later)
  | .drift => ((selectDrift e.ok (w.mapping cron e.method.reason) e.cands).toList, w)
  | .staticDrift => (selectStatic (w.mapping cron e.method.reason) e.over e.remaining e.groups e.cands, w)

/-- a history: the environment changes the world arbitrarily (nodes come and go, readiness flips, the clock moves,
    budgets are edited, commands complete or are rolled back), or the disruption controller runs one round -/
inductive Step
  | env (w' : World)
  | round (e : RoundEnv)

/-- an acceptance: the method, what it handed to the queue, and the world its budget was computed on -/
structure Acceptance where
  method   : Method
  accepted : List Cand
  world    : World

def step (cron : Cron) (w : World) : Step → World × Option Acceptance
  | .env w' => (w', none)
  | .round e =>
    let r := runRound cron w e
    ({ r.2 with nodes := markNodes (r.1.map (·.name)) r.2.nodes }, some ⟨e.method, r.1, r.2⟩)

def acceptances (cron : Cron) : World → List Step → List Acceptance
  | _, [] => []
  | w, s :: ss =>
    let r := step cron w s
    match r.2 with
    | none => acceptances cron r.1 ss
    | some a => a :: acceptances cron r.1 ss

def finalWorld (cron : Cron) : World → List Step → World
  | w, [] => w
  | w, s :: ss => finalWorld cron (step cron w s).1 ss

/-! ### The orchestration queue, the in-memory deletion mark and the informer

"Being deleted" lives in several places for one node:

* `mark` — `StateNode.markedForDeletion`: set by `Queue.StartCommand` → `cluster.MarkForDeletion`, cleared by
  `Queue.CompleteCommand` → `cluster.UnmarkForDeletion` under the guard regenerated as
  `BudgetFacts.completeUnmarkGuard`, carried over by every `UpdateNodeClaim` / `UpdateNode` of the cluster state;
* `api` — the NodeClaim in the API server has a deletionTimestamp (`Queue.waitOrTerminate` deleted it);
* `seen` — the cluster state's copy of the NodeClaim has it (the informer has delivered the update);
* `inFlight` — a command holding the node is in the orchestration queue (`ProviderIDToCommand`).

`StateNode.MarkedForDeletion()` — what `BuildDisruptionBudgetMapping` counts — is `mark || seen`
(`markedForDeletion || Deleted()`); an outside observer sees `inFlight || api`.  The informer may lag behind the API
server for arbitrarily long: `sync` is a step of its own. -/

structure Track where
  name     : String
  mark     : Bool
  seen     : Bool
  api      : Bool
  inFlight : Bool
deriving Repr, DecidableEq

def Track.fresh (name : String) : Track := { name := name, mark := false, seen := false, api := false, inFlight := false }

/-- `StateNode.MarkedForDeletion()` (up to `InstanceTerminating`, which removes the node from the counted set) -/
def Track.stateMarked (t : Track) : Bool := t.mark || t.seen

/-- what an observer of the queue and the API server calls "being deleted" -/
def Track.beingDeleted (t : Track) : Bool := t.inFlight || t.api

inductive QStep
  /-- `Queue.StartCommand(cmd)`: `MarkForDeletion(candidates)`, `ProviderIDToCommand[c] = cmd` -/
  | start (names : List String)
  /-- `Queue.Reconcile`: `waitOrTerminate` deleted the candidates' NodeClaims (`succeeded`) or failed for good
      (timeout, replacement gone: nothing was deleted), then `CompleteCommand` -/
  | finish (names : List String) (succeeded : Bool)
  /-- the NodeClaim informer delivers the API state of these nodes to the cluster state (`UpdateNodeClaim`) -/
  | sync (names : List String)
  /-- a node the model has not seen yet registers (a replacement) -/
  | appear (name : String)
deriving Repr

def onNames (names : List String) (f : Track → Track) (ts : List Track) : List Track :=
  ts.map (fun t => if names.contains t.name then f t else t)

/-- does `CompleteCommand` clear the mark of a command with this outcome?  `unmarkSucceeded` = the guard lets
    succeeded commands through as well -/
def completeUnmarks (unmarkSucceeded : Bool) (succeeded : Bool) : Bool := !succeeded || unmarkSucceeded

def qstep (unmarkSucceeded : Bool) (ts : List Track) : QStep → List Track
  | .start names => onNames names (fun t => { t with mark := true, inFlight := true }) ts
  | .finish names ok =>
    onNames names (fun t => { t with api := t.api || ok, mark := t.mark && !completeUnmarks unmarkSucceeded ok, inFlight := false }) ts
  | .sync names => onNames names (fun t => { t with seen := t.api }) ts
  | .appear name => if ts.any (fun t => t.name == name) then ts else ts ++ [Track.fresh name]

/-- the queue as it is in the source: the guard of `UnmarkForDeletion` is a regenerated fact -/
def qstepCode : List Track → QStep → List Track := qstep Karp.Gen.BudgetFacts.completeUnmarksSucceeded

def qrun (unmarkSucceeded : Bool) (ts : List Track) (steps : List QStep) : List Track := steps.foldl (qstep unmarkSucceeded) ts

/-- what the callers guarantee: a command is started on nodes that are neither marked for deletion
    (`ValidateNodeDisruptable` rejects them as candidates) nor held by another command (`HasAny`); only commands that
    are in the queue finish -/
def QStep.pre (ts : List Track) : QStep → Bool
  | .start names => ts.all (fun t => !names.contains t.name || (!t.stateMarked && !t.inFlight))
  | .finish names _ => ts.all (fun t => !names.contains t.name || t.inFlight)
  | .sync _ => true
  | .appear _ => true

def qrunOK (unmarkSucceeded : Bool) : List Track → List QStep → Bool
  | _, [] => true
  | ts, s :: ss => s.pre ts && qrunOK unmarkSucceeded (qstep unmarkSucceeded ts s) ss

/-- the invariant of the life cycle: an in-flight node carries the mark; a node whose NodeClaim the queue deleted
    carries the mark or the cluster state has seen the deletionTimestamp; an in-flight node is not deleted yet -/
def Track.inv (t : Track) : Bool :=
  (!t.inFlight || t.mark) && (!t.api || t.mark || t.seen) && (!t.inFlight || !t.api)

/-- a node as the cluster state (`view = stateMarked`) or an observer (`view = beingDeleted`) sees it -/
def Node.withTrack (view : Track → Bool) (ts : List Track) (n : Node) : Node :=
  { n with marked := n.marked || ts.any (fun t => t.name == n.name && view t) }

end Karp.Budget
