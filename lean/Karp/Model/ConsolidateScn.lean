/-
The scenario vocabulary (`Karp.Spec.Scenario`, what the harness generates) read as input of the consolidation
model: instance types with the requirement values `world.BuildIT` gives them, and candidates with the offerings
of their instance type.  Used by the driver and by the theorems that tie the model's decision to the executable
specification.  Core Lean only.
-/
import Karp.Model.Consolidate
import Karp.Spec.Scenario

namespace Karp.Consolidate
open Karp.Scn

def offeringOf (o : Scn.Offering) : Offering :=
  { zone := o.zone, ct := o.ct, price := o.price, available := o.available, resID := o.resID }

/-- the instance type's own requirements as `world.BuildIT` builds them -/
def itypeOf (it : Scn.IT) : IType :=
  let av := it.offerings.filter (·.available)
  { name := it.name, offerings := it.offerings.map offeringOf,
    vals := [("node.kubernetes.io/instance-type", [it.name]), ("kubernetes.io/arch", [if it.arch == "" then "amd64" else it.arch]),
             ("kubernetes.io/os", if it.os.isEmpty then ["linux"] else it.os),
             ("topology.kubernetes.io/zone", av.map (·.zone)), (ctKey, av.map (·.ct))] }

def candOf (s : Scenario) (n : Scn.Node) : Cand :=
  { name := n.name, itName := n.it, zone := n.zone, ct := n.ct,
    offerings := match s.it? n.it with | some it => it.offerings.map offeringOf | none => [] }

end Karp.Consolidate
