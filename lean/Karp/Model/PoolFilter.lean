/-
Model of the NodePool filter at the top of `Provisioner.NewScheduler` (pkg/controllers/provisioning/provisioner.go):

    nodePools = lo.Filter(nodePools, func(np) bool {
        if nodepoolutils.IsStatic(np)                                  { return false }
        if !np.StatusConditions().IsTrue(status.ConditionReady)        { return false }
        return np.DeletionTimestamp.IsZero()
    })
    …
    nodepoolutils.OrderByWeight(nodePools)

and of the part of operatorpkg's `ConditionSet` it goes through: `Get` (first stored condition of the type, nil when
there is none) and the nil-safe `(*Condition).IsTrue`.  `StatusConditions()` = `For(np)` first initialises the known
condition types that are missing to Unknown — never to True — so on the lists the ConditionSet API itself writes
(the only ones the correspondence generates) the stored root condition is what is read.

Only the pools that pass this filter are ordered by weight and become templates, i.e. candidates at all.

Core Lean only.
-/
import Karp.Model.WeightOrder

namespace Karp.PoolFilter
open Karp.WeightOrder

/-- one stored status condition: its type and its status ("True" | "False" | "Unknown") -/
structure Cond where
  type   : String
  status : String
deriving Repr, DecidableEq

def readyType : String := "Ready"

/-- `ConditionSet.Get`: the first stored condition of that type -/
def get (cs : List Cond) (t : String) : Option Cond := cs.find? (fun c => c.type == t)

/-- `(*Condition).IsTrue`, nil-safe: a missing condition is not true -/
def condIsTrue : Option Cond → Bool
  | none => false
  | some c => c.status == "True"

/-- `(*Condition).IsFalse`, nil-safe: a missing condition is not false either -/
def condIsFalse : Option Cond → Bool
  | none => false
  | some c => c.status == "False"

/-- `ConditionSet.IsTrue(types…)`: every named condition is stored with status True -/
def isTrue (cs : List Cond) (ts : List String) : Bool := ts.all (fun t => condIsTrue (get cs t))

/-- what the filter looks at -/
structure Meta where
  conds    : List Cond
  static   : Bool          -- `spec.replicas` is set
  deleting : Bool          -- the deletionTimestamp is set
deriving Repr

/-- the filter closure of `Provisioner.NewScheduler` -/
def eligible (m : Meta) : Bool :=
  if m.static then false
  else if !isTrue m.conds [readyType] then false
  else !m.deleting

/-- the pools that become templates, in template order: filter, then `OrderByWeight` -/
def templatePools (info : Pool → Meta) (pools : List Pool) : List Pool :=
  orderByWeight (pools.filter (fun p => eligible (info p)))

end Karp.PoolFilter
