/-
Model for C04 — how cluster state keeps "what is already assigned" to a node: `pkg/controllers/state/cluster.go`
`UpdatePod`, `DeletePod`, `UpdateNode` (→ `newStateFromNode` → `populateResourceRequests`), `DeleteNode`
(→ `cleanupNode`), `updateNodeUsageFromPod`, `updateNodeUsageFromPodCompletion`, `cleanupOldBindings`, and
`StateNode.updateForPod / cleanupForPod` (one bit per pod and node: requests, host ports, volumes and daemonset
requests are charged and released together).

Maps are total functions (`c.nodes` via `nodeNameToProviderID`, `c.bindings`, the per-node request maps), keys are
arbitrary types with decidable equality (the driver uses `String`, the examples `Nat`).  The API contents are part of the
state because `populateResourceRequests` LISTS the pods bound to the node from the API; `dirty` is a ghost field: the
pod changed in the API and the change has not been delivered (successfully) yet.
Core Lean only.
-/
import Karp.Spec.Assigned

namespace Karp.PodAcct
open Karp.Spec.Assigned (PodRec)

structure St (κ ν : Type) where
  apiPod : κ → Option (PodRec ν)
  apiNode : ν → Bool
  tracked : ν → Bool                 -- `c.nodes[c.nodeNameToProviderID[name]]` exists
  acct : ν → κ → Bool                -- the node's `podRequests` / `hostPortUsage` / `volumeUsage` hold an entry of the pod
  binding : κ → Option ν             -- `c.bindings`
  dirty : κ → Bool                   -- ghost: an API change of the pod is not delivered yet

variable {κ ν : Type} [DecidableEq κ] [DecidableEq ν]

def St.init : St κ ν :=
  { apiPod := fun _ => none, apiNode := fun _ => false, tracked := fun _ => false, acct := fun _ _ => false,
    binding := fun _ => none, dirty := fun _ => false }

/-- `updateNodeUsageFromPodCompletion`: forget the binding; release the pod on the node of the binding if it is tracked -/
def completion (s : St κ ν) (k : κ) : St κ ν :=
  match s.binding k with
  | none => s
  | some n =>
    { s with binding := fun k' => if k' = k then none else s.binding k',
             acct := fun n' k' => if n' = n ∧ k' = k ∧ s.tracked n = true then false else s.acct n' k' }

/-- `cleanupOldBindings` for a pod now bound to `node` -/
def cleanupOld (s : St κ ν) (k : κ) (node : ν) : St κ ν :=
  match s.binding k with
  | none => s
  | some old =>
    if old = node then s
    else if s.tracked old = true then
      { s with acct := fun n' k' => if n' = old ∧ k' = k then false else s.acct n' k',
               binding := fun k' => if k' = k then none else s.binding k' }
    else s

/-- `updateNodeUsageFromPod`; the flag is `false` when the pod's node is not tracked (NotFound: the informer retries) -/
def usageFromPod (s : St κ ν) (k : κ) (r : PodRec ν) : St κ ν × Bool :=
  match r.node with
  | none => (completion s k, true)
  | some n =>
    if s.tracked n = true then
      let s1 : St κ ν := { s with acct := fun n' k' => if n' = n ∧ k' = k then true else s.acct n' k' }
      let s2 := cleanupOld s1 k n
      ({ s2 with binding := fun k' => if k' = k then some n else s2.binding k' }, true)
    else
      ((match s.binding k with
        | some old => if old = n then s else completion s k
        | none => s), false)

/-- `Cluster.UpdatePod`: a pod in a terminal phase is released, any other pod is charged to the node it is bound to -/
def updatePod (s : St κ ν) (k : κ) (r : PodRec ν) : St κ ν × Bool :=
  if r.terminal then (completion s k, true) else usageFromPod s k r

/-- `Cluster.DeletePod` -/
def deletePod (s : St κ ν) (k : κ) : St κ ν := completion s k

/-- the pods `populateResourceRequests` charges to node `n`: listed by `spec.nodeName`, those that `skip` says are over
    left out (`podutils.IsTerminal` in the code) -/
def listedBy (skip : PodRec ν → Bool) (s : St κ ν) (n : ν) (k : κ) : Bool :=
  match s.apiPod k with
  | none => false
  | some r => decide (r.node = some n) && !skip r

/-- `Cluster.UpdateNode` → `newStateFromNode` → `populateResourceRequests`: the node's accounting is REBUILT from the
    pods the API lists for it (closed form of the loop — its iterations touch disjoint pod keys: charge the pod, release
    it on a different tracked node of an older binding, record the binding) -/
def updateNodeBy (skip : PodRec ν → Bool) (s : St κ ν) (n : ν) : St κ ν :=
  { s with
    tracked := fun n' => if n' = n then true else s.tracked n',
    acct := fun n' k =>
      if n' = n then listedBy skip s n k
      else if listedBy skip s n k = true ∧ s.binding k = some n' ∧ s.tracked n' = true then false
      else s.acct n' k,
    binding := fun k => if listedBy skip s n k = true then some n else s.binding k }

def listed (s : St κ ν) (n : ν) (k : κ) : Bool := listedBy (fun r => r.terminal) s n k
def updateNode (s : St κ ν) (n : ν) : St κ ν := updateNodeBy (fun r => r.terminal) s n

/-- `Cluster.DeleteNode` → `cleanupNode`: the node (or, for a node with a NodeClaim, its Node half with everything
    bound to it) is dropped; bindings are kept -/
def deleteNode (s : St κ ν) (n : ν) : St κ ν :=
  { s with tracked := fun n' => if n' = n then false else s.tracked n',
           acct := fun n' k => if n' = n then false else s.acct n' k }

/-- API changes and informer deliveries -/
inductive Ev (κ ν : Type)
  | podSet (k : κ) (r : PodRec ν)     -- the pod is created / bound / its phase or deletionTimestamp changes
  | podGone (k : κ)                   -- the pod object is removed
  | nodeSet (n : ν)                   -- the Node exists (created or updated)
  | nodeGone (n : ν)                  -- the Node object is removed
  | seePod (k : κ)                    -- pod informer: `UpdatePod` with what the API holds, `DeletePod` if it is gone
  | seeNode (n : ν)                   -- node informer: `UpdateNode`, `DeleteNode` if it is gone

def setDirty (s : St κ ν) (k : κ) (b : Bool) : St κ ν := { s with dirty := fun k' => if k' = k then b else s.dirty k' }

def stepBy (skip : PodRec ν → Bool) (s : St κ ν) : Ev κ ν → St κ ν
  | .podSet k r => setDirty { s with apiPod := fun k' => if k' = k then some r else s.apiPod k' } k true
  | .podGone k => setDirty { s with apiPod := fun k' => if k' = k then none else s.apiPod k' } k true
  | .nodeSet n => { s with apiNode := fun n' => if n' = n then true else s.apiNode n' }
  | .nodeGone n => { s with apiNode := fun n' => if n' = n then false else s.apiNode n' }
  | .seePod k =>
    match s.apiPod k with
    | none => setDirty (deletePod s k) k false
    | some r =>
      let res := updatePod s k r
      if res.2 then setDirty res.1 k false else res.1
  | .seeNode n => if s.apiNode n = true then updateNodeBy skip s n else deleteNode s n

def step (s : St κ ν) (e : Ev κ ν) : St κ ν := stepBy (fun r => r.terminal) s e

def run (s : St κ ν) (evs : List (Ev κ ν)) : St κ ν := evs.foldl step s

def runBy (skip : PodRec ν → Bool) (s : St κ ν) (evs : List (Ev κ ν)) : St κ ν := evs.foldl (stepBy skip) s

end Karp.PodAcct
