/-
Model of `pkg/scheduling/requirement.go` (Requirement) and `pkg/scheduling/requirements.go`
(Requirements: Add / Get / Compatible / Intersects / NodeSelectorRequirements).
Core Lean only.  Label tables come from the regenerated `Karp.Gen.Labels`.

Values are `String`s (label values); sets of values are `List String` with set semantics
(membership only: order and multiplicity never matter; the driver canonicalises to sorted,
duplicate-free lists before comparing with the Go `sets.Set[string]`).
Go `int` is modelled as `Int`; every integer the model stores comes from `atoi`, which only yields
values in the int64 range, plus the two increments that are guarded against wrapping.
-/
import Karp.Gen.Labels

namespace Karp.Req

abbrev Val := String

def maxInt : Int := 9223372036854775807
def minInt : Int := -9223372036854775808

/-! ### `strconv.Atoi` -/

def digitVal (c : Char) : Option Nat :=
  if '0' ≤ c ∧ c ≤ '9' then some (c.toNat - 48) else none

/-- base-10 digits only (no underscores, no spaces); `none` on any other character -/
def parseNat : List Char → Nat → Option Nat
  | [], acc => some acc
  | c :: cs, acc =>
    match digitVal c with
    | none => none
    | some d => parseNat cs (acc * 10 + d)

/-- result of `strconv.Atoi`: the value Go returns together with whether `err == nil`.
    Syntax error: value 0.  Range error: value clamped to the nearest int64 bound. -/
def atoiChars : List Char → Int × Bool
  | [] => (0, false)
  | '-' :: ds =>
    if ds.isEmpty then (0, false) else
    match parseNat ds 0 with
    | none => (0, false)
    | some n => if (n : Int) ≤ -minInt then (-(n : Int), true) else (minInt, false)
  | '+' :: ds =>
    if ds.isEmpty then (0, false) else
    match parseNat ds 0 with
    | none => (0, false)
    | some n => if (n : Int) ≤ maxInt then ((n : Int), true) else (maxInt, false)
  | ds =>
    match parseNat ds 0 with
    | none => (0, false)
    | some n => if (n : Int) ≤ maxInt then ((n : Int), true) else (maxInt, false)

def atoiRaw (s : String) : Int × Bool := atoiChars s.toList

/-- `strconv.Atoi(s)` with `err == nil` -/
def atoi (s : String) : Option Int :=
  let r := atoiRaw s
  if r.2 then some r.1 else none

/-! ### `strconv.FormatInt(i, 10)` -/

def digitChar (d : Nat) : Char := Char.ofNat (48 + d)

/-- decimal digits of `n`, most significant first (`fuel ≥ n` is always enough) -/
def natDigits : Nat → Nat → List Char
  | 0, _ => ['0']
  | f + 1, n => if n < 10 then [digitChar n] else natDigits f (n / 10) ++ [digitChar (n % 10)]

/-- canonical decimal rendering of an integer -/
def renderInt (i : Int) : String :=
  if i < 0 then String.ofList ('-' :: natDigits i.natAbs i.natAbs) else String.ofList (natDigits i.natAbs i.natAbs)

/-! ### Requirement -/

inductive Op
  | in_ | notIn | exists_ | doesNotExist | gt | lt | gte | lte
  | other        -- any operator string the constructor does not know: treated like `Exists`
deriving Repr, DecidableEq

structure Req where
  key        : String
  complement : Bool
  values     : List Val
  gte        : Option Int := none
  lte        : Option Int := none
  minValues  : Option Int := none
deriving Repr, DecidableEq

def geOk (g : Option Int) (i : Int) : Bool := match g with | none => true | some b => decide (b ≤ i)
def leOk (l : Option Int) (i : Int) : Bool := match l with | none => true | some b => decide (i ≤ b)

/-- `withinBounds` -/
def withinBounds (v : Val) (gte lte : Option Int) : Bool :=
  match gte, lte with
  | none, none => true
  | g, l =>
    match atoi v with
    | none => false
    | some i => geOk g i && leOk l i

/-- `Requirement.Has` -/
def Req.has (r : Req) (v : Val) : Bool :=
  if r.complement then !r.values.contains v && withinBounds v r.gte r.lte
  else r.values.contains v && withinBounds v r.gte r.lte

def normalizeKey (key : String) : String :=
  match Karp.Gen.Labels.normalizedLabels.lookup key with
  | some k => k
  | none => key

/-- `NormalizedLabelValues` is empty in core karpenter (cloud providers may register entries at
    start-up); the generated table is `(normalized key, from value, to value)` triples. -/
def normalizeValue (_key : String) (v : Val) : Val := v

def maxOpt (a b : Option Int) : Option Int :=
  match a, b with
  | none, b => b
  | a, none => a
  | some x, some y => if x > y then some x else some y

def minOpt (a b : Option Int) : Option Int :=
  match a, b with
  | none, b => b
  | a, none => a
  | some x, some y => if x < y then some x else some y

def doesNotExist (key : String) (mv : Option Int) : Req :=
  { key := key, complement := false, values := [], minValues := mv }

inductive NewErr | panicIndex
deriving Repr, DecidableEq

/-- `NewRequirementWithFlexibility`.  `Gt`/`Lt`/`Gte`/`Lte` read `values[0]` (a Go index panic when no
    value is given) and ignore the `Atoi` error ("prevalidated"). -/
def Req.new (key0 : String) (op : Op) (mv : Option Int) (vals0 : List Val) : Except NewErr Req :=
  let key := normalizeKey key0
  let vals := vals0.map (normalizeValue key)
  match op with
  | .in_ => pure { key := key, complement := false, values := vals, minValues := mv }
  | .doesNotExist => pure { key := key, complement := false, values := [], minValues := mv }
  | .notIn => pure { key := key, complement := true, values := vals, minValues := mv }
  | .exists_ => pure { key := key, complement := true, values := [], minValues := mv }
  | .other => pure { key := key, complement := true, values := [], minValues := mv }
  | .gt =>
    match vals with
    | [] => .error .panicIndex
    | v :: _ =>
      let n := (atoiRaw v).1
      -- `Gt MaxInt` matches nothing (note: built with nil MinValues, as the code does)
      if n = maxInt then pure (doesNotExist key none)
      else pure { key := key, complement := true, values := [], gte := some (n + 1), minValues := mv }
  | .lt =>
    match vals with
    | [] => .error .panicIndex
    | v :: _ =>
      let n := (atoiRaw v).1
      -- `Lt MinInt` matches nothing (guard added by the C12 repair; before it `value--` wrapped to MaxInt)
      if n = minInt then pure (doesNotExist key none)
      else pure { key := key, complement := true, values := [], lte := some (n - 1), minValues := mv }
  | .gte =>
    match vals with
    | [] => .error .panicIndex
    | v :: _ => pure { key := key, complement := true, values := [], gte := some (atoiRaw v).1, minValues := mv }
  | .lte =>
    match vals with
    | [] => .error .panicIndex
    | v :: _ => pure { key := key, complement := true, values := [], lte := some (atoiRaw v).1, minValues := mv }

/-- `gte != nil && lte != nil && *gte > *lte` -/
def boundsEmpty (g l : Option Int) : Bool :=
  match g, l with
  | some g, some l => decide (g > l)
  | _, _ => false

/-- `Requirement.Intersection` (receiver `r`, argument `q`; the result takes `r.Key`) -/
def Req.inter (r q : Req) : Req :=
  let complement := r.complement && q.complement
  let gte := maxOpt r.gte q.gte
  let lte := minOpt r.lte q.lte
  let mv := maxOpt r.minValues q.minValues
  if boundsEmpty gte lte then doesNotExist r.key mv else
  let values :=
    if r.complement && q.complement then r.values ++ q.values
    else if r.complement && !q.complement then q.values.filter (fun v => !r.values.contains v)
    else if !r.complement && q.complement then r.values.filter (fun v => !q.values.contains v)
    else r.values.filter (fun v => q.values.contains v)
  let values := values.filter (fun v => withinBounds v gte lte)
  if complement then { key := r.key, complement := true, values := values, gte := gte, lte := lte, minValues := mv }
  else { key := r.key, complement := false, values := values, gte := none, lte := none, minValues := mv }

/-- `Requirement.HasIntersection` -/
def Req.hasIntersection (r q : Req) : Bool :=
  let gte := maxOpt r.gte q.gte
  let lte := minOpt r.lte q.lte
  if boundsEmpty gte lte then false
  else if r.complement && q.complement then true
  else if r.complement && !q.complement then
    q.values.any (fun v => !r.values.contains v && withinBounds v gte lte)
  else if !r.complement && q.complement then
    r.values.any (fun v => !q.values.contains v && withinBounds v gte lte)
  else r.values.any (fun v => q.values.contains v && withinBounds v gte lte)

/-- number of distinct values in a value list (Go: `len(set)`) -/
def card (l : List Val) : Nat := l.eraseDups.length

/-- `Requirement.Len` -/
def Req.len (r : Req) : Int :=
  if r.complement then maxInt - (card r.values : Int) else (card r.values : Int)

/-- `Requirement.Operator` (only the four classes the code ever returns) -/
def Req.operator (r : Req) : Op :=
  if r.complement then
    if r.len < maxInt then .notIn else .exists_
  else if r.len > 0 then .in_ else .doesNotExist

/-- the treatment of an undefined / absent label used throughout `Compatible`/`Intersects`:
    a requirement tolerates the label being absent iff its operator is `NotIn` or `DoesNotExist` -/
def Req.absentOk (r : Req) : Bool :=
  match r.operator with
  | .notIn | .doesNotExist => true
  | _ => false

/-- Go `int` subtraction `a - b` for in-range operands: wraps modulo 2^64 -/
def wrap64 (d : Int) : Int :=
  if d > maxInt then d - 18446744073709551616 else if d < minInt then d + 18446744073709551616 else d

/-- `Requirement.Any` is random; this is the relation "`out` is a value `Any()` may return", for the code
    as repaired for C13 (before the repair: `rand.Intn(max-min)+min`, a Go panic when `max-min ≤ 0`, and the
    excluded values were ignored).
    `In`: any element.  `NotIn`/`Exists`: `min = gte ?? 0`, `max = lte+1` (if `lte < MaxInt`) `?? MaxInt`;
    empty (or int-overflowing) width ⇒ `""`; otherwise a canonical decimal integer in `[min, max)` that is not
    excluded, or `""` when the fallback scan over the first `len(values)+1` integers of the range finds none.
    Every other operator: `""`. -/
def Req.anyLo (r : Req) : Int := r.gte.getD 0
def Req.anyHi (r : Req) : Int :=
  match r.lte with
  | some l => if l < maxInt then l + 1 else maxInt
  | none => maxInt

def Req.anyRange (r : Req) (out : Val) : Bool :=
  if wrap64 (r.anyHi - r.anyLo) ≤ 0 then out == ""
  else if out == "" then
    (List.range (min (card r.values + 1) (wrap64 (r.anyHi - r.anyLo)).toNat)).all
      (fun j => r.values.contains (renderInt (r.anyLo + (j : Int))))
  else match atoi out with
    | some i => decide (r.anyLo ≤ i) && decide (i < r.anyHi) && (renderInt i == out) && !r.values.contains out
    | none => false

def Req.anyAllowed (r : Req) (out : Val) : Bool :=
  match r.operator with
  | .in_ => r.values.contains out
  | .notIn | .exists_ => r.anyRange out
  | _ => out == ""

/-! ### Serialisation (`NodeSelectorRequirement`, `BoundedNodeSelectorRequirements`) -/

structure Sel where
  key : String
  op : Op
  values : List Val
  minValues : Option Int
deriving Repr, DecidableEq

/-- sorted, duplicate-free (what `sets.List` returns); used by the driver to canonicalise value sets -/
def sortedVals (l : List Val) : List Val := (l.eraseDups.toArray.qsort (· < ·)).toList

/-- `Requirements.NodeSelectorRequirements` for one requirement, as repaired for C13: bounds are emitted
    as `Gte`/`Lte` entries and a non-empty exclusion list is emitted as an additional `NotIn` entry
    (before the repair the exclusions were dropped whenever a bound was present). -/
def Req.toSelectors (r : Req) : List Sel :=
  let bounds : List Sel :=
    (match r.gte with | some g => [{ key := r.key, op := .gte, values := [renderInt g], minValues := r.minValues }] | none => []) ++
    (match r.lte with | some l => [{ key := r.key, op := .lte, values := [renderInt l], minValues := r.minValues }] | none => [])
  if bounds.isEmpty then
    if r.complement then
      if r.values.isEmpty then [{ key := r.key, op := .exists_, values := [], minValues := r.minValues }]
      else [{ key := r.key, op := .notIn, values := r.values, minValues := r.minValues }]
    else
      if r.values.isEmpty then [{ key := r.key, op := .doesNotExist, values := [], minValues := r.minValues }]
      else [{ key := r.key, op := .in_, values := r.values, minValues := r.minValues }]
  else
    bounds ++ (if r.complement && !r.values.isEmpty then
      [{ key := r.key, op := .notIn, values := r.values, minValues := r.minValues }] else [])

/-- `NewNodeSelectorRequirementsWithMinValues` restricted to the entries of one key:
    each entry is constructed and `Add`ed, i.e. `new.Intersection(existing)` -/
def fromSelectors (sels : List Sel) : Except NewErr (Option Req) :=
  sels.foldlM (fun (acc : Option Req) (s : Sel) => do
    let r ← Req.new s.key s.op s.minValues s.values
    match acc with
    | none => pure (some r)
    | some e => pure (some (r.inter e))) none

/-! ### Requirements (a map key ↦ requirement, as an association list with distinct keys) -/

abbrev Reqs := List (String × Req)

def Reqs.get? (R : Reqs) (k : String) : Option Req := R.lookup k
def Reqs.hasKey (R : Reqs) (k : String) : Bool := (R.lookup k).isSome

/-- `Requirements.Get`: undefined keys read as `Exists` -/
def Reqs.get (R : Reqs) (k : String) : Req :=
  match R.lookup k with
  | some r => r
  | none => { key := k, complement := true, values := [] }

def Reqs.set (R : Reqs) (k : String) (r : Req) : Reqs :=
  match R with
  | [] => [(k, r)]
  | (k', r') :: rest => if k' = k then (k, r) :: rest else (k', r') :: Reqs.set rest k r

/-- `Requirements.Add` for one requirement: `requirement.Intersection(existing)` -/
def Reqs.add1 (R : Reqs) (r : Req) : Reqs :=
  match R.lookup r.key with
  | some e => R.set r.key (r.inter e)
  | none => R.set r.key r

def Reqs.add (R : Reqs) (rs : List Req) : Reqs := rs.foldl Reqs.add1 R

def Reqs.keys (R : Reqs) : List String := R.map (·.1)

/-- `Requirements.Intersects`: `true` = no error -/
def Reqs.intersects (A B : Reqs) : Bool :=
  B.all (fun (k, incoming) =>
    match A.lookup k with
    | none => true
    | some existing =>
      existing.hasIntersection incoming || (incoming.absentOk && existing.absentOk))

/-- `Requirements.Compatible` (`true` = nil error); `allowUndefined` = the option's key set -/
def Reqs.compatible (A B : Reqs) (allowUndefined : List String) : Bool :=
  B.all (fun (k, incoming) =>
    allowUndefined.contains k || A.hasKey k || incoming.absentOk)
  && A.intersects B

end Karp.Req
