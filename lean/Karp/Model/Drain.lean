/-
Model of the node drain (C10):

* pod predicates of `pkg/utils/pod/scheduling.go` (IsActive, IsStuckTerminating, IsDrainable,
  IsWaitingEviction, IsEvictable, IsDoNotDisruptActive, IsPodEligibleForForcedEviction, …),
* `needsForceDelete`, `Queue.Add` / `earlier`, `Queue.Reconcile` (`evict`, `forceDelete`, `complete`)
  of `pkg/controllers/node/termination/terminator/eviction.go`,
* `Terminator.Drain` / `groupPodsByPriority` of `…/terminator/terminator.go`,
* `Controller.nodeTerminationTime` of `pkg/controllers/node/termination/controller.go` (where a drain pass of the
  termination controller takes the node deadline from, and when it refuses to proceed),
* the step function of a history (drain passes, reconciles, clock advances, pod changes) against the
  emulated API server used by the correspondence harness.

Core Lean only.  Constants and tables come from the regenerated `Karp.Gen.C10Drain`.
Time is `Int` nanoseconds; grace periods are `Int` seconds.
-/
import Karp.Gen.C10Drain

namespace Karp.Drain
open Karp.Gen

-- times are `Int` nanoseconds (plain `Int`, so that `omega` sees them)

/-- `time.Second` in nanoseconds -/
def sec : Int := 1000000000

/-- the value of the `karpenter.sh/do-not-disrupt` annotation, parsed:
    absent, `"true"`, not a positive duration, or a positive duration (ns) -/
inductive Dnd
  | absent | forever | invalid | dur (ns : Int)
deriving Repr, DecidableEq

/-- what the drain logic reads of a pod -/
structure Pod where
  uid : Nat
  /-- bound to the node being drained (`spec.nodeName`) -/
  onNode : Bool
  /-- `status.phase ∈ {Failed, Succeeded}` -/
  terminal : Bool
  /-- `metadata.deletionTimestamp` -/
  del : Option Int
  /-- `spec.terminationGracePeriodSeconds` -/
  grace : Option Int
  /-- tolerates `karpenter.sh/disrupted:NoSchedule` -/
  tolerates : Bool
  /-- owned by a `v1/Node` (static / mirror pod) -/
  static : Bool
  /-- owned by an `apps/v1/DaemonSet` -/
  daemon : Bool
  /-- `spec.priorityClassName` is one of the system critical classes -/
  critical : Bool
  dnd : Dnd
  /-- `status.startTime` -/
  start : Option Int
deriving Repr, DecidableEq

/-! ### pkg/utils/pod -/

def isTerminating (p : Pod) : Bool := p.del.isSome
def isActive (p : Pod) : Bool := !p.terminal && !isTerminating p

/-- the one-minute buffer of `IsStuckTerminating` -/
def stuckBuffer : Int := C10Drain.stuckTerminatingNs

/-- `IsTerminating(pod) && clk.Since(pod.DeletionTimestamp.Time) > time.Minute` -/
def isStuckTerminating (p : Pod) (now : Int) : Bool :=
  match p.del with
  | none => false
  | some dt => decide (now - dt > stuckBuffer)

/-- `IsDoNotDisruptActive` -/
def dndActive (p : Pod) (now : Int) : Bool :=
  match p.dnd with
  | .absent => false
  | .forever => true
  | .invalid => false
  | .dur d =>
    match p.start with
    | none => true
    | some s => decide (now - s < d)

def isDrainable (p : Pod) (now : Int) : Bool :=
  !p.tolerates && !isStuckTerminating p now && !p.static

def isWaitingEviction (p : Pod) (now : Int) : Bool := !p.terminal && isDrainable p now

def isEvictable (p : Pod) (now : Int) : Bool :=
  isActive p && !p.tolerates && !p.static && !dndActive p now

def isDisruptable (p : Pod) (now : Int) : Bool := !isActive p || !dndActive p now

/-- `IsPodEligibleForForcedEviction` -/
def forcedEligible (p : Pod) (D : Option Int) : Bool :=
  match D, p.del with
  | some d, some dt => decide (dt > d)
  | _, _ => false

/-! ### eviction.go -/

/-- `needsForceDelete(pod, nodeTerminationTime, clk)` -/
def needsForceDelete (p : Pod) (D : Option Int) (now : Int) : Bool :=
  match D with
  | none => false
  | some d =>
    match p.del with
    | some dt => decide (dt > d)
    | none =>
      match p.grace with
      | none => false
      | some g => decide (now > d - g * sec)

/-- `Queue.items`: pod key ↦ deadline (`none` = no deadline), as an association list -/
abbrev Items := List (Nat × Option Int)

def qget (q : Items) (k : Nat) : Option (Option Int) := List.lookup k q
def qhas (q : Items) (k : Nat) : Bool := (qget q k).isSome
def qerase (q : Items) (k : Nat) : Items := q.filter (fun e => e.1 != k)
def qput (q : Items) (k : Nat) (v : Option Int) : Items := (k, v) :: qerase q k

/-- `earlier(a, b)`: nil = no deadline = +∞ -/
def earlier (a b : Option Int) : Option Int :=
  match a, b with
  | none, b => b
  | some x, none => some x
  | some x, some y => if x < y then some x else some y

/-- one iteration of the loop in `Queue.Add` -/
def qadd1 (q : Items) (d : Option Int) (k : Nat) : Items :=
  qput q k (earlier ((qget q k).getD none) d)

/-- `Queue.Add(nodeTerminationTime, pods...)` -/
def qaddAll (q : Items) (d : Option Int) : List Nat → Items
  | [] => q
  | k :: ks => qaddAll (qadd1 q d k) d ks

/-- what the eviction sub-resource answered -/
inductive EvictAns
  | ok | gone | tooMany | multiPdb | notFound | conflict | other
deriving Repr, DecidableEq

/-- what `kubeClient.Delete` answered -/
inductive DeleteAns
  | ok | gone | notFound | other
deriving Repr, DecidableEq

/-- a removal request sent to the API server -/
inductive Call
  | evict (uid : Nat)
  | delete (uid : Nat) (grace : Int)
deriving Repr, DecidableEq

/-- the pod a removal request is for -/
def Call.uid : Call → Nat
  | .evict u => u
  | .delete u _ => u

inductive Res | done | requeue | error
deriving Repr, DecidableEq

def minGrace : Int := C10Drain.forceDeleteMinGraceSeconds

/-- `max(int64(nodeTerminationTime.Sub(now).Seconds()), 1)` -/
def forceGrace (d now : Int) : Int := max ((d - now).tdiv sec) minGrace

/-- `Queue.Reconcile(ctx, pod)`: the request made (if any), the reconcile result and the new items -/
def reconcile (q : Items) (p : Pod) (now : Int) (ea : EvictAns) (da : DeleteAns) :
    Option Call × Res × Items :=
  match qget q p.uid with
  | none => (none, .done, q)
  | some D =>
    if needsForceDelete p D now then
      let g := forceGrace (D.getD 0) now
      match da with
      | .other => (some (.delete p.uid g), .error, q)
      | _ => (some (.delete p.uid g), .done, qerase q p.uid)
    else if !isActive p then (none, .done, qerase q p.uid)
    else if !isEvictable p now then (none, .requeue, q)
    else
      match ea with
      | .ok | .gone | .notFound | .conflict => (some (.evict p.uid), .done, qerase q p.uid)
      | .tooMany | .multiPdb => (some (.evict p.uid), .requeue, q)
      | .other => (some (.evict p.uid), .error, q)

/-! ### terminator.go -/

/-- the class a pod is bucketed into by `groupPodsByPriority` -/
def cls (p : Pod) : Bool × Bool := (p.critical, p.daemon)

/-- `groupPodsByPriority`: the buckets in the order they are returned -/
def groups (pods : List Pod) : List (List Pod) :=
  C10Drain.tierOrder.map (fun c => pods.filter (fun p => cls p == c))

def firstNonEmpty : List (List Pod) → List Pod
  | [] => []
  | g :: gs => if g.isEmpty then firstNonEmpty gs else g

def waitingPods (pods : List Pod) (now : Int) : List Pod :=
  pods.filter (fun p => p.onNode && isWaitingEviction p now)

def deleteEligible (pods : List Pod) (D : Option Int) (now : Int) : List Pod :=
  (waitingPods pods now).filter (fun p => needsForceDelete p D now)

def gracefulCandidates (pods : List Pod) (D : Option Int) (now : Int) : List Pod :=
  (waitingPods pods now).filter (fun p => !needsForceDelete p D now)

/-- the pods one `Drain` pass hands to `Queue.Add` -/
def enqueued (pods : List Pod) (D : Option Int) (now : Int) : List Pod :=
  deleteEligible pods D now ++ firstNonEmpty (groups (gracefulCandidates pods D now))

/-- `Terminator.Drain`: new items and whether a `NodeDrainError` is returned (pods still waiting) -/
def drain (q : Items) (pods : List Pod) (D : Option Int) (now : Int) : Items × Bool :=
  let de := deleteEligible pods D now
  let q1 := qaddAll q D (de.map (·.uid))
  let g := firstNonEmpty (groups (gracefulCandidates pods D now))
  if !g.isEmpty then (qaddAll q1 D (g.map (·.uid)), true)
  else (q1, !de.isEmpty)

/-! ### controller.go: where the node deadline comes from -/

/-- what `finalize` knows about the node deadline when it reaches `nodeTerminationTime` -/
inductive DeadlineSrc
  /-- no NodeClaim for the node, or several (`nodeClaim == nil`) -/
  | noClaim
  /-- the NodeClaim does not carry the termination-timestamp annotation (no terminationGracePeriod) -/
  | noAnnotation
  /-- the annotation is present; `t` = the instant it denotes, `none` = its value is not a timestamp
      (`time.Parse(time.RFC3339, …)` fails, see `Karp.Rfc3339.parse`) -/
  | annotation (t : Option Int)
deriving Repr, DecidableEq

/-- `Controller.nodeTerminationTime(node, nodeClaim)`: `none` = an error is returned (and `finalize` returns it
    before tainting or draining anything), `some D` = the deadline handed to `Terminator.Drain`.  The guarded
    returns are those listed in the regenerated `C10Drain.nodeTerminationTimeReturns`. -/
def nodeTerminationTime : DeadlineSrc → Option (Option Int)
  | .noClaim => some none
  | .noAnnotation => some none
  | .annotation none => none
  | .annotation (some t) => some (some t)

/-! ### histories against the emulated API server -/

/-- a pod object in the (emulated) API server -/
structure WPod where
  pod : Pod
  gone : Bool
deriving Repr, DecidableEq

inductive Mut | cleardnd | succeed | gone | replace | kill
deriving Repr, DecidableEq

inductive Step
  | add (d : Option Int) (ps : List Nat)
  | drain (d : Option Int)
  /-- a drain pass driven by the termination controller (`Controller.Reconcile` → `finalize`) -/
  | node (src : DeadlineSrc)
  | recon (p : Nat) (ea : EvictAns) (da : DeleteAns)
  | tick (ns : Int)
  | change (p : Nat) (m : Mut)
deriving Repr, DecidableEq

structure State where
  now : Int
  pods : List WPod
  q : Items
deriving Repr, DecidableEq

/-- grace period the emulated API server applies when the pod has none -/
def defaultGrace : Int := 30

/-- API server: start (or shorten) the graceful deletion of a pod with `g` seconds;
    deletionTimestamps have second precision -/
def terminate (p : Pod) (now : Int) (g : Int) : Pod :=
  let nd := (now / sec) * sec + g * sec
  match p.del with
  | none => { p with del := some nd }
  | some old => { p with del := some (if nd < old then nd else old) }

def podGrace (p : Pod) : Int := p.grace.getD defaultGrace

def modifyAt (l : List WPod) (i : Nat) (f : WPod → WPod) : List WPod :=
  match l, i with
  | [], _ => []
  | x :: xs, 0 => f x :: xs
  | x :: xs, i + 1 => x :: modifyAt xs i f

/-- pods the API server currently lists -/
def livePods (s : State) : List Pod := (s.pods.filter (fun w => !w.gone)).map (·.pod)

/-- effect of a successful removal request on the API server -/
def applyCall (w : WPod) (now : Int) (c : Option Call) (ea : EvictAns) (da : DeleteAns) : WPod :=
  match c with
  | none => w
  | some (.evict _) =>
    match ea with
    | .ok => { w with pod := terminate w.pod now (podGrace w.pod) }
    | .gone => { w with gone := true }
    | _ => w
  | some (.delete _ g) =>
    match da with
    | .ok => { w with pod := terminate w.pod now g }
    | .gone => { w with gone := true }
    | _ => w

/-- pod changes that are not Karpenter's.  `n` = number of pod slots of the scenario: a replacement pod
    (same name, new UID) gets `uid + n`, so a UID always identifies its slot (`uid % n`). -/
def applyMut (n : Nat) (w : WPod) (now : Int) : Mut → WPod
  | .cleardnd => { w with pod := { w.pod with dnd := .absent } }
  | .succeed => if w.gone then w else { w with pod := { w.pod with terminal := true } }
  | .gone => { w with gone := true }
  | .replace => { gone := false, pod := { w.pod with uid := w.pod.uid + n, del := none, terminal := false } }
  | .kill => if w.gone then w else { w with pod := terminate w.pod now (podGrace w.pod) }

/-- UIDs of the listed pod slots that currently exist (what a direct `Queue.Add` is given) -/
def liveUids (s : State) (ps : List Nat) : List Nat :=
  ps.filterMap (fun i => match s.pods[i]? with
    | some w => if w.gone then none else some w.pod.uid
    | none => none)

/-- the state after a step, given the queue items and the removal requests observed for it
    (the API server is advanced with the requests that were actually sent) -/
def advance (s : State) (st : Step) (q' : Items) (calls : List Call) : State :=
  match st with
  | .add _ _ => { s with q := q' }
  | .drain _ => { s with q := q' }
  | .node _ => { s with q := q' }
  | .recon i ea da => { s with q := q', pods := modifyAt s.pods i (fun w => applyCall w s.now calls.head? ea da) }
  | .tick ns => { s with q := q', now := s.now + ns }
  | .change i m => { s with q := q', pods := modifyAt s.pods i (fun w => applyMut s.pods.length w s.now m) }

/-- what one step is observed to do: verdict string, removal requests, queue items afterwards -/
structure StepOut where
  r : String
  calls : List Call
  items : Items
deriving Repr, DecidableEq

def resString : Res → String
  | .done => "done" | .requeue => "requeue" | .error => "error"

/-- a drain pass with deadline `d` -/
def drainStep (s : State) (d : Option Int) : StepOut :=
  let o := drain s.q (livePods s) d s.now
  { r := if o.2 then "waiting" else "drained", calls := [], items := o.1 }

/-- a reconcile of the termination controller that returns an error before it drains: nothing happens -/
def refusedStep (s : State) : StepOut := { r := "error", calls := [], items := s.q }

/-- the deadline a step drains under, if it is a drain pass that goes ahead -/
def passDeadline : Step → Option (Option Int)
  | .drain d => some d
  | .node src => nodeTerminationTime src
  | _ => none

def stepModel (s : State) : Step → StepOut
  | .add d ps => { r := "", calls := [], items := qaddAll s.q d (liveUids s ps) }
  | .drain d => drainStep s d
  | .node src =>
    match nodeTerminationTime src with
    | none => refusedStep s
    | some d => drainStep s d
  | .recon i ea da =>
    match s.pods[i]? with
    | none => { r := "absent", calls := [], items := s.q }
    | some w =>
      if w.gone then { r := "absent", calls := [], items := s.q }
      else
        let o := reconcile s.q w.pod s.now ea da
        { r := resString o.2.1, calls := o.1.toList, items := o.2.2 }
  | .tick _ => { r := "", calls := [], items := s.q }
  | .change _ _ => { r := "", calls := [], items := s.q }

/-- the start of a scenario: the given pods in slots `0..n-1` (UID = slot), empty queue -/
def assignUids : List Pod → Nat → List WPod
  | [], _ => []
  | p :: ps, i => { pod := { p with uid := i }, gone := false } :: assignUids ps (i + 1)

def initState (now : Int) (ps : List Pod) : State := { now := now, pods := assignUids ps 0, q := [] }

def nextState (s : State) (st : Step) : State :=
  let o := stepModel s st
  advance s st o.items o.calls

def runModel (s : State) : List Step → List StepOut
  | [] => []
  | st :: rest => stepModel s st :: runModel (nextState s st) rest

def runState (s : State) : List Step → State
  | [] => s
  | st :: rest => runState (nextState s st) rest

end Karp.Drain
