/-
Model of `pkg/controllers/state/cluster.go`, `statenode.go`, `statenodepool.go` (the parts the cluster cache
uses), `pkg/scheduling/hostportusage.go`, `pkg/scheduling/volumeusage.go` and of the three informer
controllers `pkg/controllers/state/informer/{node,nodeclaim,pod}.go`, AS THE CODE IS (including the
defects recorded for C11).  Core Lean only.

Conventions
* a Go map is an association list `Map α = List (String × α)` with `get / put / erase`
  (`put` = erase then cons, so keys stay distinct); a Go `sets.Set[string]` is a duplicate-free list;
* a `corev1.ResourceList` is the fixed-arity vector `Res` (cpu in milli-units, memory, pods, one extended
  resource, and the synthetic `nodes` resource), missing = 0;
* a method that mutates through a pointer returns the new value;
* the API server is the value `Api`; a reconcile reads it (level-triggered: the object as it is NOW);
* a Go nil-pointer dereference is `Except.error`.
Which fields `newStateFromNode` / `newStateFromNodeClaim` carry over is taken from the regenerated
`Karp.Gen.ClusterStateFacts` (so a repaired carry-over is followed by the model automatically).
-/
import Karp.Gen.ClusterStateFacts

namespace Karp.ClusterState

/-! ## Resource vectors -/

structure Res where
  cpu : Int := 0
  mem : Int := 0
  pods : Int := 0
  ext : Int := 0
  nodes : Int := 0
deriving DecidableEq, Repr, Inhabited

def Res.zero : Res := {}
def Res.add (a b : Res) : Res := ⟨a.cpu + b.cpu, a.mem + b.mem, a.pods + b.pods, a.ext + b.ext, a.nodes + b.nodes⟩
def Res.sub (a b : Res) : Res := ⟨a.cpu - b.cpu, a.mem - b.mem, a.pods - b.pods, a.ext - b.ext, a.nodes - b.nodes⟩
def Res.isZero (a : Res) : Bool := decide (a = Res.zero)

/-- `ret[name] = claimQuantity if resources.IsZero(ret[name])` for every resource of the claim -/
def Res.fillZero (a b : Res) : Res :=
  ⟨if a.cpu = 0 then b.cpu else a.cpu, if a.mem = 0 then b.mem else a.mem, if a.pods = 0 then b.pods else a.pods,
   if a.ext = 0 then b.ext else a.ext, if a.nodes = 0 then b.nodes else a.nodes⟩

/-! ## Association lists -/

abbrev Map (α : Type) := List (String × α)

namespace Map
variable {α : Type}

def get : Map α → String → Option α
  | [], _ => none
  | (k', v) :: m, k => if k' = k then some v else get m k

def has (m : Map α) (k : String) : Bool := (m.get k).isSome
def getD (m : Map α) (k : String) (d : α) : α := (m.get k).getD d
def erase (m : Map α) (k : String) : Map α := m.filter (fun e => e.1 ≠ k)
def put (m : Map α) (k : String) (v : α) : Map α := (k, v) :: m.erase k
def keys (m : Map α) : List String := m.map (·.1)
def vals (m : Map α) : List α := m.map (·.2)

end Map

/-- string sets -/
def sInsert (x : String) (l : List String) : List String := if l.contains x then l else x :: l
def sErase (x : String) (l : List String) : List String := l.filter (· ≠ x)

/-! ## The recorded defects, as switches

The model is the code AS IT IS when every switch is `false`.  A switch set to `true` models the proposed
repair (`fixes/C11-*.patch`).  `Fixes.current` is computed from regenerated facts, so that the model follows
the source when a repair is applied. -/

structure Fixes where
  /-- `newStateFromNodeClaim` carries `podDisruptionCosts` -/
  costCarried : Bool := false
  /-- `VolumeUsage.Add` recomputes the union when a pod key is re-added -/
  volRebuild : Bool := false
  /-- `cleanupNode` drops the per-pod aggregates of a state node that keeps only its NodeClaim -/
  nodeGoneResets : Bool := false
  /-- `updateNodeUsageFromPod` forgets the old binding of a pod that is now unbound / bound to an untracked node -/
  rebindForgets : Bool := false
deriving Repr, DecidableEq

def Fixes.none : Fixes := {}
def Fixes.all : Fixes := { costCarried := true, volRebuild := true, nodeGoneResets := true, rebindForgets := true }

open Karp.Gen.ClusterStateFacts in
def Fixes.current : Fixes :=
  { costCarried := newStateFromNodeClaimFields.contains "podDisruptionCosts",
    volRebuild := volumeUsageAddCalls.contains "DeletePod",
    nodeGoneResets := cleanupNodeCalls.contains "NewNode",
    rebindForgets := podUsageCalls.contains "updateNodeUsageFromPodCompletion" }

/-! ## API objects (only what the cache reads) -/

structure NodeObj where
  name : String
  /-- `spec.providerID` (for a node without one that is not managed, `UpdateNode` stores the node name here) -/
  pid : String
  /-- label `karpenter.sh/nodepool` ("" = absent) -/
  pool : String
  reg : Bool
  init : Bool
  /-- label `node.kubernetes.io/instance-type` present -/
  it : Bool
  cap : Res
  /-- `metadata.deletionTimestamp` set -/
  del : Bool
  /-- CSINode drivers of the node: name, allocatable count (`none` = no allocatable) -/
  limits : List (String × Option Nat)
  /-- version tag (event index that wrote it) -/
  ver : Nat
deriving DecidableEq, Repr

structure ClaimObj where
  name : String
  pid : String
  pool : String
  cap : Res
  del : Bool
  /-- condition `InstanceTerminating` is True -/
  term : Bool
  /-- `nodeclaimutils.IsManaged` (nodeClassRef of this provider) -/
  managed : Bool
  ver : Nat
deriving DecidableEq, Repr

structure HostPort where
  /-- "" was normalised to "0.0.0.0" by `GetHostPorts` -/
  ip : String
  port : Nat
  proto : String
deriving DecidableEq, Repr

/-- (driver, "namespace/pvc") -/
abbrev Vol := String × String

structure PodObj where
  name : String
  node : String
  /-- `podutils.IsTerminal`: phase Succeeded or Failed -/
  terminal : Bool
  /-- `resources.RequestsForPods(pod)` (includes `pods: 1`) -/
  req : Res
  lim : Res
  /-- `podutils.IsOwnedByDaemonSet` -/
  ds : Bool
  /-- `disruptionutils.EvictionCost`, in units of 2^-27 -/
  cost : Int
  ports : List HostPort
  /-- `scheduling.GetVolumes` -/
  vols : List Vol
  ver : Nat
deriving DecidableEq, Repr

structure Api where
  nodes : Map NodeObj := []
  claims : Map ClaimObj := []
  pods : Map PodObj := []
deriving Repr

/-- `disruptionutils.EvictionCost` on the 2^-27 grid: `1 + deletionCost/2^27 + priority/2^25`, clamped to [-10, 10] -/
def costUnit : Int := 134217728
def evictionCost (deletionCost : Option Int) (priority : Option Int) : Int :=
  let c := costUnit + deletionCost.getD 0 + 4 * priority.getD 0
  if c < -10 * costUnit then -10 * costUnit else if c > 10 * costUnit then 10 * costUnit else c

/-! ## HostPortUsage -/

def HostPort.unspecified (p : HostPort) : Bool := p.ip = "0.0.0.0" || p.ip = "::"

/-- `HostPort.Matches` -/
def HostPort.matches (p q : HostPort) : Bool :=
  if p.proto ≠ q.proto then false
  else if p.port ≠ q.port then false
  else if p.ip ≠ q.ip && !p.unspecified && !q.unspecified then false
  else true

/-- `HostPortUsage.Conflicts(usedBy, ports) != nil` -/
def portsConflict (reserved : Map (List HostPort)) (usedBy : String) (ports : List HostPort) : Bool :=
  ports.any fun newEntry => reserved.any fun (podKey, entries) => entries.any fun existing =>
    newEntry.matches existing && podKey ≠ usedBy

/-! ## VolumeUsage -/

def volUnion (a b : List Vol) : List Vol := b.foldl (fun acc v => if acc.contains v then acc else acc ++ [v]) a

/-- number of distinct volumes of `driver` in `vols ∪ extra` -/
def volCount (vols extra : List Vol) (driver : String) : Nat :=
  ((volUnion vols extra).filter (fun v => v.1 = driver)).length

/-- `VolumeUsage.ExceedsLimits(extra) != nil`: some driver occurring in the union has a limit that is exceeded -/
def volExceeds (vols : List Vol) (limits : Map Nat) (extra : List Vol) : Bool :=
  (volUnion vols extra).any fun v =>
    match limits.get v.1 with
    | some l => decide (volCount vols extra v.1 > l)
    | none => false

/-! ## StateNode -/

structure SNode where
  node : Option NodeObj := none
  claim : Option ClaimObj := none
  dsReq : Map Res := []
  dsLim : Map Res := []
  podReq : Map Res := []
  podLim : Map Res := []
  /-- `podDisruptionCosts` -/
  costs : Map Int := []
  /-- `hostPortUsage.reserved` -/
  ports : Map (List HostPort) := []
  /-- `volumeUsage.podVolumes` -/
  volPods : Map (List Vol) := []
  /-- `volumeUsage.volumes` -/
  volumes : List Vol := []
  /-- `volumeUsage.limits` -/
  limits : Map Nat := []
  marked : Bool := false
  /-- `nominatedUntil` lies in the future (the model's clock does not advance) -/
  nominated : Bool := false
deriving Repr

/-- `NewNode()` -/
def SNode.new : SNode := {}

namespace SNode

def managed (s : SNode) : Bool := s.claim.isSome

def registered (s : SNode) : Bool :=
  if s.managed then (match s.node with | some n => n.reg | none => false) else true

def initialized (s : SNode) : Bool :=
  if s.managed then (match s.node with | some n => n.init | none => false) else true

/-- `Labels()[karpenter.sh/nodepool]` -/
def pool (s : SNode) : String :=
  match s.node, s.claim with
  | none, some c => c.pool
  | none, none => ""
  | some n, none => n.pool
  | some n, some c => if s.registered then n.pool else c.pool

/-- `Name()` -/
def name (s : SNode) : String :=
  match s.node, s.claim with
  | none, some c => c.name
  | none, none => ""
  | some n, none => n.name
  | some n, some c => if s.registered then n.name else c.name

/-- `ProviderID()` -/
def providerID (s : SNode) : String :=
  match s.node, s.claim with
  | some n, _ => n.pid
  | none, some c => c.pid
  | none, none => ""

/-- `Capacity()` -/
def capacity (s : SNode) : Res :=
  let base : Res :=
    match s.node, s.claim with
    | some n, some c => if !s.initialized then n.cap.fillZero c.cap else n.cap
    | none, some c => c.cap
    | some n, none => n.cap
    | none, none => Res.zero
  { base with nodes := 1 }

/-- `Deleted()` -/
def deleted (s : SNode) : Bool :=
  (match s.claim with | some c => c.del || c.term | none => false) ||
  (match s.node, s.claim with | some n, none => n.del | _, _ => false)

/-- `MarkedForDeletion()` -/
def markedForDeletion (s : SNode) : Bool := s.marked || s.deleted

/-- what `updateNodePoolResources` reads off one side: pool name and resources -/
def contrib (s : SNode) : String × Res :=
  if s.node.isSome || s.claim.isSome then
    (s.pool, if s.markedForDeletion then Res.zero else s.capacity)
  else ("", Res.zero)

/-- `VolumeUsage.Add` -/
def volAdd (fx : Fixes) (s : SNode) (key : String) (vols : List Vol) : SNode :=
  let vp := s.volPods.put key vols
  { s with volPods := vp, volumes := if fx.volRebuild then vp.vals.foldl volUnion [] else volUnion s.volumes vols }

/-- `VolumeUsage.DeletePod` -/
def volDelete (s : SNode) (key : String) : SNode :=
  let vp := s.volPods.erase key
  { s with volPods := vp, volumes := vp.vals.foldl volUnion [] }

/-- `updateForPod` (the last two fields are `VolumeUsage.Add`, see `volAdd`) -/
def updateForPod (fx : Fixes) (s : SNode) (p : PodObj) : SNode :=
  { s with
    podReq := s.podReq.put p.name p.req
    podLim := s.podLim.put p.name p.lim
    -- if it's a daemonset, we track what it has requested separately
    dsReq := if p.ds then s.dsReq.put p.name p.req else s.dsReq
    dsLim := if p.ds then s.dsLim.put p.name p.lim else s.dsLim
    -- only non-daemon pods with positive eviction cost contribute to the node's disruption cost
    costs := if p.ds then s.costs else (if p.cost > 0 then s.costs.put p.name p.cost else s.costs.erase p.name)
    ports := s.ports.put p.name p.ports
    volPods := (s.volAdd fx p.name p.vols).volPods
    volumes := (s.volAdd fx p.name p.vols).volumes }

/-- `cleanupForPod` (volPods / volumes are `VolumeUsage.DeletePod`, see `volDelete`) -/
def cleanupForPod (s : SNode) (key : String) : SNode :=
  { s with
    ports := s.ports.erase key
    volPods := (s.volDelete key).volPods
    volumes := (s.volDelete key).volumes
    podReq := s.podReq.erase key
    podLim := s.podLim.erase key
    dsReq := s.dsReq.erase key
    dsLim := s.dsLim.erase key
    costs := s.costs.erase key }

end SNode

/-! ## NodePoolState (the part `Cluster` drives) -/

structure PoolClaims where
  active : List String := []
  deleting : List String := []
  pending : List String := []
deriving Repr, DecidableEq

structure NPState where
  pools : Map PoolClaims := []
  ncToPool : Map String := []
deriving Repr

namespace NPState

def ensure (st : NPState) (np : String) : NPState :=
  if st.pools.has np then st else { st with pools := st.pools.put np {} }

def markActive (st : NPState) (np nc : String) : NPState :=
  let st := st.ensure np
  let p := st.pools.getD np {}
  { st with pools := st.pools.put np { active := sInsert nc p.active, deleting := sErase nc p.deleting, pending := sErase nc p.pending } }

def markDeleting (st : NPState) (np nc : String) : NPState :=
  let st := st.ensure np
  let p := st.pools.getD np {}
  { st with pools := st.pools.put np { active := sErase nc p.active, deleting := sInsert nc p.deleting, pending := sErase nc p.pending } }

def setMapping (st : NPState) (np nc : String) : NPState :=
  if np = "" || nc = "" then st
  else
    let st := st.ensure np
    { st with ncToPool := st.ncToPool.put nc np }

/-- `NodePoolState.UpdateNodeClaim` -/
def updateNodeClaim (st : NPState) (c : ClaimObj) (markedForDeletion : Bool) : NPState :=
  if c.pool = "" then st
  else
    let st := st.setMapping c.pool c.name
    if markedForDeletion then st.markDeleting c.pool c.name else st.markActive c.pool c.name

/-- `NodePoolState.Cleanup` -/
def cleanup (st : NPState) (nc : String) : NPState :=
  let np := st.ncToPool.getD nc ""
  let pools :=
    match st.pools.get np with
    | some p =>
      let p' : PoolClaims := { active := sErase nc p.active, deleting := sErase nc p.deleting, pending := sErase nc p.pending }
      if p'.active.isEmpty && p'.deleting.isEmpty then st.pools.erase np else st.pools.put np p'
    | none => st.pools
  { pools := pools, ncToPool := st.ncToPool.erase nc }

/-- `GetNodeCount` -/
def counts (st : NPState) (np : String) : Nat × Nat × Nat :=
  match st.pools.get np with
  | some p => (p.active.length, p.deleting.length, p.pending.length)
  | none => (0, 0, 0)

end NPState

/-! ## Cluster -/

structure Cluster where
  nodes : Map SNode := []
  bindings : Map String := []
  nodeNameToPid : Map String := []
  claimNameToPid : Map String := []
  poolRes : Map Res := []
  np : NPState := {}
deriving Repr

abbrev M := Except String

def nilDeref : String := "nil-deref"

namespace Cluster

/-- garbage collection of a pool key whose resources are all zero -/
def gcPool (pr : Map Res) (name : String) : Map Res :=
  if (pr.getD name Res.zero).isZero then pr.erase name else pr

/-- what `updateNodePoolResources` reads off one side (`none` = nil): pool name and resources -/
def sideOf : Option SNode → String × Res
  | some s => s.contrib
  | none => ("", Res.zero)

/-- the map update of `updateNodePoolResources`: `o` / `n` = (pool name, resources) of the old / new side -/
def poolUpdate (pr : Map Res) (o n : String × Res) : Map Res :=
  let pr := if n.1 ≠ "" && !pr.has n.1 then pr.put n.1 Res.zero else pr
  let pr := if o.1 ≠ "" && !o.2.isZero then pr.put o.1 ((pr.getD o.1 Res.zero).sub o.2) else pr
  let pr := if n.1 ≠ "" && !n.2.isZero then pr.put n.1 ((pr.getD n.1 Res.zero).add n.2) else pr
  gcPool (gcPool pr o.1) n.1

/-- `updateNodePoolResources(oldNode, newNode)` -/
def updateNodePoolResources (c : Cluster) (old new : Option SNode) : Cluster :=
  { c with poolRes := poolUpdate c.poolRes (sideOf old) (sideOf new) }

/-- `cleanupNodeClaim`, the part that detaches the NodeClaim from its state node `sn = c.nodes[id]` -/
def detachClaim (c : Cluster) (id : String) (sn : SNode) : Cluster :=
  if sn.node.isNone then
    { (c.updateNodePoolResources (some sn) none) with nodes := c.nodes.erase id }
  else
    let sn' := { sn with claim := none }
    { (c.updateNodePoolResources (some sn) (some sn')) with nodes := c.nodes.put id sn' }

/-- `cleanupNodeClaim`, the unconditional tail -/
def forgetClaim (c : Cluster) (name : String) : Cluster :=
  { c with claimNameToPid := c.claimNameToPid.erase name, np := c.np.cleanup name }

/-- `cleanupNodeClaim` (`c.nodes[id].Node` dereferences nil when the entry is missing) -/
def cleanupNodeClaim (c : Cluster) (name : String) : M Cluster :=
  match c.claimNameToPid.get name with
  | some id =>
    if id ≠ "" then
      match c.nodes.get id with
      | none => .error nilDeref
      | some sn => .ok ((c.detachClaim id sn).forgetClaim name)
    else .ok (c.forgetClaim name)
  | none => .ok (c.forgetClaim name)

/-- `cleanupNode`, the part that detaches the Node `name` from its state node `sn = c.nodes[id]` -/
def detachNode (fx : Fixes) (c : Cluster) (name id : String) (sn : SNode) : Cluster :=
  let c :=
    if sn.claim.isNone then
      { (c.updateNodePoolResources (some sn) none) with nodes := c.nodes.erase id }
    else
      let sn' : SNode :=
        if fx.nodeGoneResets then { claim := sn.claim, marked := sn.marked, nominated := sn.nominated }
        else { sn with node := none }
      { (c.updateNodePoolResources (some sn) (some sn')) with nodes := c.nodes.put id sn' }
  { c with nodeNameToPid := c.nodeNameToPid.erase name }

/-- `cleanupNode` -/
def cleanupNode (fx : Fixes) (c : Cluster) (name : String) : M Cluster :=
  match c.nodeNameToPid.get name with
  | some id =>
    if id ≠ "" then
      match c.nodes.get id with
      | none => .error nilDeref
      | some sn => .ok (c.detachNode fx name id sn)
    else .ok c
  | none => .ok c

/-- the StateNode `c.nodes[c.nodeNameToProviderID[nodeName]]` -/
def nodeByName (c : Cluster) (nodeName : String) : Option (String × SNode) :=
  let id := c.nodeNameToPid.getD nodeName ""
  (c.nodes.get id).map (fun sn => (id, sn))

/-- `cleanupOldBindings(pod)` -/
def cleanupOldBindings (c : Cluster) (p : PodObj) : Cluster :=
  match c.bindings.get p.name with
  | some oldName =>
    if oldName = p.node then c
    else
      match c.nodeByName oldName with
      | some (id, sn) => { c with nodes := c.nodes.put id (sn.cleanupForPod p.name), bindings := c.bindings.erase p.name }
      | none => c
  | none => c

/-- `updateNodeUsageFromPodCompletion(podKey)` -/
def podCompletion (c : Cluster) (key : String) : Cluster :=
  match c.bindings.get key with
  | none => c
  | some nodeName =>
    let c := { c with bindings := c.bindings.erase key }
    match c.nodeByName nodeName with
    | none => c
    | some (id, sn) => { c with nodes := c.nodes.put id (sn.cleanupForPod key) }

/-- `updateNodeUsageFromPod(pod)`; `false` = NotFound (the pod controller requeues) -/
def podUsage (fx : Fixes) (c : Cluster) (p : PodObj) : Cluster × Bool :=
  if p.node = "" then ((if fx.rebindForgets then c.podCompletion p.name else c), true)
  else
    match c.nodeByName p.node with
    | none =>
      let stale := match c.bindings.get p.name with | some oldName => oldName ≠ p.node | none => false
      ((if fx.rebindForgets && stale then c.podCompletion p.name else c), false)
    | some (id, sn) =>
      let c := { c with nodes := c.nodes.put id (sn.updateForPod fx p) }
      let c := c.cleanupOldBindings p
      ({ c with bindings := c.bindings.put p.name p.node }, true)

/-- `UpdatePod` -/
def updatePod (fx : Fixes) (c : Cluster) (p : PodObj) : Cluster × Bool :=
  if p.terminal then (c.podCompletion p.name, true) else c.podUsage fx p

/-- `DeletePod` -/
def deletePod (c : Cluster) (key : String) : Cluster := c.podCompletion key

/-- `populateResourceRequests`: the pods listed by `spec.nodeName`, non-terminal ones are added to `n` -/
def populate (fx : Fixes) (c : Cluster) (n : SNode) (nodeName : String) : List PodObj → Cluster × SNode
  | [] => (c, n)
  | p :: ps =>
    if p.node = nodeName && !p.terminal then
      let n := n.updateForPod fx p
      let c := c.cleanupOldBindings p
      let c := { c with bindings := c.bindings.put p.name p.node }
      populate fx c n nodeName ps
    else populate fx c n nodeName ps

/-- `populateVolumeLimits` (`AddLimit` per CSINode driver that has an allocatable count) -/
def limitsOf (node : NodeObj) (init : Map Nat) : Map Nat :=
  node.limits.foldl (fun m (d, n) => match n with | some n => m.put d n | none => m) init

/-- which fields the two constructors copy from the old StateNode: read from the regenerated literal tables -/
def carriedN (field : String) : Bool := Karp.Gen.ClusterStateFacts.newStateFromNodeFields.contains field
def carriedC (fx : Fixes) (field : String) : Bool :=
  Karp.Gen.ClusterStateFacts.newStateFromNodeClaimFields.contains field || (fx.costCarried && field = "podDisruptionCosts")

/-- the object `name` is known under another provider id than `pid` -/
def rekeyed (m : Map String) (name pid : String) : Bool :=
  match m.get name with
  | some id => decide (id ≠ pid)
  | none => false

/-- the StateNode literal of `newStateFromNode` (before the pods are added) -/
def nodeLiteral (node : NodeObj) (old : SNode) : SNode :=
  { node := some node,
    claim := if carriedN "NodeClaim" then old.claim else none,
    dsReq := if carriedN "daemonSetRequests" then old.dsReq else [],
    dsLim := if carriedN "daemonSetLimits" then old.dsLim else [],
    podReq := if carriedN "podRequests" then old.podReq else [],
    podLim := if carriedN "podLimits" then old.podLim else [],
    costs := if carriedN "podDisruptionCosts" then old.costs else [],
    ports := if carriedN "hostPortUsage" then old.ports else [],
    volPods := if carriedN "volumeUsage" then old.volPods else [],
    volumes := if carriedN "volumeUsage" then old.volumes else [],
    limits := limitsOf node (if carriedN "volumeUsage" then old.limits else []),
    marked := if carriedN "markedForDeletion" then old.marked else false,
    nominated := if carriedN "nominatedUntil" then old.nominated else false }

/-- the end of `newStateFromNode` and the two map writes of `UpdateNode` -/
def installNode (c : Cluster) (node : NodeObj) (old n : SNode) : Cluster :=
  let c := c.updateNodePoolResources (some old) (some n)
  { c with nodes := c.nodes.put node.pid n, nodeNameToPid := c.nodeNameToPid.put node.name node.pid }

/-- `newStateFromNode` followed by the two map writes of `UpdateNode` -/
def newStateFromNode (fx : Fixes) (c : Cluster) (api : Api) (node : NodeObj) : M Cluster :=
  let old := (c.nodes.get node.pid).getD SNode.new
  let cn := c.populate fx (nodeLiteral node old) node.name api.pods.vals
  -- the provider id of the node changed: the state node under the old id loses its Node
  match (if rekeyed cn.1.nodeNameToPid node.name node.pid then cn.1.cleanupNode fx node.name else .ok cn.1) with
  | .error e => .error e
  | .ok c2 => .ok (c2.installNode node old cn.2)

/-- `UpdateNode` -/
def updateNode (fx : Fixes) (c : Cluster) (api : Api) (node : NodeObj) : M Cluster :=
  let managed := node.pool ≠ ""
  if node.pid = "" && managed then .ok c
  else if managed && !node.it && !node.init then .ok c
  else c.newStateFromNode fx api (if node.pid = "" then { node with pid := node.name } else node)

/-- `DeleteNode` -/
def deleteNode (fx : Fixes) (c : Cluster) (name : String) : M Cluster := c.cleanupNode fx name

/-- the StateNode literal of `newStateFromNodeClaim` -/
def claimLiteral (fx : Fixes) (claim : ClaimObj) (old : SNode) : SNode :=
  { node := if carriedC fx "Node" then old.node else none, claim := some claim,
    dsReq := if carriedC fx "daemonSetRequests" then old.dsReq else [],
    dsLim := if carriedC fx "daemonSetLimits" then old.dsLim else [],
    podReq := if carriedC fx "podRequests" then old.podReq else [],
    podLim := if carriedC fx "podLimits" then old.podLim else [],
    costs := if carriedC fx "podDisruptionCosts" then old.costs else [],
    ports := if carriedC fx "hostPortUsage" then old.ports else [],
    volPods := if carriedC fx "volumeUsage" then old.volPods else [],
    volumes := if carriedC fx "volumeUsage" then old.volumes else [],
    limits := if carriedC fx "volumeUsage" then old.limits else [],
    marked := if carriedC fx "markedForDeletion" then old.marked else false,
    nominated := if carriedC fx "nominatedUntil" then old.nominated else false }

/-- `newStateFromNodeClaim` and `c.nodes[pid] = n` (only for a claim with a provider id) -/
def installClaim (fx : Fixes) (c : Cluster) (claim : ClaimObj) : M Cluster :=
  let old := (c.nodes.get claim.pid).getD SNode.new
  let n := claimLiteral fx claim old
  -- the provider id of the claim changed: the state node under the old id loses its NodeClaim
  match (if rekeyed c.claimNameToPid claim.name claim.pid then c.cleanupNodeClaim claim.name else .ok c) with
  | .error e => .error e
  | .ok c2 =>
    let c3 := c2.updateNodePoolResources (some old) (some n)
    .ok { c3 with nodes := c3.nodes.put claim.pid n }

/-- the rest of `UpdateNodeClaim`: NodePoolState and the name map -/
def recordClaim (c : Cluster) (claim : ClaimObj) : Cluster :=
  let markedForDel := match c.nodes.get claim.pid with | some n => n.markedForDeletion | none => false
  { c with np := c.np.updateNodeClaim claim markedForDel,
           claimNameToPid := c.claimNameToPid.put claim.name claim.pid }

/-- `UpdateNodeClaim` -/
def updateNodeClaim (fx : Fixes) (c : Cluster) (claim : ClaimObj) : M Cluster :=
  match (if claim.pid ≠ "" then c.installClaim fx claim else .ok c) with
  | .error e => .error e
  | .ok c => .ok (c.recordClaim claim)

/-- `DeleteNodeClaim` -/
def deleteNodeClaim (c : Cluster) (name : String) : M Cluster := c.cleanupNodeClaim name

/-- `MarkForDeletion(pid)` -/
def markForDeletion (c : Cluster) (pid : String) : Cluster :=
  match c.nodes.get pid with
  | none => c
  | some sn =>
    let sn' := { sn with marked := true }
    let c := { (c.updateNodePoolResources (some sn) (some sn')) with nodes := c.nodes.put pid sn' }
    match sn'.claim with
    | some cl => { c with np := c.np.markDeleting cl.pool cl.name }
    | none => c

/-- `UnmarkForDeletion(pid)` -/
def unmarkForDeletion (c : Cluster) (pid : String) : Cluster :=
  match c.nodes.get pid with
  | none => c
  | some sn =>
    let sn' := { sn with marked := false }
    let c := { (c.updateNodePoolResources (some sn) (some sn')) with nodes := c.nodes.put pid sn' }
    match sn'.claim with
    | some cl => if !cl.del then { c with np := c.np.markActive cl.pool cl.name } else c
    | none => c

/-- `NominateNodeForPod(pid)` -/
def nominate (c : Cluster) (pid : String) : Cluster :=
  match c.nodes.get pid with
  | none => c
  | some sn => { c with nodes := c.nodes.put pid { sn with nominated := true } }

end Cluster

/-! ## Histories -/

inductive Event
  | setNode (n : NodeObj)
  | delNode (name : String)
  | setClaim (c : ClaimObj)
  | delClaim (name : String)
  | setPod (p : PodObj)
  | delPod (name : String)
  /-- the informer controller of the kind reconciles the key: it reads the API as it is now -/
  | recNode (name : String)
  | recClaim (name : String)
  | recPod (name : String)
  | mark (pid : String)
  | unmark (pid : String)
  | nominate (pid : String)
deriving Repr

def Event.isApi : Event → Bool
  | .setNode _ | .delNode _ | .setClaim _ | .delClaim _ | .setPod _ | .delPod _ => true
  | _ => false

def Api.step (a : Api) : Event → Api
  | .setNode n => { a with nodes := a.nodes.put n.name n }
  | .delNode k => { a with nodes := a.nodes.erase k }
  | .setClaim c => { a with claims := a.claims.put c.name c }
  | .delClaim k => { a with claims := a.claims.erase k }
  | .setPod p => { a with pods := a.pods.put p.name p }
  | .delPod k => { a with pods := a.pods.erase k }
  | _ => a

/-- reconcile result class observed by the harness for node / pod reconciles -/
inductive RecResult | ok | requeue | none
deriving Repr, DecidableEq

def withResult (r : RecResult) : M Cluster → M (Cluster × RecResult)
  | .ok c => .ok (c, r)
  | .error e => .error e

/-- one event against the cache; `api` is the API state AFTER the event's own API change (if any) -/
def Cluster.step (fx : Fixes) (c : Cluster) (api : Api) : Event → M (Cluster × RecResult)
  | .recNode name =>
    match api.nodes.get name with
    | none => withResult .ok (c.deleteNode fx name)
    | some n => withResult .ok (c.updateNode fx api n)
  | .recClaim name =>
    match api.claims.get name with
    | none => withResult .none (c.deleteNodeClaim name)
    | some cl => if !cl.managed then .ok (c, .none) else withResult .none (c.updateNodeClaim fx cl)
  | .recPod name =>
    match api.pods.get name with
    | none => .ok (c.deletePod name, .ok)
    | some p => .ok ((c.updatePod fx p).1, if (c.updatePod fx p).2 then .ok else .requeue)
  | .mark pid => .ok (c.markForDeletion pid, .none)
  | .unmark pid => .ok (c.unmarkForDeletion pid, .none)
  | .nominate pid => .ok (c.nominate pid, .none)
  | _ => .ok (c, .none)

/-- a whole history from the given state; stops at the first panic -/
def run (fx : Fixes) (c : Cluster) (api : Api) : List Event → M (Cluster × Api)
  | [] => .ok (c, api)
  | e :: es =>
    match c.step fx (api.step e) e with
    | .error err => .error err
    | .ok (c', _) => run fx c' (api.step e) es

end Karp.ClusterState
