/-
Model of the loop of `NodeClaim.CanAdd` over the pod's volume topology alternatives.  `canAdd` is the loop AS IT WAS at the
pinned commit (pkg/controllers/provisioning/scheduling/nodeclaim.go); since fix 4e92d1703 in /repo the code is `canAddFixed`
(a ReservedOfferingError is kept), which `c17.pass` observes through the strict-mode clause of the specification:

    var lastErr error
    for _, volReqs := range volumeAlternatives {
        reqs, its, ofs, result, err := n.tryVolumeAlternative(...)
        if err != nil { lastErr = err; continue }
        return reqs, its, ofs, result, nil
    }
    return nil, nil, nil, nil, lastErr

Per alternative the outcome of `tryVolumeAlternative` is a parameter: `ok`, a plain failure, or the
ReservedOfferingError of `offeringsToReserve` (strict mode: compatible reserved offerings exist, none can be reserved).
The first alternative that succeeds wins; if none does the error of the LAST alternative is what the caller sees
(`Scheduler.addToNewNodeClaim` / `trySchedule` test it with `IsReservedOfferingError`).  A pod without volume requirements
has the single alternative `nil`.  Core Lean only.
-/
import Karp.Model.FirstSuccess

namespace Karp.VolumeAlternatives
open Karp.FirstSuccess

/-- the loop, started with `lastErr` -/
def canAddFrom : Outcome → List Outcome → Outcome
  | last, [] => last
  | _, .ok :: _ => .ok
  | _, e :: rest => canAddFrom e rest

/-- `NodeClaim.CanAdd` over the alternatives (never empty: `[nil]` stands in for "no volume requirements") -/
def canAdd (alts : List Outcome) : Outcome := canAddFrom .fail alts

/-- the code since fix 4e92d1703 (fixes/C17-volume-alternative-reserved-error.patch): a ReservedOfferingError is not
    overwritten by the plain error of a later alternative -/
def canAddFromFixed : Outcome → List Outcome → Outcome
  | last, [] => last
  | _, .ok :: _ => .ok
  | last, e :: rest => canAddFromFixed (if last == .reserved then .reserved else e) rest

def canAddFixed (alts : List Outcome) : Outcome := canAddFromFixed .fail alts

end Karp.VolumeAlternatives
