/-
Model of `pkg/controllers/state/statenodepool.go` (`state.NodePoolState`), the bookkeeping used by
static NodePools: per pool the sets Active / Deleting / PendingDisruption of NodeClaim names, the
NodeClaim → NodePool mapping and the per-pool *reserved* counter.

Core Lean only.  Every exported Go method takes the mutex for its whole body, so a method is one
atomic step and an interleaving of concurrent reconciles is simply a sequence of steps (`Op`).

Names are numbers; `0` stands for Go's empty string (what a missing map key / a missing label reads as).
Go maps are functions `Name → Option _`; `sets.Set[string]` is a duplicate-free list (only its length
and membership are observable).

`Variant.asIs` is the code at the pinned commit.  `Variant.repaired` is the code with
`fixes/C03-poolstate-gc.patch` applied (garbage-collect a pool entry only when it is completely idle;
`ReleaseNodeCount` tolerates a missing entry); the full-strength theorem is proved for it, the
`_partial` theorem and the negation witnesses are about `asIs`.
-/
import Karp.Gen.C03Pool

namespace Karp.PoolState

abbrev Name := Nat

/-- `NodeClaimState` -/
structure Entry where
  active   : List Name := []
  deleting : List Name := []
  pending  : List Name := []
deriving Repr, DecidableEq

/-- `sets.Set.Insert` -/
def sInsert (l : List Name) (x : Name) : List Name := if x ∈ l then l else l ++ [x]
/-- `sets.Set.Delete` -/
def sDelete (l : List Name) (x : Name) : List Name := l.filter (fun y => y != x)

def Entry.all (e : Entry) : List Name := e.active ++ e.deleting ++ e.pending
def Entry.total (e : Entry) : Nat := e.active.length + e.deleting.length + e.pending.length

structure State where
  /-- `nodePoolNameToNodeClaimState` -/
  pools   : Name → Option Entry
  /-- `nodeClaimNameToNodePoolName`; a missing key reads as `""` = 0 (values are never `""`) -/
  mapping : Name → Name
  /-- `nodePoolNameToNodePoolLimit`: the reserved counter (`*atomic.Int64`); `none` = no entry (nil pointer) -/
  limits  : Name → Option Int

def upd {α : Type} (f : Name → α) (k : Name) (v : α) : Name → α := fun x => if x = k then v else f x

@[simp] theorem upd_same {α : Type} (f : Name → α) (k : Name) (v : α) : upd f k v k = v := by simp [upd]
theorem upd_other {α : Type} (f : Name → α) (k x : Name) (v : α) (h : x ≠ k) : upd f k v x = f x := by simp [upd, h]

/-- `NewNodePoolState` / `Reset` -/
def State.init : State := { pools := fun _ => none, mapping := fun _ => 0, limits := fun _ => none }

inductive Variant | asIs | repaired
deriving Repr, DecidableEq

/-- `ensureNodePoolEntry`: the two maps are filled independently -/
def ensure (s : State) (np : Name) : State :=
  { s with
    pools  := match s.pools np with | some _ => s.pools | none => upd s.pools np (some {})
    limits := match s.limits np with | some _ => s.limits | none => upd s.limits np (some 0) }

def entryOf (s : State) (np : Name) : Entry := (s.pools np).getD {}
def reservedOf (s : State) (np : Name) : Int := (s.limits np).getD 0

/-- `SetNodeClaimMapping` -/
def setMapping (s : State) (np nc : Name) : State :=
  if np = 0 ∨ nc = 0 then s
  else
    let s1 := ensure s np
    { s1 with mapping := upd s1.mapping nc np }

/-- `MarkNodeClaimActive` -/
def markActive (s : State) (np nc : Name) : State :=
  let s1 := ensure s np
  let e := entryOf s1 np
  { s1 with pools := upd s1.pools np (some
      { active := sInsert e.active nc, deleting := sDelete e.deleting nc, pending := sDelete e.pending nc }) }

/-- `MarkNodeClaimDeleting` -/
def markDeleting (s : State) (np nc : Name) : State :=
  let s1 := ensure s np
  let e := entryOf s1 np
  { s1 with pools := upd s1.pools np (some
      { active := sDelete e.active nc, deleting := sInsert e.deleting nc, pending := sDelete e.pending nc }) }

/-- `MarkNodeClaimPendingDisruption` -/
def markPending (s : State) (np nc : Name) : State :=
  let s1 := ensure s np
  let e := entryOf s1 np
  { s1 with pools := upd s1.pools np (some
      { active := sDelete e.active nc, deleting := sDelete e.deleting nc, pending := sInsert e.pending nc }) }

/-- the garbage-collection condition inside `Cleanup`, for a condition that requires the sets `sets`
    (0 = Active, 1 = Deleting, 2 = PendingDisruption) to be empty and, if `chkReserved`, no reservation -/
def gcCondOf (sets : List Nat) (chkReserved : Bool) (e : Entry) (reserved : Option Int) : Bool :=
  (!sets.contains 0 || e.active.length == 0) && (!sets.contains 1 || e.deleting.length == 0) &&
  (!sets.contains 2 || e.pending.length == 0) && (!chkReserved || reserved.getD 0 == 0)

/-- as is:     what the source says now (regenerated: `Karp.Gen.C03Pool.gcEmptySets`, `gcChecksReserved`; at the
               pinned commit `npState.Active.Len() == 0 && npState.Deleting.Len() == 0`);
    repaired:  all three sets empty and no reservation outstanding -/
def gcCond : Variant → Entry → Option Int → Bool
  | .asIs => gcCondOf Karp.Gen.C03Pool.gcEmptySets Karp.Gen.C03Pool.gcChecksReserved
  | .repaired => gcCondOf [0, 1, 2] true

/-- `Cleanup` -/
def cleanup (v : Variant) (s : State) (nc : Name) : State :=
  let np := s.mapping nc
  let s1 : State :=
    match s.pools np with
    | some e =>
      let e' : Entry := { active := sDelete e.active nc, deleting := sDelete e.deleting nc, pending := sDelete e.pending nc }
      if gcCond v e' (s.limits np) then
        { s with pools := upd s.pools np none, limits := upd s.limits np none }
      else
        { s with pools := upd s.pools np (some e') }
    | none => s
  { s1 with mapping := upd s1.mapping nc 0 }

/-- `nodeCounts` / `GetNodeCount` -/
def counts (s : State) (np : Name) : Nat × Nat × Nat :=
  match s.pools np with
  | some e => (e.active.length, e.deleting.length, e.pending.length)
  | none => (0, 0, 0)

/-- `ReserveNodeCount` (the compare-and-swap loop always succeeds at the first attempt: the mutex is held) -/
def reserve (s : State) (np : Name) (limit wanted : Int) : State × Int :=
  let s1 := ensure s np
  let c := counts s1 np            -- active, deleting, pendingdisruption
  let cur := reservedOf s1 np
  let remaining := limit - ((c.1 + c.2.1 + c.2.2 : Nat) : Int) - cur
  if remaining < 0 then (s1, 0)
  else
    let g := if wanted > remaining then remaining else wanted
    ({ s1 with limits := upd s1.limits np (some (cur + g)) }, g)

/-- `ReleaseNodeCount`; `none` = nil-pointer dereference (`n.nodePoolNameToNodePoolLimit[npName].Load()` on a
    missing entry) -/
def release (v : Variant) (s : State) (np : Name) (k : Int) : Option State :=
  match s.limits np with
  | none => match v with
    | .asIs => if Karp.Gen.C03Pool.releaseGuardsMissingEntry then some s else none
    | .repaired => some s
  | some cur => some { s with limits := upd s.limits np (some (if cur - k < 0 then 0 else cur - k)) }

/-- `UpdateNodeClaim(nodeClaim, markedForDeletion)` with `np` = the NodeClaim's nodepool label -/
def update (s : State) (np nc : Name) (marked : Bool) : State :=
  if np = 0 then s
  else
    let s1 := setMapping s np nc
    if marked then markDeleting s1 np nc else markActive s1 np nc

/-! ### Op sequences -/

inductive Op
  | setMapping (np nc : Name)
  | markActive (np nc : Name)
  | markDeleting (np nc : Name)
  | markPending (np nc : Name)
  | cleanup (nc : Name)
  | count (np : Name)
  | reserve (np : Name) (limit wanted : Int)
  | release (np : Name) (k : Int)
  | update (np nc : Name) (marked : Bool)
  | reset
deriving Repr, DecidableEq

inductive Out
  | unit
  | counts (a d p : Nat)
  | grant (g : Int)
  | panic
deriving Repr, DecidableEq

def step (v : Variant) (s : State) : Op → State × Out
  | .setMapping np nc => (setMapping s np nc, .unit)
  | .markActive np nc => (markActive s np nc, .unit)
  | .markDeleting np nc => (markDeleting s np nc, .unit)
  | .markPending np nc => (markPending s np nc, .unit)
  | .cleanup nc => (cleanup v s nc, .unit)
  | .count np => (s, .counts (counts s np).1 (counts s np).2.1 (counts s np).2.2)
  | .reserve np limit wanted => ((reserve s np limit wanted).1, .grant (reserve s np limit wanted).2)
  | .release np k =>
    match release v s np k with
    | some s' => (s', .unit)
    | none => (s, .panic)          -- the deferred Unlock runs; nothing was modified
  | .update np nc marked => (update s np nc marked, .unit)
  | .reset => (State.init, .unit)

def run (v : Variant) (s : State) : List Op → State
  | [] => s
  | op :: ops => run v (step v s op).1 ops

def observations (v : Variant) (s : State) : List Op → List Out
  | [] => []
  | op :: ops => (step v s op).2 :: observations v (step v s op).1 ops

/-! ### Where the code at the pinned commit loses information

`lossy s op` holds when, in state `s`, the step `op` of the code *as it is* either garbage-collects a
pool entry that still carries PendingDisruption NodeClaims or an outstanding reservation, or
dereferences a missing reserved counter.  These are exactly the steps on which `asIs` and `repaired`
differ (`step_agree`). -/

def lossy (s : State) : Op → Bool
  | .cleanup nc =>
    match s.pools (s.mapping nc) with
    | some e =>
      let e' : Entry := { active := sDelete e.active nc, deleting := sDelete e.deleting nc, pending := sDelete e.pending nc }
      gcCond .asIs e' (s.limits (s.mapping nc)) && !gcCond .repaired e' (s.limits (s.mapping nc))
    | none => false
  | .release np _ => (s.limits np).isNone && !Karp.Gen.C03Pool.releaseGuardsMissingEntry
  | _ => false

/-- no step of the run (of the code as it is) is lossy -/
def safeTrace (s : State) : List Op → Bool
  | [] => true
  | op :: ops => !lossy s op && safeTrace (step .asIs s op).1 ops

/-! ### The static controllers' decisions (pure parts of their `Reconcile`) -/

/-- `static/provisioning` `Reconcile`: `none` = nothing to do (`running + pendingDisruption ≥ replicas`);
    `some w` = call `ReserveNodeCount(np, limit, w)` with `w = replicas - running` -/
def provisionWanted (running pending : Nat) (replicas : Int) : Option Int :=
  if (running : Int) + (pending : Int) ≥ replicas then none else some (replicas - running)

/-- `static/deprovisioning` `Reconcile`: number of NodeClaims to delete (`running - replicas`, only if positive) -/
def deprovisionCount (running : Nat) (replicas : Int) : Nat :=
  if (running : Int) - replicas ≤ 0 then 0 else ((running : Int) - replicas).toNat

/-- the node limit a static NodePool passes to `ReserveNodeCount`: `limits.nodes` or `math.MaxInt64` -/
def maxInt64 : Int := 9223372036854775807
def nodeLimit (l : Option Int) : Int := l.getD maxInt64

end Karp.PoolState
