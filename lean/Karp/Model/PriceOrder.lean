/-
Model of the price ranking in `pkg/cloudprovider/types.go`
(`InstanceTypes.OrderByPrice`, `InstanceTypes.Truncate`, `Offerings.Available/Compatible/Cheapest`)
and of the truncation step of `NodeClaimTemplate.ToNodeClaim`
(pkg/controllers/provisioning/scheduling/nodeclaimtemplate.go).

Prices are `float64` in the code and only compared; the model uses `Nat` on the grid price×1024,
`math.MaxFloat64` ("no compatible available offering") is `none`.
`MaxInstanceTypes` comes from the regenerated `Karp.Gen.C19Facts`.
Core Lean only.
-/
import Karp.Gen.C19Facts
import Karp.Model.WeightOrder

namespace Karp.PriceOrder
open Karp.WeightOrder

/-- node-selector operators that occur in the requirements the ranking looks at -/
inductive Op | isIn | notIn | exists_ | doesNotExist
deriving Repr, DecidableEq

/-- one `scheduling.Requirement` on a label key (no numeric bounds; those belong to C12) -/
structure Req where
  key  : String
  op   : Op
  vals : List String
deriving Repr, DecidableEq

/-- `Requirement.Has(v)` for the four set operators -/
def Req.has (r : Req) (v : String) : Bool :=
  match r.op with
  | .isIn => r.vals.contains v
  | .notIn => !r.vals.contains v
  | .exists_ => true
  | .doesNotExist => false

/-- an `Offering`: its requirements are exactly `capacity-type In [ct]`, `zone In [zone]`
    (and for reserved offerings a reservation id, which the ranking never constrains) -/
structure Offering where
  zone      : String
  ct        : String
  price     : Nat
  available : Bool
deriving Repr, DecidableEq

def zoneKey : String := "topology.kubernetes.io/zone"
def ctKey : String := "karpenter.sh/capacity-type"

/-- `reqs.IsCompatible(of.Requirements, AllowUndefinedWellKnownLabels)` for such an offering:
    both keys are well known (never "undefined"), and `Intersects` only looks at keys present on both
    sides; the incoming side is `In [v]`, so the check per shared key is `existing.Has(v)`.
    Several entries for one key are an intersection (`Requirements.Add`). -/
def offeringCompat (reqs : List Req) (o : Offering) : Bool :=
  reqs.all (fun r =>
    if r.key = zoneKey then r.has o.zone
    else if r.key = ctKey then r.has o.ct
    else true)

structure IType where
  name      : String
  offerings : List Offering
deriving Repr, DecidableEq

/-- the loop inside the `less` closure of `OrderByPrice`:
    `p := MaxFloat64; for of: if of.Available && compatible && of.Price < p { p = of.Price }` -/
def minPriceLoop (reqs : List Req) : Option Nat → List Offering → Option Nat
  | acc, [] => acc
  | acc, o :: os =>
    let acc' :=
      if o.available && offeringCompat reqs o &&
          (match acc with | none => true | some p => decide (o.price < p)) then some o.price else acc
    minPriceLoop reqs acc' os

def effPrice (reqs : List Req) (t : IType) : Option Nat := minPriceLoop reqs none t.offerings

/-- `iPrice < jPrice` with `none` = `math.MaxFloat64` -/
def priceLt : Option Nat → Option Nat → Bool
  | some a, some b => decide (a < b)
  | some _, none => true
  | none, _ => false

/-- the `less` closure of `OrderByPrice` -/
def cheaper (reqs : List Req) (a b : IType) : Bool := priceLt (effPrice reqs a) (effPrice reqs b)

/-- one possible result of `OrderByPrice` (the sort is unstable: any `allowedSort` output may occur) -/
def orderByPrice (reqs : List Req) (its : List IType) : List IType := sortBy (cheaper reqs) its

/-- `lo.Slice(xs, 0, n)`: the first `n` elements (all of them when `n ≥ len`; none when `n ≤ 0`) -/
def sliceTo (n : Int) (l : List α) : List α := l.take n.toNat

/-- `Offerings.Available().Compatible(reqs).Cheapest()`: price of the first minimum, `none` on empty -/
def cheapestLoop : Option Nat → List Offering → Option Nat
  | acc, [] => acc
  | none, o :: os => cheapestLoop (some o.price) os
  | some p, o :: os => cheapestLoop (if o.price < p then some o.price else some p) os

def cheapestAvailableCompatible (reqs : List Req) (ofs : List Offering) : Option Nat :=
  cheapestLoop none ((ofs.filter (·.available)).filter (offeringCompat reqs))

/-- `MostExpensive` of the same filtered list -/
def dearestLoop : Option Nat → List Offering → Option Nat
  | acc, [] => acc
  | none, o :: os => dearestLoop (some o.price) os
  | some p, o :: os => dearestLoop (if p < o.price then some o.price else some p) os

def dearestAvailableCompatible (reqs : List Req) (ofs : List Offering) : Option Nat :=
  dearestLoop none ((ofs.filter (·.available)).filter (offeringCompat reqs))

/-- `SatisfiesMinValues(reqs)` when the only minValues sits on the instance-type key and the type names are
    distinct: walking the list, the requirement is met as soon as `m` names were seen; an empty list never
    fails (the loop body never runs).  `true` = an error is returned. -/
def minValuesViolated (minTypes : Option Nat) (kept : List IType) : Bool :=
  match minTypes with
  | none => false
  | some m => !kept.isEmpty && decide (kept.length < m)

/-- `Truncate` returns an error (and the untruncated, price-ordered list) iff the policy is not BestEffort and
    the truncated list violates minValues -/
def truncateFails (minTypes : Option Nat) (bestEffort : Bool) (kept : List IType) : Bool :=
  !bestEffort && minValuesViolated minTypes kept

/-- `MaxInstanceTypes` (a package variable, 600 in the source) -/
def maxInstanceTypes : Nat := Karp.Gen.C19Facts.maxInstanceTypes

/-- the relation for `OrderByPrice` followed by `lo.Slice(…, 0, n)`: `kept` is the `n`-prefix of some
    sorted permutation `sorted` of the options -/
def allowedTruncation (reqs : List Req) (n : Int) (its sorted kept : List IType) : Bool :=
  allowedSort (cheaper reqs) its sorted && kept == sliceTo n sorted

/-- `ToNodeClaim` for a dynamic pool: names of the first `MaxInstanceTypes` options by price;
    for a static pool no instance-type requirement is injected (`none`) -/
def toNodeClaimTypes (static : Bool) (reqs : List Req) (maxTypes : Int) (its : List IType) : Option (List String) :=
  if static then none else some ((sliceTo maxTypes (orderByPrice reqs its)).map (·.name))

end Karp.PriceOrder
