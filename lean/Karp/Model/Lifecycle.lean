/-
Model of the NodeClaim lifecycle controller, `pkg/controllers/nodeclaim/lifecycle`:
`controller.go` (`Controller.Reconcile`: finalizer patch, the four sub-reconcilers over one in-memory
NodeClaim, metadata patch, status patch), `launch.go` (`Launch.Reconcile`, the UID-keyed launch cache,
`launchNodeClaim`), `registration.go`, `initialization.go`, `liveness.go`.

Core Lean only.  Constants and tables come from the regenerated `Karp.Gen.Lifecycle`.

Conventions
* one NodeClaim (the launch cache is keyed by UID, the sub-reconcilers touch nothing shared between
  NodeClaims except the NodePool health tracker, which is C20's subject and not modelled here);
* every API write / provider call is a parameter: `Faults` (an injected error class per call site) and
  `CreateOutcome`; without an injected fault the call has its *natural* outcome on the modelled API
  server (NotFound when the object is gone, Conflict for an optimistic-lock patch of a stale copy);
* the informer cache may lag: `World.views` are the older copies of the NodeClaim that may still be
  handed to `Reconcile` (newest first).  Views never go backwards (a reconcile that was handed a copy
  drops everything older) — that is the behaviour of a watch-fed cache;
* time is whole seconds since the NodeClaim's creation (`metav1.Time` serialises to seconds);
* a taint is identified by key and effect (`Taint.MatchTaint`, which is all the lifecycle code ever uses to tell
  taints apart); its value and `timeAdded` are carried along unchanged — a Node never holds two taints with the
  same key and effect (API validation);
* the Node's `Ready` condition is four-valued (`NodeReady`: never posted, `Unknown`, `False`, `True`); Nodes that do
  not carry the instance's provider id are not part of the world (the lifecycle never looks at them — the harness
  puts such Nodes into the cluster and requires that they are left alone).
-/
import Karp.Gen.Lifecycle

namespace Karp.Lifecycle
open Karp.Gen.Lifecycle

/-! ## Vocabulary -/

/-- `corev1.Taint`: key and effect identify it (`Taint.MatchTaint`); `value` and `timeAdded` ride along — a
    kubelet started with `--register-with-taints=key=value:effect`, the cloud controller manager and the node
    lifecycle controller all write taints that carry a value and / or a `timeAdded` stamp -/
structure Taint where
  key : String
  effect : String
  value : String := ""
  /-- `timeAdded` (opaque; "" = nil) -/
  stamp : String := ""
deriving Repr, DecidableEq

/-- `Taint.MatchTaint`: same key and effect; value and `timeAdded` are not compared -/
def Taint.matches (a b : Taint) : Bool := a.key == b.key && a.effect == b.effect

/-- some taint of the list matches `t` -/
def hasMatch (ts : List Taint) (t : Taint) : Bool := ts.any (fun x => t.matches x)

/-- `v1.UnregisteredNoExecuteTaint` -/
def unregistered : Taint := { key := unregisteredTaint.1, effect := unregisteredTaint.2 }

/-- none of the taints is the unregistered taint (by key and effect) -/
abbrev cleanTaints (ts : List Taint) : Prop := ∀ t ∈ ts, t.matches unregistered = false

/-- `strings.HasPrefix` (on characters; structurally recursive so that it also reduces inside proofs) -/
def hasPrefix (p s : String) : Bool := p.toList.isPrefixOf s.toList

/-- `scheduling.IsKnownEphemeralTaint` -/
def isKnownEphemeral (t : Taint) : Bool :=
  knownEphemeralTaints.any (fun p => p.1 == t.key && p.2 == t.effect) ||
  knownEphemeralTaintKeyPrefixes.any (fun p => hasPrefix p t.key)

/-- `scheduling.Taints.Merge` -/
def mergeTaints (ts w : List Taint) : List Taint :=
  w.foldl (fun acc t => if hasMatch acc t then acc else acc ++ [t]) ts

inductive Tri | unknown | true_ | false_
deriving Repr, DecidableEq

/-- the Node's `Ready` condition: the kubelet may not have posted it yet (`absent`: `GetCondition` then returns the
    zero condition, status ""), the node lifecycle controller sets it to `Unknown` when the kubelet stops reporting -/
inductive NodeReady | absent | unknown | false_ | true_
deriving Repr, DecidableEq

/-- what `formatTaint` prints into a condition message: key, value, effect — not `timeAdded` -/
def Taint.shown (t : Taint) : Taint := { t with stamp := "" }

/-- condition reasons the lifecycle controller writes; where the message names an object it is part of the
    reason here (the message takes part in "did the NodeClaim change") -/
inductive Reason
  | awaiting | launched | launchFailed | custom | nodeNotFound | multipleNodes | registered
  | nodeNotReady | startupTaintsExist (t : Taint) | ephemeralTaintsExist (t : Taint)
  | resourceNotRegistered | initialized
deriving Repr, DecidableEq

structure Cond where
  status : Tri := .unknown
  reason : Reason := .awaiting
  /-- lastTransitionTime -/
  ltt : Nat := 0
deriving Repr, DecidableEq

/-- `ConditionSet.Set`: the transition time moves only when the status changes -/
def Cond.set (c : Cond) (st : Tri) (r : Reason) (now : Nat) : Cond :=
  { status := st, reason := r, ltt := if c.status = st then c.ltt else now }

/-- `status.conditions` as one JSON-merge-patch unit (a list is replaced as a whole).  `init = false`: the list
    is still empty; `StatusConditions()` then initialises every condition to Unknown/AwaitingReconciliation with
    the creation timestamp, which is what `l r i` hold by default. -/
structure Conds where
  init : Bool := false
  l : Cond := {}
  r : Cond := {}
  i : Cond := {}
deriving Repr, DecidableEq

/-- one copy of the NodeClaim object -/
structure Claim where
  /-- the object exists (false: it has been removed from the API server) -/
  present : Bool := true
  finalizer : Bool := false
  deleting : Bool := false
  conds : Conds := {}
  /-- `status.providerID` set -/
  providerID : Bool := false
  /-- provider-resolved labels present in `metadata.labels` -/
  provLabels : Bool := false
  /-- `status.nodeName` set -/
  nodeName : Bool := false
deriving Repr, DecidableEq

structure Node where
  taints : List Taint := []
  finalizer : Bool := false
  ownerRef : Bool := false
  /-- the NodeClaim's own labels are on the node -/
  userLabels : Bool := false
  /-- the provider-resolved labels are on the node -/
  provLabels : Bool := false
  regLabel : Bool := false
  initLabel : Bool := false
  /-- `karpenter.sh/do-not-sync-taints: "true"` -/
  doNotSync : Bool := false
  /-- `status.conditions[type=Ready].status` -/
  readyCond : NodeReady := .absent
  /-- allocatable of the requested extended resource is non-zero -/
  resOK : Bool := false
deriving Repr, DecidableEq

/-- `GetCondition(node, NodeReady).Status == ConditionTrue` -/
def Node.ready (n : Node) : Bool := n.readyCond == .true_

/-- the immutable part of the NodeClaim spec the lifecycle looks at -/
structure Spec where
  startup : List Taint := []
  taints : List Taint := []
  /-- requests a non-zero quantity of an extended resource -/
  wantsRes : Bool := false
deriving Repr, DecidableEq

/-! ## Calls, faults -/

inductive Err | conflict | notFound | other
deriving Repr, DecidableEq

inductive CreateOutcome | ok | ice | ncnr | generic | createErr
deriving Repr, DecidableEq

inductive Site | finPatch | create | claimDelete | nodePatchLock | nodePatch | metaPatch | statusPatch | poolGet
deriving Repr, DecidableEq

inductive Outcome | ok | conflict | notFound | other | ice | ncnr | generic | createErr
deriving Repr, DecidableEq

def Err.toOutcome : Err → Outcome
  | .conflict => .conflict
  | .notFound => .notFound
  | .other => .other

def CreateOutcome.toOutcome : CreateOutcome → Outcome
  | .ok => .ok
  | .ice => .ice
  | .ncnr => .ncnr
  | .generic => .generic
  | .createErr => .createErr

structure Call where
  site : Site
  out : Outcome
deriving Repr, DecidableEq

/-- `kubeClient.Get` of the NodePool that the NodeClaim's `karpenter.sh/nodepool` label names
    (`updateNodePoolRegistrationHealth` in registration.go and liveness.go).  The NodePool is not part of the modelled
    world: the answer of the read is a parameter.  `unlabelled`: the NodeClaim carries no such label, no Get is made;
    `err .notFound`: the NodePool is gone (deleted while the NodeClaim is still around) or the read said so. -/
inductive PoolGet | unlabelled | ok | err (e : Err)
deriving Repr, DecidableEq

/-- an injected error class per call site, applied to every call of that site within the reconcile -/
structure Faults where
  finPatch : Option Err := none       -- NodeClaim Patch with optimistic lock (finalizer)
  claimDelete : Option Err := none    -- NodeClaim Delete
  nodeList : Bool := false            -- Node List (a read)
  nodePatchLock : Option Err := none  -- Node Patch with optimistic lock (registration)
  nodePatch : Option Err := none      -- Node Patch (initialized label)
  metaPatch : Option Err := none      -- NodeClaim Patch (metadata)
  statusPatch : Option Err := none    -- NodeClaim Status().Patch
  poolGet : PoolGet := .unlabelled    -- NodePool Get (a read; its answer decides whether a timeout may delete)
deriving Repr, DecidableEq

inductive Result | ok | requeue | after (secs : Nat) | err
deriving Repr, DecidableEq

/-! ## The world: API server, provider, controller memory -/

structure World where
  now : Nat := 0
  /-- the API server's copy of the NodeClaim -/
  claim : Claim := {}
  /-- older copies a lagging cache may still serve, newest first -/
  views : List Claim := []
  /-- Node objects carrying the instance's provider id, oldest first -/
  nodes : List Node := []
  /-- `Launch.cache` holds an entry for this NodeClaim's UID -/
  cache : Bool := false
  /-- instances the provider created for this NodeClaim (successful `Create` calls) -/
  instances : Nat := 0
  /-- ghost: the termination finalizer has been on the API server's copy -/
  finEver : Bool := false
deriving Repr, DecidableEq

def World.versions (w : World) : List Claim := w.claim :: w.views

/-- the in-flight state of one `Controller.Reconcile` -/
structure Ctx where
  w : World
  /-- the in-memory NodeClaim all four sub-reconcilers mutate -/
  mem : Claim
  calls : List Call := []
  /-- some sub-reconciler returned an error -/
  errs : Bool := false
  /-- ... one that is an API `NotFound` status (`client.IgnoreNotFound(multierr.Append(errs, err))` then drops everything) -/
  errsNF : Bool := false
  /-- the non-zero `reconcile.Result`s: RequeueAfter seconds, 0 for `Requeue: true` -/
  results : List Nat := []
deriving Repr, DecidableEq

def Ctx.call (c : Ctx) (s : Site) (o : Outcome) : Ctx := { c with calls := c.calls ++ [⟨s, o⟩] }

def Ctx.setL (c : Ctx) (st : Tri) (r : Reason) : Ctx :=
  { c with mem := { c.mem with conds := { c.mem.conds with l := c.mem.conds.l.set st r c.w.now } } }
def Ctx.setR (c : Ctx) (st : Tri) (r : Reason) : Ctx :=
  { c with mem := { c.mem with conds := { c.mem.conds with r := c.mem.conds.r.set st r c.w.now } } }
def Ctx.setI (c : Ctx) (st : Tri) (r : Reason) : Ctx :=
  { c with mem := { c.mem with conds := { c.mem.conds with i := c.mem.conds.i.set st r c.w.now } } }

/-! ### `updateNodePoolRegistrationHealth` as its callers see it -/

/-- what the caller does with the error of `updateNodePoolRegistrationHealth`:
    `client.IgnoreNotFound(err) != nil` → `IsConflict` → `Requeue: true`, anything else → return the error -/
inductive PoolVerdict | proceed | requeue | fail
deriving Repr, DecidableEq

def PoolGet.verdict : PoolGet → PoolVerdict
  | .unlabelled => .proceed
  | .ok => .proceed
  | .err .notFound => .proceed   -- the NodePool no longer exists: nothing to book, carry on
  | .err .conflict => .requeue
  | .err .other => .fail

def PoolGet.toOutcome : PoolGet → Outcome
  | .unlabelled => .ok
  | .ok => .ok
  | .err e => e.toOutcome

/-- the NodePool read, logged when it is made (a labelled NodeClaim).  The health bookkeeping behind it (tracker,
    NodePool status patch) is C20's subject. -/
def poolRead (f : Faults) (c : Ctx) : Ctx :=
  if f.poolGet = .unlabelled then c else c.call .poolGet f.poolGet.toOutcome

/-- the caller's reaction folded into the reconcile's state: `none` = carry on -/
def poolHealth (f : Faults) (c : Ctx) : Ctx × PoolVerdict :=
  let c := poolRead f c
  match f.poolGet.verdict with
  | .proceed => (c, .proceed)
  | .requeue => ({ c with results := c.results ++ [0] }, .requeue)
  | .fail => ({ c with errs := true }, .fail)

/-! ### `kubeClient.Delete(ctx, nodeClaim)` -/

def claimDeleteOutcome (f : Faults) (w : World) : Outcome :=
  match f.claimDelete with
  | some e => e.toOutcome
  | none => if w.claim.present then .ok else .notFound

/-- the API server's side of a delete: with a finalizer the object only gets a deletion timestamp -/
def Claim.deleted (c : Claim) : Claim :=
  if c.finalizer then { c with deleting := true } else { c with present := false }

def deleteClaim (f : Faults) (c : Ctx) : Ctx :=
  let o := claimDeleteOutcome f c.w
  let c := c.call .claimDelete o
  if o = .ok then { c with w := { c.w with claim := c.w.claim.deleted } } else c

/-! ### `Launch.Reconcile` -/

/-- cache store, `PopulateNodeClaimDetails`, `SetTrue(Launched)` -/
def launchSuccess (c : Ctx) : Ctx :=
  let c := { c with w := { c.w with cache := true }, mem := { c.mem with providerID := true, provLabels := true } }
  c.setL .true_ .launched

/-- `InsufficientCapacityError` / `NodeClassNotReadyError`: delete the NodeClaim, do not touch `Launched` -/
def capacityError (f : Faults) (o : Outcome) (c : Ctx) : Ctx :=
  let c := c.call .create o
  let d := claimDeleteOutcome f c.w
  let c := deleteClaim f c
  if d = .ok ∨ d = .notFound then c else { c with errs := true }

def launch (f : Faults) (co : CreateOutcome) (c : Ctx) : Ctx :=
  -- the first `nodeClaim.StatusConditions()` initialises an empty condition list
  let c := { c with mem := { c.mem with conds := { c.mem.conds with init := true } } }
  if c.mem.conds.l.status ≠ .unknown then
    if c.mem.conds.l.status = .true_ then { c with w := { c.w with cache := false } } else c
  else if c.w.cache then launchSuccess c
  else match co with
    | .ok => launchSuccess ({ c with w := { c.w with instances := c.w.instances + 1 } }.call .create .ok)
    | .ice => capacityError f .ice c
    | .ncnr => capacityError f .ncnr c
    | .generic => { (c.call .create .generic).setL .unknown .launchFailed with errs := true }
    | .createErr => { (c.call .create .createErr).setL .unknown .custom with errs := true }

/-! ### `truncateMessage` (launch.go): the provider's error text on its way into an event / the `LaunchFailed` message

Lengths are in BYTES (Go's `len` of a string and `msg[:n]`); a text is given by the byte widths (1..4) of its
characters.  The function is total: it answers for every text, whatever its characters. -/

/-- `len(msg)` -/
def textBytes (ws : List Nat) : Nat := ws.sum

/-- byte length of `truncateMessage(msg)` for a `msg` of `n` bytes: short texts pass, the others are cut after
    `truncateLimit` bytes and get three dots -/
def truncatedLen (n : Nat) : Nat := if n < truncateLimit then n else truncateLimit + 3

/-- `msg[:k]` on characters: the characters that fit entirely into the first `k` bytes, and how many bytes of the next
    character are left dangling after the cut (0 = the cut falls on a character boundary) -/
def cutBytes : Nat → List Nat → List Nat × Nat
  | _, [] => ([], 0)
  | k, w :: ws =>
    if w ≤ k then let r := cutBytes (k - w) ws; (w :: r.1, r.2)
    else ([], k)

/-- `truncateMessage` on characters: (whole characters kept, dangling bytes, dots appended) -/
def truncateMessage (ws : List Nat) : List Nat × Nat × Bool :=
  if textBytes ws < truncateLimit then (ws, 0, false)
  else let r := cutBytes truncateLimit ws; (r.1, r.2, true)

/-- bytes of the result as Go holds it -/
def truncateMessageBytes (ws : List Nat) : Nat :=
  let r := truncateMessage ws
  textBytes r.1 + r.2.1 + (if r.2.2 then 3 else 0)

/-! ### `Registration.Reconcile` -/

/-- `syncNode`, removal of the unregistered taint, the registered label -/
def registerNode (sp : Spec) (mem : Claim) (n : Node) : Node :=
  let ts := if n.doNotSync then n.taints else mergeTaints (mergeTaints n.taints sp.taints) sp.startup
  { n with finalizer := true, ownerRef := true, userLabels := true, provLabels := n.provLabels || mem.provLabels,
           taints := ts.filter (fun t => !t.matches unregistered), regLabel := true }

def regSuccess (f : Faults) (c : Ctx) : Ctx :=
  let c := c.setR .true_ .registered
  let c := { c with mem := { c.mem with nodeName := true } }
  -- `updateNodePoolRegistrationHealth`: Registered stays true in memory whatever the NodePool read says
  (poolHealth f c).1

/-- exactly one node carries the provider id: sync it, patch it (optimistic lock), then `Registered = True` -/
def registerOne (sp : Spec) (f : Faults) (c : Ctx) (n : Node) : Ctx :=
  let n' := registerNode sp c.mem n
  if n' = n then regSuccess f c
  else match f.nodePatchLock with
    | none => regSuccess f ({ c with w := { c.w with nodes := [n'] } }.call .nodePatchLock .ok)
    | some .conflict => { c.call .nodePatchLock .conflict with results := c.results ++ [0] }
    | some .notFound => { c.call .nodePatchLock .notFound with errs := true, errsNF := true }
    | some .other => { c.call .nodePatchLock .other with errs := true }

def registration (sp : Spec) (f : Faults) (c : Ctx) : Ctx :=
  if c.mem.conds.r.status ≠ .unknown then c
  else if !c.mem.providerID then c.setR .unknown .nodeNotFound
  else if f.nodeList then { c with errs := true }
  else match c.w.nodes with
    | [] => c.setR .unknown .nodeNotFound
    | [n] => registerOne sp f c n
    | _ :: _ :: _ => c.setR .false_ .multipleNodes

/-! ### `Initialization.Reconcile` -/

/-- `StartupTaintsRemoved`: for the first startup taint (in spec order) still on the node, the node's taint (first
    in node order) that matches it -/
def firstStartupTaint (sp : Spec) (n : Node) : Option Taint :=
  sp.startup.findSome? (fun s => n.taints.find? (fun t => s.matches t))

/-- `KnownEphemeralTaintsRemoved`: the first known ephemeral taint (in node order) -/
def firstEphemeralTaint (n : Node) : Option Taint := n.taints.find? isKnownEphemeral

/-- `NodeForNodeClaim` as used by initialization (every error is "node not found") -/
def nodeForInit (f : Faults) (c : Ctx) : Option Node :=
  if !c.mem.providerID then none
  else if f.nodeList then none
  else match c.w.nodes with
    | [n] => some n
    | _ => none

def initSuccess (c : Ctx) : Ctx := c.setI .true_ .initialized

/-- the precondition checks of `Initialization.Reconcile` on the node, in source order: the reason it is not ready yet -/
def initBlocker (sp : Spec) (n : Node) : Option Reason :=
  if !n.ready then some .nodeNotReady
  else match firstStartupTaint sp n with
    | some t => some (.startupTaintsExist t.shown)
    | none => match firstEphemeralTaint n with
      | some t => some (.ephemeralTaintsExist t.shown)
      | none => if sp.wantsRes && !n.resOK then some .resourceNotRegistered else none

/-- all checks passed: label the node, then `Initialized = True` -/
def initOne (f : Faults) (c : Ctx) (n : Node) : Ctx :=
  if n.initLabel then initSuccess c
  else match f.nodePatch with
    | none => initSuccess ({ c with w := { c.w with nodes := [{ n with initLabel := true }] } }.call .nodePatch .ok)
    | some .notFound => { c.call .nodePatch .notFound with errs := true, errsNF := true }
    | some e => { c.call .nodePatch e.toOutcome with errs := true }

def initialization (sp : Spec) (f : Faults) (c : Ctx) : Ctx :=
  if c.mem.conds.i.status ≠ .unknown then c
  else if c.mem.conds.r.status ≠ .true_ then c
  else match nodeForInit f c with
    | none => c.setI .unknown .nodeNotFound
    | some n =>
      match initBlocker sp n with
      | some r => c.setI .unknown r
      | none => initOne f c n

/-! ### `Liveness.Reconcile` -/

/-- a timeout has passed: `updateNodePoolRegistrationHealth`, then — unless that failed with something other than
    NotFound — `deleteNodeClaimForTimeout` -/
def timeoutDelete (f : Faults) (c : Ctx) : Ctx :=
  let p := poolHealth f c
  if p.2 ≠ .proceed then p.1
  else
    let c := p.1
    let o := claimDeleteOutcome f c.w
    let c := deleteClaim f c
    if o = .ok ∨ o = .notFound then c else { c with errs := true }

/-- the launch-timeout half; `false` = `Liveness.Reconcile` returned -/
def livenessLaunch (f : Faults) (c : Ctx) : Ctx × Bool :=
  if c.mem.conds.l.status = .true_ then (c, true)
  else if c.w.now - c.mem.conds.l.ltt < launchTimeoutSecs then
    ({ c with results := c.results ++ [launchTimeoutSecs - (c.w.now - c.mem.conds.l.ltt)] }, false)
  else
    -- (repaired) the launch-timeout branch returns after its Delete instead of falling through to the registration timeout
    (timeoutDelete f c, false)

def liveness (f : Faults) (c : Ctx) : Ctx :=
  if c.mem.conds.r.status = .true_ then c
  else
    let p := livenessLaunch f c
    let c := p.1
    if !p.2 then c
    else if c.w.now - c.mem.conds.r.ltt < registrationTimeoutSecs then
      { c with results := c.results ++ [registrationTimeoutSecs - (c.w.now - c.mem.conds.r.ltt)] }
    else timeoutDelete f c

/-! ### The two patches at the end of `Controller.Reconcile` -/

/-- JSON merge patch `stored → mem` applied to the API server's copy: metadata part -/
def mergeMeta (stored mem srv : Claim) : Claim :=
  { srv with provLabels := if stored.provLabels = mem.provLabels then srv.provLabels else mem.provLabels }

/-- ... status part: the condition list is one unit -/
def mergeStatus (stored mem srv : Claim) : Claim :=
  { srv with conds := if stored.conds = mem.conds then srv.conds else mem.conds,
             providerID := if stored.providerID = mem.providerID then srv.providerID else mem.providerID,
             nodeName := if stored.nodeName = mem.nodeName then srv.nodeName else mem.nodeName }

/-- `result.Min` -/
def minResult (l : List Nat) : Result :=
  match l.min? with
  | none => .ok
  | some 0 => .requeue
  | some n => .after n

def finish (c : Ctx) : Result := if c.errs then .err else minResult c.results

/-- `client.IgnoreNotFound(multierr.Append(errs, err))` -/
def patchFailResult (c : Ctx) (o : Outcome) : Result := if c.errsNF || o == .notFound then .ok else .err

def claimPatchOutcome (inj : Option Err) (w : World) : Outcome :=
  match inj with
  | some e => e.toOutcome
  | none => if w.claim.present then .ok else .notFound

structure RecOut where
  w : World
  calls : List Call
  result : Result
deriving Repr, DecidableEq

def persist (stored : Claim) (f : Faults) (c : Ctx) : RecOut :=
  if c.mem = stored then ⟨c.w, c.calls, finish c⟩
  else
    let o1 := claimPatchOutcome f.metaPatch c.w
    let c := c.call .metaPatch o1
    if o1 ≠ .ok then ⟨c.w, c.calls, patchFailResult c o1⟩
    else
      let w1 := { c.w with claim := mergeMeta stored c.mem c.w.claim }
      let o2 := claimPatchOutcome f.statusPatch w1
      let c := c.call .statusPatch o2
      if o2 ≠ .ok then ⟨w1, c.calls, patchFailResult c o2⟩
      else ⟨{ w1 with claim := mergeStatus stored c.mem w1.claim, now := w1.now + postPatchSleepSecs }, c.calls, finish c⟩

/-- the sub-reconcilers in the order of the slice literal in `Controller.Reconcile`, then the patches -/
def runSubs (sp : Spec) (f : Faults) (co : CreateOutcome) (w : World) (mem : Claim) (calls : List Call) : RecOut :=
  let c : Ctx := { w := w, mem := mem, calls := calls }
  persist mem f (liveness f (initialization sp f (registration sp f (launch f co c))))

def finPatchOutcome (f : Faults) (w : World) : Outcome :=
  match f.finPatch with
  | some e => e.toOutcome
  | none => if !w.claim.present then .notFound else if w.claim.finalizer then .conflict else .ok

/-- `Controller.Reconcile` for a NodeClaim copy without deletion timestamp -/
def reconcileLive (sp : Spec) (f : Faults) (co : CreateOutcome) (w : World) (view : Claim) : RecOut :=
  if view.finalizer then runSubs sp f co w view []
  else
    let o := finPatchOutcome f w
    let calls : List Call := [⟨.finPatch, o⟩]
    match o with
    | .ok =>
      -- the patch response replaces the in-memory object
      let srv := { w.claim with finalizer := true }
      runSubs sp f co { w with claim := srv, finEver := true } srv calls
    | .conflict => ⟨w, calls, .requeue⟩
    | .notFound => ⟨w, calls, .ok⟩
    | _ => ⟨w, calls, .err⟩

/-! ## Histories -/

/-- what `finalize` (the deletion path, C09's subject) may do as far as this property can see: it never calls
    `Create` and never touches Launched/Registered/Initialized; it may delete Nodes and remove the finalizer -/
structure FinalizeOut where
  removeFinalizer : Bool := false
  nodes : Option (List Node) := none
deriving Repr, DecidableEq

inductive Env
  | nodeAppear (n : Node)
  | nodesGone
  | setReady (r : NodeReady)
  | setRes (b : Bool)
  | addTaint (t : Taint)
  | rmTaint (t : Taint)
  | advance (secs : Nat)
  | userDelete
  /-- any other change to the Node objects -/
  | setNodes (ns : List Node)
deriving Repr, DecidableEq

inductive Step
  | env (e : Env)
  /-- `Reconcile` is handed the copy `lag` versions old (clipped to what the cache may still serve) -/
  | reconcile (lag : Nat) (co : CreateOutcome) (f : Faults) (fin : FinalizeOut)
deriving Repr, DecidableEq

def mapFirst (f : Node → Node) : List Node → List Node
  | [] => []
  | n :: ns => f n :: ns

def applyEnv (w : World) : Env → World
  | .nodeAppear n => if w.instances = 0 then w else { w with nodes := w.nodes ++ [n] }
  | .nodesGone => { w with nodes := [] }
  | .setReady r => { w with nodes := mapFirst (fun n => { n with readyCond := r }) w.nodes }
  | .setRes b => { w with nodes := mapFirst (fun n => { n with resOK := b }) w.nodes }
  | .addTaint t => { w with nodes := mapFirst (fun n => if hasMatch n.taints t then n else { n with taints := n.taints ++ [t] }) w.nodes }
  | .rmTaint t => { w with nodes := mapFirst (fun n => { n with taints := n.taints.filter (fun x => !t.matches x) }) w.nodes }
  | .advance s => { w with now := w.now + s }
  | .userDelete => { w with claim := if w.claim.present then w.claim.deleted else w.claim }
  | .setNodes ns => { w with nodes := ns }

/-- what one step shows (besides the new world) -/
structure Obs where
  isRec : Bool := false
  /-- the copy handed to `Reconcile` -/
  view : Claim := {}
  /-- the view was the API server's current copy -/
  fresh : Bool := false
  /-- the deletion path ran -/
  finalizing : Bool := false
  calls : List Call := []
  result : Result := .ok
deriving Repr, DecidableEq

/-- the versions the cache keeps after serving the copy `lag` back, newest first; the served copy is the last -/
def keptVersions (w : World) (lag : Nat) : List Claim := w.versions.take (min lag w.views.length + 1)

def pickView (w : World) (lag : Nat) : Claim := (keptVersions w lag).getLast?.getD w.claim

def finalizeStep (w : World) (fin : FinalizeOut) : World :=
  { w with nodes := fin.nodes.getD w.nodes,
           claim := if fin.removeFinalizer then { w.claim with present := false } else w.claim }

def step (sp : Spec) (w : World) : Step → World × Obs
  | .env e => ({ applyEnv w e with views := w.versions }, {})
  | .reconcile lag co f fin =>
    let view := pickView w lag
    let kept := keptVersions w lag
    let fresh := decide (view = w.claim)
    if !view.present then
      -- controller-runtime does not reconcile an object its cache no longer has
      ({ w with views := kept }, { isRec := true, view := view, fresh := fresh })
    else if view.deleting then
      ({ finalizeStep w fin with views := kept }, { isRec := true, view := view, fresh := fresh, finalizing := true })
    else
      let r := reconcileLive sp f co w view
      ({ r.w with views := kept }, { isRec := true, view := view, fresh := fresh, calls := r.calls, result := r.result })

def run (sp : Spec) (w : World) : List Step → World
  | [] => w
  | s :: ss => run sp (step sp w s).1 ss

/-- the world at the start of a history: an object without status -/
def World.init (fin : Bool) : World := { claim := { finalizer := fin }, finEver := fin }

end Karp.Lifecycle
