/-
Model of the termination protocol (C09), as the code is:

* `pkg/controllers/node/termination/controller.go`  — `Controller.Reconcile` / `finalize`, the three stages
  `awaitDrain`, `awaitVolumeDetachment`, `awaitInstanceTermination`, `removeFinalizer`;
* `pkg/controllers/node/termination/terminator/terminator.go` — `Taint`, and `Drain` abstracted to its
  verdict (`Drain` returns nil iff no pod bound to the node `IsWaitingEviction`; the eviction queue is C10's);
* `pkg/controllers/nodeclaim/lifecycle/controller.go` — `Controller.Reconcile` (finalizer patch, launch,
  persisting patches) and `finalize`.

Every API / provider call is a parameter: `Fault` per call site (ok / error / conflict / not-found / crash of the
process at that call) and `ProvOut` for the provider's answers.  Core Lean only.  Constants, the stage order and the
comparisons come from the regenerated `Karp.Gen.Finalize`.
-/
import Karp.Gen.Finalize

namespace Karp.Term
open Karp.Gen

/-! ## Vocabulary -/

/-- outcome of one API call -/
inductive Fault | ok | err | conflict | notFound | crash
deriving Repr, DecidableEq, Inhabited

/-- answer of the cloud provider to `Get` / `Delete` (`ok` for Delete = "termination triggered") -/
inductive ProvOut | ok | notFound | err | crash
deriving Repr, DecidableEq, Inhabited

/-- status of a condition on the NodeClaim -/
inductive CondS | absent | true_ | false_ | unknown
deriving Repr, DecidableEq, Inhabited

inductive Inst | running | terminating | gone
deriving Repr, DecidableEq, Inhabited

/-- `reconcile.Result` classes (+ the process crashed) -/
inductive Res | none | requeue | after (ns : Nat) | crash
deriving Repr, DecidableEq, Inhabited

/-- effectful calls, in the order they are attempted (the action log) -/
inductive Act
  | deleteClaim | providerGet | patchNode | providerDelete | patchClaimStatus | removeNodeFinalizer
  | annotateClaim | deleteNode | removeClaimFinalizer | addClaimFinalizer | providerCreate | patchClaim
deriving Repr, DecidableEq, Inhabited

structure Pod where
  name : String
  /-- tolerates `karpenter.sh/disrupted:NoSchedule` -/
  tolerates : Bool
  /-- owned by the Node (static / mirror pod) -/
  mirror : Bool
  /-- phase Succeeded or Failed -/
  terminal : Bool
  deletedAt : Option Int
  /-- mounts a PVC-backed volume (a `Get` of the PVC is issued for it) -/
  hasVol : Bool
  /-- the persistent volume its PVC is bound to (`none`: no such volume, or the PVC object does not exist) -/
  pv : Option Nat
  onNode : Bool
deriving Repr, DecidableEq, Inhabited

structure VA where
  name : String
  /-- `spec.source.persistentVolumeName` -/
  pv : Option Nat
  onNode : Bool
  /-- the object carries a deletionTimestamp (the attach-detach controller deleted it) but still exists: the CSI
      external-attacher's finalizer holds it until the volume is really detached.  `filterVolumeAttachments` does not
      look at it (regenerated fact `Finalize.vaFilterReads`): a terminating attachment blocks like any other. -/
  terminating : Bool := false
  /-- `status.attached` is false (attach still in progress, or the detach failed half-way); not read by the code either -/
  unattached : Bool := false
deriving Repr, DecidableEq, Inhabited

/-- `a > b` (strict) or `a ≥ b` -/
def cmpGt (strict : Bool) (a b : Int) : Bool := if strict then decide (b < a) else decide (b ≤ a)
/-- `a < b` (strict) or `a ≤ b` -/
def cmpLt (strict : Bool) (a b : Int) : Bool := if strict then decide (a < b) else decide (a ≤ b)

/-- `pod.IsStuckTerminating` -/
def Pod.stuck (now : Int) (p : Pod) : Bool :=
  match p.deletedAt with
  | none => false
  | some d => cmpGt Finalize.stuckTerminatingStrict (now - d) Finalize.stuckTerminatingNs

/-- `pod.IsDrainable` -/
def Pod.drainable (now : Int) (p : Pod) : Bool := !p.tolerates && !p.stuck now && !p.mirror
/-- `pod.IsWaitingEviction` -/
def Pod.waiting (now : Int) (p : Pod) : Bool := !p.terminal && p.drainable now

/-- the pods `Drain` waits for (`Drain` returns a NodeDrainError iff this list is non-empty) -/
def waitingPods (now : Int) (pods : List Pod) : List Pod := pods.filter (fun p => p.onNode && p.waiting now)

/-- `filterVolumeAttachments`: persistent volumes of pods that are not drainable -/
def shieldedPVs (now : Int) (getPVC : Fault) (pods : List Pod) : List Nat :=
  if getPVC = .ok then (pods.filter (fun p => p.onNode && !p.drainable now)).filterMap (·.pv) else []

/-- `pendingVolumeAttachments` (given that the reads succeeded) -/
def pendingVAs (now : Int) (getPVC : Fault) (pods : List Pod) (vas : List VA) : List VA :=
  let shielded := shieldedPVs now getPVC pods
  (vas.filter (·.onNode)).filter (fun v => match v.pv with | none => false | some k => !shielded.contains k)

/-- is a PVC `Get` issued at all? (only when the node has attachments and an undrainable pod mounts a PVC) -/
def pvcLookedUp (now : Int) (pods : List Pod) (vas : List VA) : Bool :=
  (vas.any (·.onNode)) && pods.any (fun p => p.onNode && !p.drainable now && p.hasVol)

/-- the termination-timestamp annotation -/
inductive TermAnn | absent | bad | at (t : Int)
deriving Repr, DecidableEq, Inhabited

/-- `hasTerminationGracePeriodElapsed`: `clock.Now().After(t)` -/
def elapsed (now : Int) (t : Option Int) : Bool :=
  match t with | none => false | some t => decide (t < now)

structure Conds where
  drained : CondS
  /-- lastTransitionTime of Drained -/
  drainedAt : Int
  vol : CondS
  inst : CondS
deriving Repr, DecidableEq, Inhabited

structure ClaimObs where
  deleting : Bool
  conds : Conds
  term : TermAnn
  /-- `status.providerID` equals the node's `spec.providerID` -/
  mine : Bool
deriving Repr, DecidableEq, Inhabited

structure NodeObs where
  deleting : Bool
  finalizer : Bool
  managed : Bool
  /-- Ready condition is True -/
  ready : Bool
  /-- carries `karpenter.sh/disrupted:NoSchedule` -/
  tainted : Bool
  /-- carries the exclude-from-external-load-balancers label -/
  lb : Bool
  hasPid : Bool
deriving Repr, DecidableEq, Inhabited

structure NodeFaults where
  listClaims : Fault := .ok
  deleteClaim : Fault := .ok
  patchNode : Fault := .ok
  listPodsDrain : Fault := .ok
  listVAs : Fault := .ok
  listPodsFilter : Fault := .ok
  getPVC : Fault := .ok
  patchStatus : Fault := .ok
  removeFinalizer : Fault := .ok
deriving Repr, DecidableEq, Inhabited

/-! ## The stages -/

inductive Stage | drain | volumes | instance
deriving Repr, DecidableEq, Inhabited

def parseStage : String → Option Stage
  | "awaitDrain" => some .drain
  | "awaitVolumeDetachment" => some .volumes
  | "awaitInstanceTermination" => some .instance
  | _ => none

/-- the stage list `finalize` ranges over, in the order the source has it -/
def stageOrder : List Stage := Finalize.terminationStages.filterMap parseStage

/-- what a stage (and the loop) returns -/
structure StageOut where
  conds : Conds
  /-- the `reconcile.Result` (`.none` = empty: fall through to the next stage) -/
  res : Res := .none
  /-- the stage returned an error (`terminationErr`) -/
  err : Bool := false
  calls : List Act := []
  /-- provider `Delete` returned nil in this pass (termination was triggered) -/
  triggered : Bool := false
deriving Repr, DecidableEq, Inhabited

def requeueAt (l : List Nat) (i : Nat) : Res := .after (l.getD i 0)

/-- `awaitDrain`, first statement: a claim without a Drained condition gets `Drained=Unknown` (transition time: now) -/
def drainInit (now : Int) (hasClaim : Bool) (c : Conds) : Conds :=
  if hasClaim && c.drained = .absent then { c with drained := .unknown, drainedAt := now } else c

/-- `cond == nil || (cond.IsUnknown() && clock.Since(cond.LastTransitionTime) < MinDrainTime)` -/
def minDrainPending (now : Int) (c : Conds) : Bool :=
  c.drained = .absent || (c.drained = .unknown && cmpLt Finalize.minDrainCmpStrict (now - c.drainedAt) Finalize.minDrainCmpNs)

/-- `SetTrue(Drained)` -/
def markDrained (now : Int) (c : Conds) : Conds :=
  if c.drained = .true_ then c else { c with drained := .true_, drainedAt := now }

/-- `awaitDrain` -/
def stageDrain (now : Int) (hasClaim : Bool) (pods : List Pod) (f : NodeFaults) (c : Conds) : StageOut :=
  let c := drainInit now hasClaim c
  match f.listPodsDrain with
  | .crash => { conds := c, res := .crash }
  | .ok =>
    if (waitingPods now pods).isEmpty then
      if hasClaim then
        if minDrainPending now c then { conds := c, res := requeueAt Finalize.requeueDrainNs 1 }
        else { conds := markDrained now c }
      else { conds := c }
    else { conds := c, res := requeueAt Finalize.requeueDrainNs 0 }
  | _ => { conds := c, err := true }

/-- the reads inside `filterVolumeAttachments` (they happen only when the node has attachments): first failing one -/
def volReadFault (now : Int) (pods : List Pod) (vas : List VA) (f : NodeFaults) : Fault :=
  if !(vas.any (·.onNode)) then .ok
  else if f.listPodsFilter ≠ .ok then f.listPodsFilter
  else if pvcLookedUp now pods vas && f.getPVC ≠ .ok && f.getPVC ≠ .notFound then f.getPVC
  else .ok

/-- `SetTrue / SetUnknown / SetFalse (VolumesDetached)` when there is a claim -/
def setVol (hasClaim : Bool) (c : Conds) (s : CondS) : Conds := if hasClaim then { c with vol := s } else c

/-- `awaitVolumeDetachment` -/
def stageVolumes (now : Int) (hasClaim : Bool) (term : Option Int) (pods : List Pod) (vas : List VA) (f : NodeFaults) (c : Conds) : StageOut :=
  match f.listVAs with
  | .crash => { conds := c, res := .crash }
  | .ok =>
    match volReadFault now pods vas f with
    | .crash => { conds := c, res := .crash }
    | .ok =>
      if (pendingVAs now f.getPVC pods vas).isEmpty then { conds := setVol hasClaim c .true_ }
      else if elapsed now term then { conds := setVol hasClaim c .false_ }
      else { conds := setVol hasClaim c .unknown, res := requeueAt Finalize.requeueVolumesNs 0 }
    | _ => { conds := c, err := true }
  | _ => { conds := c, err := true }

/-- `awaitInstanceTermination` -/
def stageInstance (hasClaim : Bool) (delOut : ProvOut) (c : Conds) : StageOut :=
  if hasClaim = false then { conds := c }
  else match delOut with
    | .crash => { conds := c, res := .crash, calls := [.providerDelete] }
    | .err => { conds := c, err := true, calls := [.providerDelete] }
    | .ok => { conds := { c with inst := .true_ }, res := requeueAt Finalize.requeueInstanceNs 0, calls := [.providerDelete], triggered := true }
    | .notFound => { conds := { c with inst := .true_ }, calls := [.providerDelete] }

def runStage (s : Stage) (now : Int) (hasClaim : Bool) (term : Option Int) (pods : List Pod) (vas : List VA)
    (f : NodeFaults) (delOut : ProvOut) (c : Conds) : StageOut :=
  match s with
  | .drain => stageDrain now hasClaim pods f c
  | .volumes => stageVolumes now hasClaim term pods vas f c
  | .instance => stageInstance hasClaim delOut c

/-- the loop `for _, f := range []terminationFunc{…} { result, err = f(…); if !IsEmpty(result) || err != nil { break } }` -/
def runStages (stages : List Stage) (now : Int) (hasClaim : Bool) (term : Option Int) (pods : List Pod) (vas : List VA)
    (f : NodeFaults) (delOut : ProvOut) (c : Conds) : StageOut :=
  match stages with
  | [] => { conds := c }
  | s :: rest =>
    let o := runStage s now hasClaim term pods vas f delOut c
    if o.res ≠ .none || o.err then o
    else
      let o' := runStages rest now hasClaim term pods vas f delOut o.conds
      { o' with calls := o.calls ++ o'.calls, triggered := o.triggered || o'.triggered }

/-! ## Node `finalize` -/

structure NodeOut where
  calls : List Act := []
  res : Res := .none
  err : Bool := false
  /-- the NodeClaim delete was applied -/
  deletedClaim : Bool := false
  /-- the taint patch was applied -/
  taintPatched : Bool := false
  /-- conditions persisted by the status patch (`none`: nothing was written) -/
  conds : Option Conds := none
  /-- the finalizer-removing patch was applied -/
  removed : Bool := false
  /-- provider `Delete` returned nil (the instance is now terminating) -/
  triggered : Bool := false
deriving Repr, DecidableEq, Inhabited

/-- `removeFinalizer` followed by the caller's return -/
def removeNodeFinalizer (f : NodeFaults) (o : NodeOut) : NodeOut :=
  let o := { o with calls := o.calls ++ [.removeNodeFinalizer] }
  match f.removeFinalizer with
  | .crash => { o with res := .crash }
  | .ok => { o with removed := true }
  | .notFound => o
  | _ => { o with err := true }

/-- the end of `finalize`: the stage error, else the stage's requeue, else the finalizer removal -/
def nodeFin (f : NodeFaults) (s : StageOut) (o : NodeOut) : NodeOut :=
  if s.err then { o with err := true }
  else if s.res ≠ .none then { o with res := s.res }
  else removeNodeFinalizer f o

/-- outcome of the status patch: the injected fault, else a conflict when this pass deleted the claim (the patch
    carries the resourceVersion read before the delete), else ok -/
def statusPatchOutcome (f : NodeFaults) (deletedClaim : Bool) : Fault :=
  if f.patchStatus ≠ .ok then f.patchStatus else if deletedClaim then .conflict else .ok

/-- the part of `finalize` after the stage loop: status patch, then error / requeue / finalizer removal -/
def nodeTail (f : NodeFaults) (hasClaim : Bool) (stored : Conds) (s : StageOut) (o : NodeOut) : NodeOut :=
  let o := { o with calls := o.calls ++ s.calls, triggered := s.triggered }
  if s.res = .crash then { o with res := .crash }
  else if hasClaim && s.conds ≠ stored then
    let o := { o with calls := o.calls ++ [.patchClaimStatus] }
    match statusPatchOutcome f o.deletedClaim with
    | .crash => { o with res := .crash }
    | .ok => nodeFin f s { o with conds := some s.conds }
    | .notFound => nodeFin f s o
    | .conflict => { o with res := .requeue }
    | .err => { o with err := true }
  else nodeFin f s o

/-- `NodeClaimForNode` with the duplicate / not-found errors ignored: the single NodeClaim that carries the Node's
    provider id, if there is exactly one (no lookup at all for a Node without provider id) -/
def nodeClaimOf (n : NodeObs) (claims : List ClaimObs) : Option ClaimObs :=
  match (if n.hasPid then claims.filter (·.mine) else []) with
  | [c] => some c
  | _ => none

def claimAnn : Option ClaimObs → TermAnn
  | some c => c.term
  | none => .absent

/-- `nodeTerminationTime` (when the annotation is well-formed) -/
def termOf (claim : Option ClaimObs) : Option Int :=
  match claimAnn claim with | .at t => some t | _ => none

def storedConds : Option ClaimObs → Conds
  | some c => c.conds
  | none => default

/-- the claim exists and is not being deleted yet -/
def needsDelete : Option ClaimObs → Bool
  | some c => !c.deleting
  | none => false

/-- `finalize` from `nodeTerminationTime` on: parse the deadline, taint, run the stages, finish -/
def nodeFromTaint (now : Int) (n : NodeObs) (claim : Option ClaimObs) (pods : List Pod) (vas : List VA)
    (f : NodeFaults) (delOut : ProvOut) (o : NodeOut) : NodeOut :=
  if claimAnn claim = .bad then { o with err := true } else
  let needTaint := !(n.tainted && n.lb)
  let o := if needTaint then { o with calls := o.calls ++ [.patchNode] } else o
  match (if needTaint then f.patchNode else Fault.ok) with
  | .crash => { o with res := .crash }
  | .conflict => { o with res := .requeue }
  | .err | .notFound => { o with err := true }
  | .ok =>
    nodeTail f claim.isSome (storedConds claim)
      (runStages stageOrder now claim.isSome (termOf claim) pods vas f delOut (storedConds claim))
      { o with taintPatched := needTaint }

/-- `finalize` from the Ready check on: the instance-gone shortcut for a node that is not Ready, else the rest -/
def nodeFromReady (now : Int) (n : NodeObs) (claim : Option ClaimObs) (pods : List Pod) (vas : List VA)
    (f : NodeFaults) (getOut delOut : ProvOut) (o : NodeOut) : NodeOut :=
  let o := if n.ready then o else { o with calls := o.calls ++ [.providerGet] }
  match (if n.ready then ProvOut.ok else getOut) with
  | .crash => { o with res := .crash }
  | .err => { o with err := true }
  | .notFound => removeNodeFinalizer f o
  | .ok => nodeFromTaint now n claim pods vas f delOut o

/-- `Controller.Reconcile` of the node termination controller. `claims`: all NodeClaims; `getOut` / `delOut`: what the
    provider answers to `Get(node.providerID)` / `Delete(claim)` if asked. -/
def nodeReconcile (now : Int) (n : NodeObs) (claims : List ClaimObs) (pods : List Pod) (vas : List VA)
    (f : NodeFaults) (getOut delOut : ProvOut) : NodeOut :=
  if !n.deleting || !n.finalizer || !n.managed then {} else
  -- NodeClaimForNode (no List call for a node without provider id)
  let listFault : Fault := if n.hasPid then f.listClaims else .ok
  if listFault = .crash then { res := .crash } else
  if listFault ≠ .ok then { err := true } else
  let claim := nodeClaimOf n claims
  -- delete the claim if it is not deleting yet
  let needDelete := needsDelete claim
  let o : NodeOut := if needDelete then { calls := [.deleteClaim] } else {}
  match (if needDelete then f.deleteClaim else Fault.ok) with
  | .crash => { o with res := .crash }
  | .err | .conflict => { o with err := true }
  | .ok => nodeFromReady now n claim pods vas f getOut delOut { o with deletedClaim := needDelete }
  | .notFound => nodeFromReady now n claim pods vas f getOut delOut o

/-! ## NodeClaim lifecycle `Reconcile` -/

structure NodeRef where
  name : String
  deleting : Bool
  /-- carries any finalizer (a deleted Node with none disappears at once) -/
  held : Bool
  /-- `spec.providerID` equals the claim's `status.providerID` -/
  mine : Bool
deriving Repr, DecidableEq, Inhabited

structure ClaimState where
  managed : Bool
  deleting : Bool
  deletedAt : Int
  finalizer : Bool
  /-- `status.providerID` is set -/
  pid : Bool
  /-- no status conditions are stored yet (the claim was never successfully reconciled) -/
  fresh : Bool
  launched : CondS
  registered : CondS
  inst : CondS
  term : TermAnn
  /-- `spec.terminationGracePeriod` (ns) -/
  tgp : Option Nat
deriving Repr, DecidableEq, Inhabited

structure ClaimFaults where
  annotate : Fault := .ok
  listNodes : Fault := .ok
  deleteNode : Fault := .ok
  patchStatus : Fault := .ok
  removeFinalizer : Fault := .ok
  addFinalizer : Fault := .ok
  patchClaim : Fault := .ok
deriving Repr, DecidableEq, Inhabited

/-- provider `Create`: ok, insufficient capacity, node class not ready, other error, crash -/
inductive CreateOut | ok | ice | ncnr | err | crash
deriving Repr, DecidableEq, Inhabited

structure ClaimOut where
  calls : List Act := []
  res : Res := .none
  err : Bool := false
  /-- the annotation patch was applied (deadline = deletedAt + tgp) -/
  annotated : Bool := false
  /-- number of Node deletes applied -/
  nodesDeleted : Nat := 0
  /-- InstanceTerminating=True was persisted -/
  instPersisted : Bool := false
  removed : Bool := false
  triggered : Bool := false
  -- launch path
  finalizerAdded : Bool := false
  /-- provider `Create` succeeded in this pass -/
  created : Bool := false
  /-- provider id and Launched=True were persisted -/
  launchPersisted : Bool := false
  /-- the launch cache holds the created claim afterwards -/
  cached : Bool := false
  /-- the claim was deleted by the launch step (insufficient capacity / node class not ready) -/
  selfDeleted : Bool := false
  /-- the status patch of the launch path was applied (the claim is no longer fresh) -/
  statusPersisted : Bool := false
deriving Repr, DecidableEq, Inhabited

def removeClaimFinalizer (f : ClaimFaults) (o : ClaimOut) : ClaimOut :=
  let o := { o with calls := o.calls ++ [.removeClaimFinalizer] }
  match f.removeFinalizer with
  | .crash => { o with res := .crash }
  | .ok => { o with removed := true }
  | .conflict => { o with res := .requeue }
  | .notFound => o
  | .err => { o with err := true }

/-- deleting the listed Nodes that are not terminating yet; stops at the first failed delete -/
def deleteNodes (fault : Fault) : List NodeRef → ClaimOut → ClaimOut × Bool
  | [], o => (o, true)
  | n :: rest, o =>
    if n.deleting then deleteNodes fault rest o
    else
      let o := { o with calls := o.calls ++ [.deleteNode] }
      match fault with
      | .crash => ({ o with res := .crash }, false)
      | .ok => deleteNodes fault rest { o with nodesDeleted := o.nodesDeleted + 1 }
      | .notFound => deleteNodes fault rest o
      | _ => ({ o with err := true }, false)

/-- lifecycle `finalize`, from "terminate the instance" on: provider `Delete` until not-found (persisting
    InstanceTerminating), then the finalizer removal; a claim without provider id goes straight to the removal -/
def claimInstanceStep (c : ClaimState) (f : ClaimFaults) (delOut : ProvOut) (o : ClaimOut) : ClaimOut :=
  if c.pid then
    let o : ClaimOut := { o with calls := o.calls ++ [Act.providerDelete] }
    match delOut with
    | .crash => { o with res := .crash }
    | .err => { o with err := true }
    | d =>
      let o : ClaimOut := { o with triggered := d = ProvOut.ok }
      let needPatch := c.inst ≠ .true_
      let o : ClaimOut := if needPatch then { o with calls := o.calls ++ [Act.patchClaimStatus] } else o
      match (if needPatch then f.patchStatus else Fault.ok) with
      | .crash => { o with res := .crash }
      | .notFound => o
      | .conflict => { o with res := .requeue }
      | .err => { o with err := true }
      | .ok =>
        let o : ClaimOut := { o with instPersisted := needPatch }
        if d = ProvOut.ok then { o with res := requeueAt Finalize.requeueClaimInstanceNs 0 } else removeClaimFinalizer f o
  else removeClaimFinalizer f o

/-- the Nodes `finalize` waits for: those carrying the provider id of a registered claim -/
def nodesOfClaim (c : ClaimState) (nodes : List NodeRef) : List NodeRef :=
  if c.registered = .true_ && c.pid then nodes.filter (·.mine) else []

/-- lifecycle `finalize` -/
def claimFinalize (c : ClaimState) (nodes : List NodeRef) (f : ClaimFaults) (delOut : ProvOut) : ClaimOut :=
  if !c.finalizer then {} else
  -- ensureTerminationGracePeriodTerminationTimeAnnotation
  let needAnn := c.term = .absent && c.tgp.isSome && c.deleting
  let o : ClaimOut := if needAnn then { calls := [.annotateClaim] } else {}
  match (if needAnn then f.annotate else Fault.ok) with
  | .crash => { o with res := .crash }
  | .conflict => { o with res := .requeue }
  | .err => { o with err := true }
  | annOutcome =>
  let o : ClaimOut := { o with annotated := needAnn && annOutcome = .ok }
  -- wait for the Nodes of a registered claim
  let listed := c.registered = .true_ && c.pid
  let listFault : Fault := if listed then f.listNodes else .ok
  if listFault = .crash then { o with res := .crash } else
  if listFault ≠ .ok then { o with err := true } else
  let mine := nodesOfClaim c nodes
  let dn := deleteNodes f.deleteNode mine o
  if !dn.2 then dn.1 else
  if !mine.isEmpty then dn.1 else
  claimInstanceStep c f delOut dn.1

/-- the two persisting patches of a lifecycle pass (`Patch`, then `Status().Patch`).  `have_`: the pass holds a created
    claim (from provider `Create` or from the launch cache); `launchErr` / `regErr`: the launch / registration
    sub-reconciler returned an error.  A not-found answer is ignored unless an API error was already recorded. -/
def launchPersist (have_ launchErr regErr : Bool) (f : ClaimFaults) (o : ClaimOut) : ClaimOut :=
  let o : ClaimOut := { o with calls := o.calls ++ [Act.patchClaim] }
  match f.patchClaim with
  | .crash => { o with res := .crash }
  | .notFound => { o with err := regErr }
  | .err | .conflict => { o with err := true }
  | .ok =>
    let o : ClaimOut := { o with calls := o.calls ++ [Act.patchClaimStatus] }
    match f.patchStatus with
    | .crash => { o with res := .crash }
    | .notFound => { o with err := regErr }
    | .err | .conflict => { o with err := true }
    | .ok => { o with launchPersisted := have_, statusPersisted := true, err := launchErr || regErr }

/-- `Launch.Reconcile` after provider `Create` answered (or the cache was hit): self-deletion on insufficient capacity /
    node class not ready, remembering the created claim in the launch cache -/
def launchCreated (cache : Bool) (co : CreateOut) (o : ClaimOut) : ClaimOut :=
  match co with
  | .ice | .ncnr => { o with calls := o.calls ++ [Act.deleteClaim], selfDeleted := true }
  | .ok => { o with created := !cache, cached := true }
  | _ => o

/-- the launch path of a fresh claim, after the finalizer is in place -/
def launchFresh (cache : Bool) (f : ClaimFaults) (createOut : CreateOut) (o : ClaimOut) : ClaimOut :=
  let o : ClaimOut := if cache then o else { o with calls := o.calls ++ [Act.providerCreate] }
  let co : CreateOut := if cache then .ok else createOut
  if co = .crash then { o with res := .crash } else
  let o := launchCreated cache co o
  -- Registration looks the Node up once the provider id is known (in memory); a failed lookup is an error of the pass
  let listFault : Fault := if co = .ok then f.listNodes else .ok
  if listFault = .crash then { o with res := .crash } else
  launchPersist (co = .ok) (co = .err) (listFault ≠ .ok) f o

/-- lifecycle `Reconcile` for a claim that is not being deleted, restricted to what C09 needs: the finalizer patch,
    the launch step (provider `Create`, launch cache, self-deletion on insufficient capacity) and the two persisting
    patches.  Domain: either a claim that is Launched and Registered (nothing to do), or a *fresh* claim (no status
    conditions stored yet) with no Node carrying its provider id and the liveness timeouts not reached
    (registration / initialization / liveness then only initialise conditions that C09 does not read; because they do,
    the claim always differs from the stored one and both patches are attempted). -/
def claimLaunch (c : ClaimState) (cache : Bool) (f : ClaimFaults) (createOut : CreateOut) : ClaimOut :=
  let needFin := !c.finalizer
  let o : ClaimOut := if needFin then { calls := [.addClaimFinalizer] } else {}
  match (if needFin then f.addFinalizer else Fault.ok) with
  | .crash => { o with res := .crash, cached := cache }
  | .conflict => { o with res := .requeue, cached := cache }
  | .notFound => { o with cached := cache }
  | .err => { o with err := true, cached := cache }
  | .ok =>
    let o : ClaimOut := { o with finalizerAdded := needFin, cached := cache }
    if c.fresh then launchFresh cache f createOut o else o

/-- lifecycle `Controller.Reconcile` -/
def claimReconcile (c : ClaimState) (nodes : List NodeRef) (cache : Bool) (f : ClaimFaults) (delOut : ProvOut) (createOut : CreateOut) : ClaimOut :=
  if !c.managed then { cached := cache }
  else if c.deleting then { claimFinalize c nodes f delOut with cached := cache }
  else claimLaunch c cache f createOut

end Karp.Term

