/-
Model of `NodePool.Hash()` (pkg/apis/v1/nodepool.go):

    hashstructure.Hash(in.Spec.Template, FormatV2, {SlicesAsSets, IgnoreZeroValue, ZeroNil})

i.e. of the walk `mitchellh/hashstructure/v2` performs over a `v1.NodeClaimTemplate`, written for that type:

* a struct hashes to  `h₀ = H(type name)`, then for every exported field in declaration order that is not tagged
  `hash:"ignore"` / `"-"` and whose value is not `reflect.Value.IsZero()`:  `h := fin (h xor ord(H(field name), visit value))`;
* a slice hashes to the XOR of its element hashes (SlicesAsSets; a nil slice is a zero value and never reached,
  an empty non-nil slice is NOT zero and hashes to 0);
* a map hashes to `fin (XOR over entries of ord(visit k, visit v))`;
* pointers are looked through; strings / integers / `time.Time` hash their bytes.

Which fields exist, their order, names and tags come from the regenerated table `Karp.Gen.C15Hash.structs`
(go/types walk from `v1.NodeClaimTemplate`), so a new field, a renamed field or a changed tag changes the model
(and breaks the `fact_*` expectations in `Props/C15.lean`).

The hash primitives are a parameter (`Prims`): theorems hold for every primitive set whose `xor` is commutative and
associative; the driver instantiates them with FNV-1 64 (`fnvPrims`), which reproduces the real hash value exactly.
Core Lean only.
-/
import Karp.Gen.C15Hash
import Karp.Model.Req

namespace Karp.Hash

/-! ### Hash primitives -/

structure Prims (U : Type) where
  /-- hash of a byte string (strings, little-endian integers, `time.Time.MarshalBinary`) -/
  bytes : List Nat → U
  /-- `hashUpdateOrdered` -/
  ord : U → U → U
  /-- `hashFinishUnordered` -/
  fin : U → U
  /-- `hashUpdateUnordered` -/
  xor : U → U → U
  /-- the initial value of an unordered accumulation (`var h uint64`) -/
  zero : U

def two64 : Nat := 18446744073709551616
def fnvOffset : Nat := 14695981039346656037
def fnvPrime : Nat := 1099511628211

/-- FNV-1, 64 bit (`hash/fnv.New64`): multiply, then xor the byte -/
def fnv (bs : List Nat) : Nat := bs.foldl (fun h b => ((h * fnvPrime) % two64) ^^^ b) fnvOffset

/-- `n` as `w` little-endian bytes -/
def le (w n : Nat) : List Nat := (List.range w).map (fun i => (n / 256 ^ i) % 256)
/-- `n` as `w` big-endian bytes -/
def be (w n : Nat) : List Nat := (le w n).reverse

def fnvPrims : Prims Nat where
  bytes := fnv
  ord a b := fnv (le 8 a ++ le 8 b)
  fin a := fnv (le 8 a)
  xor := Nat.xor
  zero := 0

/-- `[]byte(s)` -/
def utf8 (s : String) : List Nat := s.toList.flatMap (fun c => (String.utf8EncodeChar c).map (·.toNat))

/-- `binary.Write(LittleEndian, int64)`: two's complement -/
def i64bytes (v : Int) : List Nat := le 8 (v % (two64 : Int)).toNat

/-- `time.Time.MarshalBinary` of a UTC time with whole seconds: version 1, seconds since year 1 (big endian),
    nanoseconds, zone offset -1 -/
def timeBytes (unix : Int) : List Nat := [1] ++ be 8 (unix + 62135596800).toNat ++ be 4 0 ++ [255, 255]

/-! ### The template -/

structure Taint where
  key : String
  value : String
  effect : String
  /-- `TimeAdded *metav1.Time`: `none` = nil, `some none` = pointer to the zero time, `some (some s)` = UTC second `s` -/
  timeAdded : Option (Option Int) := none
deriving Repr, DecidableEq

structure NodeClassRef where
  kind : String
  name : String
  group : String
deriving Repr, DecidableEq

/-- `v1.NodeClaimTemplate`; `none` is Go `nil` (a nil slice/map/pointer), `some []` an empty non-nil one -/
structure Template where
  labels : Option (List (String × String)) := none
  annotations : Option (List (String × String)) := none
  taints : Option (List Taint) := none
  startupTaints : Option (List Taint) := none
  requirements : Option (List Karp.Req.Sel) := none
  nodeClassRef : Option NodeClassRef := none
  /-- `TerminationGracePeriod *metav1.Duration` in nanoseconds -/
  tgp : Option Int := none
  /-- `ExpireAfter.Duration *time.Duration` in nanoseconds (`none` = "Never") -/
  expireAfter : Option Int := none
  /-- `ExpireAfter.Raw []byte` (the text the duration was written as) -/
  expireAfterRaw : Option String := none
deriving Repr, DecidableEq

/-! ### The walk -/

abbrev FieldRow := String × String × String × Bool

def fieldsOf (qualified : String) : Option (String × List FieldRow) :=
  match Karp.Gen.C15Hash.structs.find? (fun r => r.1 == qualified) with
  | some (_, short, fields) => some (short, fields)
  | none => none

def visited (row : FieldRow) : Bool := row.2.2.2 && row.2.2.1 != "ignore" && row.2.2.1 != "-"

variable {U : Type}

/-- one included field: `h := fin (h xor ord(H(name), value hash))`; a zero-valued field (`none`) leaves `h` alone -/
def inc (P : Prims U) (name : String) (v : Option U) (h : U) : U :=
  match v with
  | some vh => P.fin (P.xor h (P.ord (P.bytes (utf8 name)) vh))
  | none => h

/-- one step of the struct loop: `vals` maps the fields the model knows to `none` (the Go value `IsZero()`) or
    `some h` (the hash of the value); a field the model does not know is never set by the harness, hence zero -/
def fieldStep (P : Prims U) (vals : List (String × Option U)) (h : U) (row : FieldRow) : U :=
  if visited row then inc P row.1 ((vals.lookup row.1).getD none) h else h

/-- `visit` of a struct value of the given (package-qualified) type -/
def structHash (P : Prims U) (qualified : String) (vals : List (String × Option U)) : U :=
  match fieldsOf qualified with
  | none => P.zero
  | some (short, fields) => fields.foldl (fieldStep P vals) (P.bytes (utf8 short))

/-- SlicesAsSets: XOR of the element hashes -/
def hSet (P : Prims U) (l : List U) : U := l.foldl P.xor P.zero

/-- a string-kinded field: zero iff empty -/
def hStr (P : Prims U) (s : String) : Option U := if s = "" then none else some (P.bytes (utf8 s))

def tTime : String := "k8s.io/apimachinery/pkg/apis/meta/v1.Time"
def tTaint : String := "k8s.io/api/core/v1.Taint"
def tRef : String := "sigs.k8s.io/karpenter/pkg/apis/v1.NodeClassReference"
def tDuration : String := "k8s.io/apimachinery/pkg/apis/meta/v1.Duration"
def tNillable : String := "sigs.k8s.io/karpenter/pkg/apis/v1.NillableDuration"
def tMeta : String := "sigs.k8s.io/karpenter/pkg/apis/v1.ObjectMeta"
def tSpec : String := "sigs.k8s.io/karpenter/pkg/apis/v1.NodeClaimTemplateSpec"
def tTemplate : String := "sigs.k8s.io/karpenter/pkg/apis/v1.NodeClaimTemplate"

def hTimeAdded (P : Prims U) (ta : Option (Option Int)) : Option U :=
  ta.map (fun inner => structHash P tTime [("Time", inner.map (fun s => P.bytes (timeBytes s)))])

def hTaint (P : Prims U) (t : Taint) : U :=
  structHash P tTaint [("Key", hStr P t.key), ("Value", hStr P t.value), ("Effect", hStr P t.effect),
    ("TimeAdded", hTimeAdded P t.timeAdded)]

def hTaints (P : Prims U) (ts : Option (List Taint)) : Option U :=
  ts.map (fun l => hSet P (l.map (hTaint P)))

def hEntry (P : Prims U) (kv : String × String) : U := P.ord (P.bytes (utf8 kv.1)) (P.bytes (utf8 kv.2))

/-- a `map[string]string` (entries with distinct keys) -/
def hMap (P : Prims U) (m : Option (List (String × String))) : Option U :=
  m.map (fun l => P.fin (hSet P (l.map (hEntry P))))

def hRef (P : Prims U) (r : Option NodeClassRef) : Option U :=
  r.map (fun r => structHash P tRef [("Kind", hStr P r.kind), ("Name", hStr P r.name), ("Group", hStr P r.group)])

/-- `*metav1.Duration`: the inner `Duration int64` is skipped when 0 -/
def hTGP (P : Prims U) (d : Option Int) : Option U :=
  d.map (fun v => structHash P tDuration [("Duration", if v = 0 then none else some (P.bytes (i64bytes v)))])

/-- `[]byte` hashed as a set of single bytes (only reached if the `ignore` tag on `Raw` were dropped) -/
def hRaw (P : Prims U) (raw : Option String) : Option U :=
  raw.map (fun s => hSet P ((utf8 s).map (fun b => P.bytes [b])))

/-- `NillableDuration`: the field is zero iff BOTH the pointer and `Raw` are nil (`IsZero` also looks at ignored fields) -/
def hExpire (P : Prims U) (d : Option Int) (raw : Option String) : Option U :=
  if d.isNone && raw.isNone then none
  else some (structHash P tNillable [("Duration", d.map (fun v => P.bytes (i64bytes v))), ("Raw", hRaw P raw)])

/-- placeholder for the (ignored, hence never visited) requirements -/
def hRequirements (P : Prims U) (r : Option (List Karp.Req.Sel)) : Option U := r.map (fun _ => P.zero)

def Template.metaIsZero (t : Template) : Bool := t.labels.isNone && t.annotations.isNone

/-- `reflect.Value.IsZero` of the `Spec` field: every field, the ignored `Requirements` included -/
def Template.specIsZero (t : Template) : Bool :=
  t.taints.isNone && t.startupTaints.isNone && t.requirements.isNone && t.nodeClassRef.isNone && t.tgp.isNone &&
  t.expireAfter.isNone && t.expireAfterRaw.isNone

def hMeta (P : Prims U) (t : Template) : Option U :=
  if t.metaIsZero then none
  else some (structHash P tMeta [("Labels", hMap P t.labels), ("Annotations", hMap P t.annotations)])

def hSpec (P : Prims U) (t : Template) : Option U :=
  if t.specIsZero then none
  else some (structHash P tSpec [("Taints", hTaints P t.taints), ("StartupTaints", hTaints P t.startupTaints),
    ("Requirements", hRequirements P t.requirements), ("NodeClassRef", hRef P t.nodeClassRef),
    ("TerminationGracePeriod", hTGP P t.tgp), ("ExpireAfter", hExpire P t.expireAfter t.expireAfterRaw)])

/-- `hashstructure.Hash(template, …)` -/
def hashTemplate (P : Prims U) (t : Template) : U :=
  structHash P tTemplate [("ObjectMeta", hMeta P t), ("Spec", hSpec P t)]

/-! ### The NodePool -/

/-- the NodePool fields the property names as non-drifting, all outside `Spec.Template` -/
structure Outside where
  weight : Option Int := none
  limits : List (String × Int) := []
  budgets : List (String × List String × Option String × Option Int) := []
  consolidateAfter : Option Int := none
  consolidationPolicy : String := ""
  replicas : Option Int := none
  metaLabels : List (String × String) := []
deriving Repr, DecidableEq

structure Pool where
  template : Template
  outside : Outside := {}
deriving Repr, DecidableEq

/-- `NodePool.Hash()`: only `in.Spec.Template` is hashed (`Karp.Gen.C15Hash.hashedExpr`) -/
def poolHash (P : Prims U) (p : Pool) : U := hashTemplate P p.template

/-- `fmt.Sprint(uint64)` of the FNV instance: what ends up in the annotation -/
def Pool.hashString (p : Pool) : String := toString (poolHash fnvPrims p)

end Karp.Hash
