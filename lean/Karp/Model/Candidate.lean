/-
Model of the candidate-eligibility logic of karpenter's voluntary disruption, AS THE CODE IS:

* `pkg/utils/pod/scheduling.go`        — IsActive / IsReschedulable / IsEvictable / IsDisruptable / IsDoNotDisruptActive
* `pkg/utils/pdb/pdb.go`               — Limits.isEvictable / CanEvictPods
* `pkg/utils/disruption/disruption.go` — EvictionCost (only its sign matters), IsUnderConsolidateAfter
* `pkg/controllers/state/statenode.go` — Registered / Initialized / Labels / Annotations / MarkedForDeletion /
                                          Nominated / ValidateNodeDisruptable / ValidatePodsDisruptable,
                                          `Cluster.UpdateNode` ingestion guard, MarkForDeletion, NominateNodeForPod
* `pkg/controllers/disruption/types.go`— NewCandidate, Candidate.IsEmpty, OwnedByStaticNodePool
* `pkg/controllers/disruption/{emptiness,drift,staticdrift,consolidation}.go` — the five `ShouldDisrupt` filters
* `pkg/controllers/nodeclaim/disruption/{controller,consolidation}.go` — maintenance of the Consolidatable condition

Core Lean only.  Constants and tables come from the regenerated `Karp.Gen.CandidateFacts`.
All times are `Int` nanoseconds on one axis (the harness uses "after T0").
-/
import Karp.Gen.CandidateFacts

namespace Karp.Candidate
open Karp.Gen

/-! ## Vocabulary (shared with the specification: plain data, no logic) -/

/-- value of a `karpenter.sh/do-not-disrupt` annotation as Go sees it -/
inductive Ann
  | none                -- annotation absent
  | true_               -- the literal "true"
  | dur (ns : Int)      -- a string that `time.ParseDuration` accepts, with that value (may be ≤ 0)
  | bad                 -- anything else
deriving Repr, DecidableEq

/-- a label that the code compares with "true" / with "" -/
inductive Lbl | absent | true_ | other
deriving Repr, DecidableEq

/-- a status condition -/
inductive Cond | absent | true_ | false_ | unknown
deriving Repr, DecidableEq

def Cond.isTrue : Cond → Bool
  | .true_ => true
  | _ => false

def Cond.present : Cond → Bool
  | .absent => false
  | _ => true

inductive PoolRef | none | this | ghost      -- value of the karpenter.sh/nodepool label
deriving Repr, DecidableEq
inductive ItRef | none | known | unknown     -- value of the instance-type label
deriving Repr, DecidableEq

/-- the labels / annotations of a Node or a NodeClaim that the anchored code reads -/
structure Meta where
  dnd  : Ann
  pool : PoolRef
  it   : ItRef
  ct   : Bool
  zone : Bool
deriving Repr, DecidableEq

structure Node where
  md       : Meta
  init     : Lbl      -- karpenter.sh/initialized
  reg      : Lbl      -- karpenter.sh/registered
  deleting : Bool     -- the Node object has a deletionTimestamp
deriving Repr, DecidableEq

structure Claim where
  md             : Meta
  deleting       : Bool          -- metadata.deletionTimestamp set
  terminating    : Cond          -- InstanceTerminating
  tgp            : Bool          -- spec.terminationGracePeriod != nil
  drifted        : Cond
  consolidatable : Cond
  initialized    : Cond
  initAt         : Int           -- lastTransitionTime of Initialized
  lastPodEvent   : Option Int    -- status.lastPodEventTime (none = zero)
deriving Repr, DecidableEq

inductive Policy | whenEmpty | whenEmptyOrUnderutilized | balanced
deriving Repr, DecidableEq

structure Pool where
  present          : Bool          -- the NodePool object exists
  managed          : Bool          -- its nodeClassRef is one of the cloud provider's node classes
  static           : Bool          -- spec.replicas != nil
  consolidateAfter : Option Int    -- none = "Never"
  policy           : Policy
  hasITs           : Bool          -- GetInstanceTypes returns a non-empty list
deriving Repr, DecidableEq

inductive Tol | none | keyExists | keyEqual | all | otherKey | keyNoExecute | keyNoSchedule
deriving Repr, DecidableEq

/-- `Toleration.ToleratesTaint` for the taint `karpenter.sh/disrupted:NoSchedule` (library behaviour, tabulated) -/
def Tol.tolerates : Tol → Bool
  | .none => false
  | .keyExists => true
  | .keyEqual => true        -- Equal with value "" against the taint's empty value
  | .all => true
  | .otherKey => false
  | .keyNoExecute => false
  | .keyNoSchedule => true

structure Pod where
  onNode      : Bool          -- spec.nodeName is the node under consideration
  ns          : Nat
  app         : Option Nat    -- label app=a<k>
  terminal    : Bool          -- phase Succeeded / Failed
  terminating : Bool          -- deletionTimestamp set
  daemon      : Bool
  mirror      : Bool          -- owned by a Node (static pod)
  sts         : Bool
  tol         : Tol
  dnd         : Ann
  start       : Option Int    -- status.startTime
  notReady    : Bool          -- has condition Ready=False
  delCost     : Option Int    -- controller.kubernetes.io/pod-deletion-cost
  prio        : Option Int    -- spec.priority
deriving Repr, DecidableEq

inductive Sel | nothing | everything | app (k : Nat)
deriving Repr, DecidableEq

structure Pdb where
  ns          : Nat
  sel         : Sel
  allowed     : Nat      -- status.disruptionsAllowed
  alwaysAllow : Bool     -- unhealthyPodEvictionPolicy = AlwaysAllow
deriving Repr, DecidableEq

/-- everything one case consists of: the API objects, the clock, and what happened to the in-memory state -/
structure World where
  now         : Int
  batchMax    : Int           -- options.BatchMaxDuration (ns)
  claim       : Option Claim
  node        : Option Node
  marked      : Bool          -- Cluster.MarkForDeletion was called
  nominatedAt : Option Int    -- Cluster.NominateNodeForPod was called at that instant
  inQueue     : Bool          -- the orchestration queue holds a command for the provider id
  buffer      : Nat           -- virtual capacity-buffer pods placed on the node by the last provisioning pass
  pool        : Pool
  pods        : List Pod
  pdbs        : List Pdb
deriving Repr, DecidableEq

inductive Method | emptiness | staticDrift | drift | multi | single
deriving Repr, DecidableEq

def Method.name : Method → String
  | .emptiness => "Emptiness"
  | .staticDrift => "StaticDrift"
  | .drift => "Drift"
  | .multi => "MultiNodeConsolidation"
  | .single => "SingleNodeConsolidation"

def Method.all : List Method := [.emptiness, .staticDrift, .drift, .multi, .single]

inductive Class | graceful | eventual
deriving Repr, DecidableEq

def Class.name : Class → String
  | .graceful => CandidateFacts.gracefulClass
  | .eventual => CandidateFacts.eventualClass

/-- `Method.Class()`, read from the regenerated table; `none` if the table no longer knows the method or the class -/
def classOf? (m : Method) : Option Class :=
  match CandidateFacts.methodClass.lookup m.name with
  | none => none
  | some s =>
    if s = CandidateFacts.gracefulClass then some .graceful
    else if s = CandidateFacts.eventualClass then some .eventual
    else none

/-- `Method.Class()`; graceful when the table has no answer (then `fact_method_classes` fails to build) -/
def classOf (m : Method) : Class := (classOf? m).getD .graceful

/-! ## Pods (`pkg/utils/pod/scheduling.go`) -/

def isActive (p : Pod) : Bool := !p.terminal && !p.terminating

/-- `IsReschedulable` -/
def isReschedulable (p : Pod) : Bool :=
  (isActive p || (p.sts && p.terminating)) && !p.daemon && !p.mirror

/-- `IsDoNotDisruptActive` (with `parseDoNotDisrupt`: a duration `≤ 0` is invalid) -/
def dndActive (now : Int) (p : Pod) : Bool :=
  match p.dnd with
  | .none => false
  | .true_ => true
  | .bad => false
  | .dur d =>
    if d ≤ 0 then false
    else match p.start with
      | none => true                 -- fail safe
      | some s => now - s < d

/-- `IsDisruptable` -/
def isDisruptable (now : Int) (p : Pod) : Bool := !isActive p || !dndActive now p

/-- `IsEvictable` -/
def isEvictable (now : Int) (p : Pod) : Bool :=
  isActive p && !p.tol.tolerates && !p.mirror && !dndActive now p

/-! ## Eviction cost sign (`pkg/utils/disruption.EvictionCost`) -/

def costScale : Nat := max CandidateFacts.evictionDelExp CandidateFacts.evictionPrioExp

/-- `EvictionCost(p) * 2^costScale` before clamping, exact for integer annotations -/
def scaledCost (p : Pod) : Int :=
  CandidateFacts.evictionBase * (2 : Int) ^ costScale
    + (p.delCost.getD 0) * (2 : Int) ^ (costScale - CandidateFacts.evictionDelExp)
    + (p.prio.getD 0) * (2 : Int) ^ (costScale - CandidateFacts.evictionPrioExp)

/-- `EvictionCost(p) > 0` (the clamp keeps the sign as long as it straddles zero, see `fact_eviction_cost`) -/
def costPositive (p : Pod) : Bool := 0 < scaledCost p

/-! ## PDBs (`pkg/utils/pdb/pdb.go`) -/

def Pdb.matches (b : Pdb) (p : Pod) : Bool :=
  b.ns == p.ns &&
  (match b.sel with
   | .nothing => false
   | .everything => true
   | .app k => p.app == some k)

/-- `Limits.isEvictable(pod, zeroDisruptions)`: (number of PDB keys reported, evictable) -/
def pdbEvictable (now : Int) (pdbs : List Pdb) (p : Pod) : Nat × Bool :=
  if !isEvictable now p then (0, true)
  else
    let ms := pdbs.filter (fun b => b.matches p)
    if ms.length > 1 then (ms.length, false)
    else match ms with
      | [] => (0, true)
      | b :: _ =>
        if b.alwaysAllow && p.notReady then (0, true)
        else if b.allowed == 0 then (1, false)
        else (0, true)

/-- `Limits.CanEvictPods`: the keys of the first pod that cannot be evicted -/
def canEvictPods (now : Int) (pdbs : List Pdb) : List Pod → Nat × Bool
  | [] => (0, true)
  | p :: ps =>
    let r := pdbEvictable now pdbs p
    if r.2 then canEvictPods now pdbs ps else r

/-! ## Cluster state (`state.Cluster`, `state.StateNode`) -/

/-- `Cluster.UpdateNode` ignores a managed node that has neither an instance-type label nor an initialized label -/
def nodeTracked (n : Node) : Bool :=
  !(n.md.pool != .none && n.md.it == .none && n.init == .absent)

structure StateNode where
  claim          : Option Claim
  node           : Option Node
  marked         : Bool
  nominatedUntil : Option Int
deriving Repr, DecidableEq

/-- `nominationWindow` -/
def nominationWindow (batchMax : Int) : Int :=
  max ((CandidateFacts.nominationBatchFactor : Int) * batchMax) (CandidateFacts.nominationFloorNs : Int)

/-- the StateNode the cluster tracks for the provider id after the events of the world were delivered
    (NodeClaim event, Node event, then MarkForDeletion / NominateNodeForPod); `none` = not tracked -/
def stateNode (w : World) : Option StateNode :=
  let node := w.node.filter nodeTracked
  if w.claim.isNone && node.isNone then none
  else some {
    claim := w.claim, node := node, marked := w.marked,
    nominatedUntil := w.nominatedAt.map (fun t => t + nominationWindow w.batchMax) }

def StateNode.managed (s : StateNode) : Bool := s.claim.isSome

def StateNode.registered (s : StateNode) : Bool :=
  if s.managed then (match s.node with | some n => n.reg == .true_ | none => false) else true

def StateNode.initialized (s : StateNode) : Bool :=
  if s.managed then (match s.node with | some n => n.init == .true_ | none => false) else true

/-- `Labels()` / `Annotations()`: the Node's once it is registered, the NodeClaim's before -/
def StateNode.md (s : StateNode) : Option Meta :=
  match s.node, s.claim with
  | none, c => c.map (·.md)
  | some n, none => some n.md
  | some n, some c => if !s.registered then some c.md else some n.md

/-- `Deleted()` -/
def StateNode.deleted (s : StateNode) : Bool :=
  (match s.claim with
   | some c => c.deleting || c.terminating.isTrue
   | none => false) ||
  (match s.node, s.claim with
   | some n, none => n.deleting
   | _, _ => false)

def StateNode.markedForDeletion (s : StateNode) : Bool := s.marked || s.deleted

def StateNode.nominated (s : StateNode) (now : Int) : Bool :=
  match s.nominatedUntil with
  | none => false
  | some u => now < u

/-- `ValidateNodeDisruptable` returns nil -/
def StateNode.validateNode (s : StateNode) (now : Int) : Bool :=
  if s.claim.isNone then false
  else if s.node.isNone then false
  else if !s.initialized then false
  else if s.markedForDeletion then false
  else if s.nominated now then false
  else match s.md with
    | none => false
    | some md =>
      if md.dnd == .true_ then false
      else if md.pool == .none then false
      else true

/-- the pods `StateNode.Pods` lists: bound to the node's name; none when there is no Node object -/
def StateNode.pods (s : StateNode) (pods : List Pod) : List Pod :=
  if s.node.isNone then [] else pods.filter (·.onNode)

/-- `ValidatePodsDisruptable` returns no error -/
def StateNode.validatePods (s : StateNode) (now : Int) (pods : List Pod) (pdbs : List Pdb) : Bool :=
  let ps := s.pods pods
  if !ps.all (isDisruptable now) then false
  else (canEvictPods now pdbs ps).2

/-! ## `NewCandidate` -/

/-- `node.NodeClaim.Spec.TerminationGracePeriod != nil` -/
def StateNode.tgp (s : StateNode) : Bool :=
  match s.claim with
  | some c => c.tgp
  | none => false

inductive CandVerdict | ok | podBlocked | blocked
deriving Repr, DecidableEq

/-- nodePoolMap[name] and nodePoolToInstanceTypesMap[name] are both non-nil -/
def poolResolves (w : World) (md : Meta) : Bool :=
  md.pool == .this && w.pool.present && w.pool.managed && w.pool.hasITs

def newCandidateOn (w : World) (s : StateNode) (cls : Class) : CandVerdict :=
  if w.inQueue then .blocked
  else if !s.validateNode w.now then .blocked
  else match s.md with
    | none => .blocked
    | some md =>
      if !poolResolves w md then .blocked
      else if s.validatePods w.now w.pods w.pdbs then .ok
      else if s.tgp && cls == .eventual then .ok
      else .podBlocked

def newCandidate (w : World) (cls : Class) : CandVerdict :=
  match stateNode w with
  | none => .blocked
  | some s => newCandidateOn w s cls

/-! ## The `ShouldDisrupt` filters (evaluated on a candidate that `NewCandidate` returned) -/

/-- `Candidate.IsEmpty`: no reschedulable pod contributes positive disruption cost -/
def isEmpty (s : StateNode) (pods : List Pod) : Bool :=
  ((s.pods pods).filter isReschedulable).all (fun p => !costPositive p)

def consolidationEnabled (w : World) : Bool := w.pool.consolidateAfter.isSome

def claimCond (s : StateNode) (f : Claim → Cond) : Bool :=
  match s.claim with
  | some c => (f c).isTrue
  | none => false

def shouldDisruptOn (w : World) (s : StateNode) (md : Meta) : Method → Bool
  | .emptiness =>
    if w.pool.static then false
    else if !consolidationEnabled w then false
    else if w.buffer > 0 then false
    else isEmpty s w.pods && claimCond s (·.consolidatable)
  | .drift => !w.pool.static && claimCond s (·.drifted)
  | .staticDrift => w.pool.static && claimCond s (·.drifted)
  | .multi | .single =>
    if w.pool.static then false
    else if md.it != .known then false
    else if !md.ct then false
    else if !md.zone then false
    else if !consolidationEnabled w then false
    else if isEmpty s w.pods then false
    else if w.pool.policy == .whenEmpty then false
    else claimCond s (·.consolidatable)

/-- the tracked StateNode `s` is a candidate of method `m` in the environment `w` (clock, queue, pool, pods, PDBs,
    buffer counts): `NewCandidate` with the method's class succeeds and the method's `ShouldDisrupt` accepts the
    candidate.  This is the filter `GetCandidates` applies to every StateNode. -/
def selectedOn (w : World) (s : StateNode) (m : Method) : Bool :=
  newCandidateOn w s (classOf m) == .ok &&
  (match s.md with
   | some md => shouldDisruptOn w s md m
   | none => false)

/-- the node of world `w` is a candidate of method `m` -/
def selected (w : World) (m : Method) : Bool :=
  match stateNode w with
  | none => false
  | some s => selectedOn w s m

/-! ## A pass is not atomic: what a method looks at again between `GetCandidates` and its command

`Controller.disrupt` lists the candidates of a method (`GetCandidates`, world `w0`), builds the budgets and only then
calls `ComputeCommands`; other controllers (expiration, static scale-down, node repair, a user deleting the
NodeClaim, the orchestration queue) keep writing to the same in-memory cluster state meanwhile (world `w1`). -/

/-- a node starts deleting while the pass is under way: `Cluster.MarkForDeletion`, or the informer delivers the
    NodeClaim with a deletionTimestamp / with InstanceTerminating=True -/
inductive LateDeletion | mark | claimDelete | claimTerminating
deriving Repr, DecidableEq

def LateDeletion.all : List LateDeletion := [.mark, .claimDelete, .claimTerminating]

def LateDeletion.apply : LateDeletion → World → World
  | .mark, w => { w with marked := true }
  | .claimDelete, w => { w with claim := w.claim.map (fun c => { c with deleting := true }) }
  | .claimTerminating, w => { w with claim := w.claim.map (fun c => { c with terminating := .true_ }) }

/-- every candidate a command of the method contains went through `SimulateScheduling` (Drift: one candidate at a
    time; Multi/SingleNodeConsolidation: `computeConsolidation`).  Emptiness and StaticDrift build their commands
    without a scheduling simulation.  Read off the regenerated call lists of the `ComputeCommands` bodies. -/
def simulates : Method → Bool
  | .drift => CandidateFacts.driftComputeCalls.contains "SimulateScheduling"
  | .single =>
    CandidateFacts.singleComputeCalls.contains "computeConsolidation" &&
    CandidateFacts.computeConsolidationCalls.contains "SimulateScheduling"
  | .multi =>
    CandidateFacts.multiComputeCalls.contains "firstNConsolidationOption" &&
    CandidateFacts.multiOptionCalls.contains "computeConsolidation" &&
    CandidateFacts.computeConsolidationCalls.contains "SimulateScheduling"
  | .emptiness => CandidateFacts.emptinessComputeCalls.contains "SimulateScheduling"
  | .staticDrift =>
    -- (or any other look at the deletion state of its candidates)
    CandidateFacts.staticDriftComputeCalls.any (fun c => ["SimulateScheduling", "Deleting", "MarkedForDeletion", "Deleted"].contains c)

/-- the method validates its command after a delay by listing its candidates again (graceful methods) -/
def revalidates (m : Method) : Bool := classOf m == .graceful

/-- the "one final check" of `SimulateScheduling`: the candidate is not among `cluster.DeepCopyNodes().Deleting()`
    (a node the cluster state no longer tracks is not among them either) -/
def finalLook (w : World) : Bool :=
  match stateNode w with
  | some s => !s.markedForDeletion
  | none => true

/-- the node may be a candidate of a command of method `m` that was computed in world `w1` from the candidates
    listed in world `w0` -/
def mayCommand (m : Method) (w0 w1 : World) : Bool :=
  selected w0 m && (!simulates m || finalLook w1) && (!revalidates m || selected w1 m)

/-! ## Maintenance of the Consolidatable condition (`nodeclaim.disruption` controller) -/

/-- `disruption.IsUnderConsolidateAfter` -/
def underConsolidateAfter (pool : Pool) (c : Claim) (now : Int) : Bool :=
  match pool.consolidateAfter with
  | none => false
  | some ca =>
    if ca == 0 then false
    else if !c.initialized.isTrue then false
    else
      let t := c.lastPodEvent.getD c.initAt
      now - t < ca

/-- `Consolidation.Reconcile`: the Consolidatable condition afterwards -/
def consolidatableAfter (pool : Pool) (c : Claim) (now : Int) : Cond :=
  if pool.consolidateAfter.isNone then .absent
  else if !c.initialized.isTrue then .absent
  else if underConsolidateAfter pool c now then .absent
  else .true_

/-- what may go wrong during one run of `Controller.Reconcile` of `nodeclaim.disruption` (vocabulary, shared with the
    specification).  Each field is one fault position of the Go function. -/
structure RFaults where
  /-- the Drift sub-reconciler fails: the cloud provider's `IsDrifted` (or `GetInstanceTypes`, for a NodeClaim older
      than an hour) returns an error — reported to the caller or swallowed (`IgnoreNodeClaimNotFoundError`) -/
  drift   : Bool := false
  /-- `kubeClient.Get` of the NodePool fails (any error other than NotFound; NotFound is `pool.present = false`) -/
  poolGet : Bool := false
  /-- the API server refuses the status patch (conflict, not found, server error): nothing is persisted -/
  patch   : Bool := false
deriving Repr, DecidableEq

/-- `Controller.Reconcile` of `nodeclaim.disruption` as far as the PERSISTED Consolidatable condition goes: nothing
    happens for a deleting NodeClaim, one without nodepool label, or whose NodePool cannot be read (missing, or the
    read fails); static pools skip the Consolidation sub-reconciler; a refused status patch persists nothing.
    `runReconcilers` runs EVERY sub-reconciler and collects the errors (`multierr.Append`; the loop has no early
    exit — `CandidateFacts.subReconcilerLoopExits`), and `Reconcile` patches before it returns them
    (`CandidateFacts.reconcileReturnsBeforePatch`): a failing drift check (`f.drift`) changes nothing here. -/
def reconcileClaimF (f : RFaults) (pool : Pool) (c : Claim) (now : Int) : Claim :=
  if c.deleting then c
  else if c.md.pool != .this || !pool.present then c
  else if f.poolGet then c
  else if pool.static then c
  else if f.patch then c
  else { c with consolidatable := consolidatableAfter pool c now }

/-- the fault-free run -/
def reconcileClaim (pool : Pool) (c : Claim) (now : Int) : Claim := reconcileClaimF {} pool c now

end Karp.Candidate
