/-
Model for C04 — the parts of a provisioning round that decide whether NEW capacity is opened:

1. `SNode`: `state.StateNode` reduced to what the scheduler reads, with the accessors `Managed / Registered /
   Initialized / Name / Labels / Taints / Allocatable / MarkedForDeletion` exactly as `pkg/controllers/state/statenode.go`
   computes them from the two API objects (Node, NodeClaim).  The well-known ephemeral taints come from the regenerated
   table `Karp.Gen.C04Flow.knownEphemeralTaints`.
2. `decide` / `runPass`: `Scheduler.add` — existing nodes first, then the NodeClaims opened earlier in the pass, then a
   new NodeClaim — over the admission function of `Karp.Sched` for existing nodes and an abstract admission function for
   the NodeClaims of the pass (their instance-type filter is C01's model).
3. `Sync`: `Cluster.Synced` / `UpdateNodeClaim` / `DeleteNodeClaim` and the gate in `Provisioner.Reconcile`.
Core Lean only.
-/
import Karp.Model.Sched
import Karp.Gen.C04Flow

namespace Karp.Provision
open Karp.Req Karp.Scn Karp.Sched

/-! ## 1. The scheduler's view of a node -/

/-- `scheduling.IsKnownEphemeralTaint`: `MatchTaint` (key and effect) against the table, or a known key prefix -/
def knownEphemeral (t : Taint) : Bool :=
  Karp.Gen.C04Flow.knownEphemeralTaints.any (fun (k, _, e) => t.key == k && t.effect == e) ||
  Karp.Gen.C04Flow.knownEphemeralTaintKeyPrefixes.any (fun pre => t.key.startsWith pre)

/-- the three resources the model tracks (milli-cpu, Mi, pods) -/
structure Res where
  cpu : Int
  mem : Int
  pods : Int
deriving Repr, DecidableEq

structure NodeObj where
  name : String
  labels : Labels
  taints : List Taint
  alloc : Res
deriving Repr

structure ClaimObj where
  name : String
  labels : Labels
  taints : List Taint
  startupTaints : List Taint
  alloc : Res
  deleting : Bool            -- deletionTimestamp set or InstanceTerminating
deriving Repr

structure SNode where
  node : Option NodeObj
  claim : Option ClaimObj
  marked : Bool              -- `markedForDeletion`
  nodeDeleting : Bool        -- the Node's deletionTimestamp
deriving Repr

def labelIs (ls : Labels) (k v : String) : Bool := ls.lookup k == some v

def SNode.managed (n : SNode) : Bool := n.claim.isSome

def SNode.registered (n : SNode) : Bool :=
  if n.managed then
    match n.node with
    | some nd => labelIs nd.labels Karp.Gen.C04Flow.nodeRegisteredLabelKey "true"
    | none => false
  else true

def SNode.initialized (n : SNode) : Bool :=
  if n.managed then
    match n.node with
    | some nd => labelIs nd.labels Karp.Gen.C04Flow.nodeInitializedLabelKey "true"
    | none => false
  else true

/-- `StateNode.Labels` -/
def SNode.labels (n : SNode) : Labels :=
  match n.node, n.claim with
  | none, some c => c.labels
  | some nd, none => nd.labels
  | some nd, some c => if !n.registered then c.labels else nd.labels
  | none, none => []

/-- `StateNode.Name` -/
def SNode.name (n : SNode) : String :=
  match n.node, n.claim with
  | none, some c => c.name
  | some nd, none => nd.name
  | some nd, some c => if !n.registered then c.name else nd.name
  | none, none => ""

/-- `StateNode.Taints` -/
def SNode.taints (n : SNode) : List Taint :=
  let raw : List Taint :=
    match n.node, n.claim with
    | _, none => (n.node.map (·.taints)).getD []
    | none, some c => c.taints
    | some nd, some c => if !n.registered then c.taints else nd.taints
  match n.claim with
  | some c =>
    if !n.initialized then
      raw.filter (fun t => !(knownEphemeral t || c.startupTaints.any (fun st => matchTaint st t)))
    else raw
  | none => raw

def orIfZero (nodeV claimV : Int) : Int := if nodeV == 0 then claimV else nodeV

/-- `StateNode.Allocatable`: until the node is initialized, a zero (or missing) quantity in the Node's status is
    overridden by the NodeClaim's -/
def SNode.allocatable (n : SNode) : Res :=
  match n.claim with
  | some c =>
    if !n.initialized then
      match n.node with
      | some nd => { cpu := orIfZero nd.alloc.cpu c.alloc.cpu, mem := orIfZero nd.alloc.mem c.alloc.mem, pods := orIfZero nd.alloc.pods c.alloc.pods }
      | none => c.alloc
    else (n.node.map (·.alloc)).getD { cpu := 0, mem := 0, pods := 0 }
  | none => (n.node.map (·.alloc)).getD { cpu := 0, mem := 0, pods := 0 }

/-- `StateNode.MarkedForDeletion` -/
def SNode.markedForDeletion (n : SNode) : Bool :=
  n.marked ||
  (match n.claim with
   | some c => c.deleting
   | none => n.node.isSome && n.nodeDeleting)

/-- `StateNodes.Active` -/
def active (ns : List SNode) : List SNode := ns.filter (fun n => !n.markedForDeletion)

/-! ### The node as an `ExistingNode` of a pass -/

/-- `NewExistingNode` for a node nothing is bound to yet: `remaining` is what is left of the daemonset reservation -/
def SNode.asExisting (n : SNode) (dCPU dMem dPods : Int) : ExNode :=
  let a := n.allocatable
  { labels := n.labels, taints := n.taints, remCPU := a.cpu - dCPU, remMem := a.mem - dMem, remPods := a.pods - dPods, ports := [] }

/-! ### The scenario-level view with the daemon pods' PreferNoSchedule toleration made explicit

`isDaemonPodCompatible` ADDS the PreferNoSchedule toleration to the daemon pods, in place, while the daemon-overhead
groups of the NodeClaimTemplates are built.  The same pod objects are then used to compute what the daemonsets still
need on each existing node, so they tolerate `PreferNoSchedule` taints there — unless no template had an instance type
left, in which case the toleration was never added.  `Karp.Sched.viewNode` is the `pns := true` case. -/

def dsCountedWith (pns : Bool) (d : DaemonSet) (ls : Labels) (taints : List Taint) : Bool :=
  toleratesAll (d.tolerations ++ (if pns then [pnsToleration] else [])) taints &&
  (labelReqs ls).compatible (podReqs (selectorExprs d.nodeSelector)) []

def viewNodeWith (pns : Bool) (s : Scenario) (n : Node) : Option ExNode :=
  match s.it? n.it with
  | none => none
  | some it =>
    let ls := viewLabels s n
    let taints := viewTaints s n
    let bound := n.pods
    let bCPU := bound.foldl (fun a p => a + p.cpu) 0
    let bMem := bound.foldl (fun a p => a + p.mem) 0
    let daemons := s.daemonsets.filter (fun d => dsCountedWith pns d ls taints)
    let bd := bound.filter (·.daemon)
    let rdCPU := max 0 (daemons.foldl (fun a d => a + d.cpu) 0 - bd.foldl (fun a p => a + p.cpu) 0)
    let rdMem := max 0 (daemons.foldl (fun a d => a + d.mem) 0 - bd.foldl (fun a p => a + p.mem) 0)
    let rdPods : Int := max 0 ((daemons.length : Int) - (bd.length : Int))
    some { labels := ls, taints := taints,
           remCPU := it.allocCPU - bCPU - rdCPU, remMem := it.mem - bMem - rdMem,
           remPods := it.pods - (bound.length : Int) - rdPods,
           ports := bound.flatMap (·.hostPorts) }

theorem viewNodeWith_true (s : Scenario) (n : Node) : viewNodeWith true s n = viewNode s n := rfl

/-! ### Nodes whose Node object lacks well-known labels

`StateNode.Labels()` of a node Karpenter does not manage is the label map of the Node object — nothing derives a capacity
type, zone, instance type, arch or os label for it.  `absent` lists the keys the object does not carry.
`getCompatibleDaemonPods` -> `isDaemonPodCompatibleWithNode` checks the daemon pod's requirements against
`NewLabelRequirements(node.Labels())` with NO undefined key allowed (`Compatible` without options), so a daemonset that
selects on a label the node lacks is not counted (`dsCountedWith` on the reduced labels). -/

def viewNodeAbs (pns : Bool) (absent : List String) (s : Scenario) (n : Node) : Option ExNode :=
  match s.it? n.it with
  | none => none
  | some it =>
    let ls := (viewLabels s n).filter (fun kv => !absent.contains kv.1)
    let taints := viewTaints s n
    let bound := n.pods
    let bCPU := bound.foldl (fun a p => a + p.cpu) 0
    let bMem := bound.foldl (fun a p => a + p.mem) 0
    let daemons := s.daemonsets.filter (fun d => dsCountedWith pns d ls taints)
    let bd := bound.filter (·.daemon)
    let rdCPU := max 0 (daemons.foldl (fun a d => a + d.cpu) 0 - bd.foldl (fun a p => a + p.cpu) 0)
    let rdMem := max 0 (daemons.foldl (fun a d => a + d.mem) 0 - bd.foldl (fun a p => a + p.mem) 0)
    let rdPods : Int := max 0 ((daemons.length : Int) - (bd.length : Int))
    some { labels := ls, taints := taints,
           remCPU := it.allocCPU - bCPU - rdCPU, remMem := it.mem - bMem - rdMem,
           remPods := it.pods - (bound.length : Int) - rdPods,
           ports := bound.flatMap (·.hostPorts) }

/-! ### Volume topology alternatives (`VolumeTopology.GetRequirements`, the loop of `ExistingNode.CanAdd`)

Every volume of the pod contributes its OR-ed topology terms (PersistentVolume node-affinity terms, StorageClass
allowedTopologies); the alternatives of the pod are the cross product over its volumes, keeping only combinations whose
requirements intersect unless that leaves none.  `ExistingNode.CanAdd` admits the pod when SOME alternative is compatible
with the node's labels narrowed by the pod's own requirements — a failing alternative is skipped, not final. -/

/-- `mergeVolumeRequirementAlternatives` -/
def mergeAlts (alts vol : List (List KExpr)) : List (List KExpr) :=
  let compat := alts.flatMap (fun a => (vol.filter (fun t => (podReqs a).intersects (podReqs t))).map (fun t => a ++ t))
  if compat.isEmpty then alts.flatMap (fun a => vol.map (fun t => a ++ t)) else compat

/-- `VolumeTopology.GetRequirements` over the per-volume term lists (terms without expressions are dropped, a volume without
    terms contributes nothing); `[]` = the pod has no volume requirements -/
def volumeAlts (vols : List (List (List KExpr))) : List (List KExpr) :=
  let r := vols.foldl (fun acc terms =>
    let ts := terms.filter (fun t => !t.isEmpty)
    if ts.isEmpty then acc else mergeAlts acc ts) [[]]
  if r.length == 1 && r.all (·.isEmpty) then [] else r

/-- the OR-ed topology terms of every volume of a scenario pod (`VolumeTopology.getRequirements`: a bound claim reads its
    PersistentVolume's node affinity, an unbound one its StorageClass's allowedTopologies; pods whose claims do not resolve
    never reach `CanAdd`) -/
def podVolumeTerms (s : Scenario) (p : Pod) : List (List (List KExpr)) :=
  p.volumes.map (fun v =>
    match s.pvc? p.ns v.claim with
    | none => []
    | some c =>
      if c.volumeName != "" then (match s.pv? c.volumeName with | some pv => pv.terms | none => [])
      else (match s.storageClass? c.storageClass with | some sc => sc.topologies | none => []))

/-- `tryVolumeAlternative` up to the topology step: the node's OWN label requirements must be compatible with the alternative
    (since fix 08953e7af in /repo: a pod requirement that merely tolerates a label being absent must not make the key look
    defined), and so must the label requirements narrowed by the pod's requirements (no undefined key allowed in either) -/
def volAltOK (n : ExNode) (p : PodD) (alt : List KExpr) : Bool :=
  (labelReqs n.labels).compatible (podReqs alt) [] &&
  (Reqs.add (labelReqs n.labels) ((podReqs p.exprs).map (·.2))).compatible (podReqs alt) []

/-- `ExistingNode.CanAdd` with the volume alternatives: SOME alternative must be compatible -/
def existingCanAddV (n : ExNode) (p : PodD) (alts : List (List KExpr)) : Bool :=
  existingCanAdd n p && (alts.isEmpty || alts.any (volAltOK n p))

/-! ### CSI attach limits (`VolumeUsage.ExceedsLimits` / `Add`, `GetVolumes`)

`VolumeUsage` keeps, per CSI driver, the SET of claims ("namespace/name") in use on the node; `ExceedsLimits` compares the
size of the UNION of that set with the pod's claims against the limit the node's CSINode reports (all claims of the
scenario vocabulary belong to one driver). -/

/-- `GetVolumes`: the claims of the pod that resolve to the driver (the claim exists; bound: its PersistentVolume exists;
    unbound: its StorageClass exists) -/
def volumeKeys (s : Scenario) (p : Pod) : List String :=
  p.volumes.filterMap (fun v =>
    match s.pvc? p.ns v.claim with
    | none => none
    | some c =>
      let counts := if c.volumeName != "" then (s.pv? c.volumeName).isSome
                    else c.storageClass != "" && (s.storageClass? c.storageClass).isSome
      if counts then some (p.ns ++ "/" ++ v.claim) else none)

/-- `Volumes.Union` on one driver: set insertion of the pod's claims into the claims in use -/
def volUnion (used podVols : List String) : List String :=
  podVols.foldl (fun acc v => if acc.contains v then acc else acc ++ [v]) used

/-- `VolumeUsage.ExceedsLimits` (`true` = the pod is refused) -/
def exceedsLimits (limit : Option Nat) (used podVols : List String) : Bool :=
  match limit with
  | none => false
  | some l => decide ((volUnion used podVols).length > l)

/-! ## 2. `Scheduler.add` -/

/-- state of a pass: the existing nodes (in the scheduler's order) and the NodeClaims opened so far -/
structure Pass (κ : Type) where
  existing : List ExNode
  claims : List κ

inductive Decision
  | existing (i : Nat)
  | inflight (j : Nat)
  | openNew
  | fail
deriving Repr, DecidableEq

/-- admission of a pod by the NodeClaims of the pass: abstract (`NodeClaim.CanAdd`; C01 models its instance-type filter) -/
structure ClaimOps (κ : Type) where
  canAdd : κ → PodD → Bool
  add : κ → PodD → κ
  /-- a NodeClaim opened for the pod from some template, if any template admits it -/
  openFor : PodD → Option κ

def firstIdx (f : α → Bool) : List α → Option Nat
  | [] => none
  | x :: xs => if f x then some 0 else (firstIdx f xs).map (· + 1)

/-- one call of `Scheduler.add`, in the order recorded in `Karp.Gen.C04Flow.addCalls` -/
def addDecision (ops : ClaimOps κ) (s : Pass κ) (p : PodD) : Decision :=
  match firstIdx (fun e => existingCanAdd e p) s.existing with
  | some i => .existing i
  | none =>
    match firstIdx (fun c => ops.canAdd c p) s.claims with
    | some j => .inflight j
    | none => if (ops.openFor p).isSome then .openNew else .fail

def modifyNth (f : α → α) : Nat → List α → List α
  | _, [] => []
  | 0, x :: xs => f x :: xs
  | n + 1, x :: xs => x :: modifyNth f n xs

def apply (ops : ClaimOps κ) (s : Pass κ) (p : PodD) : Decision → Pass κ
  | .existing i => { s with existing := modifyNth (fun e => existingAdd e p) i s.existing }
  | .inflight j => { s with claims := modifyNth (fun c => ops.add c p) j s.claims }
  | .openNew => match ops.openFor p with
    | some c => { s with claims := s.claims ++ [ops.add c p] }
    | none => s
  | .fail => s

/-- `Scheduler.add` for a pod that mounts volumes: the existing nodes are asked with the pod's volume alternatives -/
def addDecisionV (ops : ClaimOps κ) (s : Pass κ) (p : PodD) (alts : List (List KExpr)) : Decision :=
  match firstIdx (fun e => existingCanAddV e p alts) s.existing with
  | some i => .existing i
  | none =>
    match firstIdx (fun c => ops.canAdd c p) s.claims with
    | some j => .inflight j
    | none => if (ops.openFor p).isSome then .openNew else .fail

/-- a pass over a queue of pods (pods of the property's class are never relaxed: one attempt each) -/
def runPass (ops : ClaimOps κ) : Pass κ → List PodD → List (PodD × Decision × Pass κ)
  | _, [] => []
  | s, p :: rest =>
    let d := addDecision ops s p
    (p, d, s) :: runPass ops (apply ops s p d) rest

/-! ## 3. The Synced gate -/

/-- `Cluster.nodeClaimNameToProviderID` / `nodeNameToProviderID` and the API contents the first sync compares with -/
structure Sync where
  hasSynced : Bool
  claims : List (String × String)       -- NodeClaim name ↦ provider id ("" = not launched)
  nodes : List String
  apiClaims : List String
  apiNodes : List String
deriving Repr

def setKV (k v : String) : List (String × String) → List (String × String)
  | [] => [(k, v)]
  | (k', v') :: rest => if k' == k then (k, v) :: rest else (k', v') :: setKV k v rest

/-- `Cluster.UpdateNodeClaim`: records the provider id under the NodeClaim's name (also when it is still empty) -/
def Sync.updateNodeClaim (s : Sync) (name pid : String) : Sync := { s with claims := setKV name pid s.claims }

/-- `Cluster.DeleteNodeClaim` -/
def Sync.deleteNodeClaim (s : Sync) (name : String) : Sync := { s with claims := s.claims.filter (fun kv => kv.1 != name) }

def Sync.updateNode (s : Sync) (name : String) : Sync := if s.nodes.contains name then s else { s with nodes := s.nodes ++ [name] }
def Sync.deleteNode (s : Sync) (name : String) : Sync := { s with nodes := s.nodes.filter (· != name) }

def noneUnlaunched (claims : List (String × String)) : Bool := claims.all (fun kv => kv.2 != "")

/-- `Cluster.Synced`: the verdict and the state afterwards (the first successful check latches `hasSynced`) -/
def Sync.synced (s : Sync) : Bool × Sync :=
  if s.hasSynced then (noneUnlaunched s.claims, s)
  else if !noneUnlaunched s.claims then (false, s)
  else
    let ok := s.apiClaims.all (fun n => s.claims.any (fun kv => kv.1 == n)) && s.apiNodes.all (fun n => s.nodes.contains n)
    (ok, if ok then { s with hasSynced := true } else s)

/-- events of a history as far as the gate is concerned -/
inductive Ev
  | create (name : String)              -- `Provisioner.Create`: API create, then `UpdateNodeClaim` with an empty provider id
  | launch (name pid : String)          -- lifecycle launch + the informer's `UpdateNodeClaim`
  | delete (name : String)              -- the NodeClaim disappears (API and state)
  | nodeSeen (name : String)            -- a Node appears (API and state)
  | reconcile                           -- `Provisioner.Reconcile` with a triggered batch
deriving Repr

/-- `Provisioner.Reconcile` runs a pass only behind the gate; the log records the state each pass ran in -/
def step (st : Sync × List Sync) : Ev → Sync × List Sync
  | .create name => ({ (st.1.updateNodeClaim name "") with apiClaims := name :: st.1.apiClaims }, st.2)
  | .launch name pid => (if st.1.claims.any (fun kv => kv.1 == name) then st.1.updateNodeClaim name pid else st.1, st.2)
  | .delete name => ({ (st.1.deleteNodeClaim name) with apiClaims := st.1.apiClaims.filter (· != name) }, st.2)
  | .nodeSeen name => ({ (st.1.updateNode name) with apiNodes := name :: st.1.apiNodes }, st.2)
  | .reconcile =>
    let (ok, s') := st.1.synced
    if ok then (s', st.2 ++ [s']) else (s', st.2)

def run (st : Sync × List Sync) (evs : List Ev) : Sync × List Sync := evs.foldl step st

/-! ## 4. The deletion mark (`Cluster.MarkForDeletion` / `UnmarkForDeletion`)

A state node exists under a provider id while cluster state holds its Node or its NodeClaim; the mark lives on the state
node: it survives every update and the loss of ONE half, and is gone with the state node.  One call names SEVERAL provider
ids (the disruption queue marks all candidates of a command at once); ids without a state node are skipped. -/

structure MNode where
  id : String
  node : Bool
  claim : Bool
  marked : Bool
deriving Repr, DecidableEq

abbrev MarkSt := List MNode

inductive MarkEv
  | seeNode (id : String)
  | seeClaim (id : String)
  | delNode (id : String)
  | delClaim (id : String)
  | mark (ids : List String)
  | unmark (ids : List String)
deriving Repr

def MarkSt.tracked (s : MarkSt) (id : String) : Bool := s.any (fun n => n.id == id)
def MarkSt.marked (s : MarkSt) (id : String) : Bool := s.any (fun n => n.id == id && n.marked)
/-- `StateNodes.Active` / `Deleting` -/
def MarkSt.active (s : MarkSt) : List String := (s.filter (fun n => !n.marked)).map (·.id)
def MarkSt.deleting (s : MarkSt) : List String := (s.filter (fun n => n.marked)).map (·.id)

/-- the loop body of `MarkForDeletion` / `UnmarkForDeletion` for one id: an id without a state node changes nothing -/
def setMark (b : Bool) (s : MarkSt) (id : String) : MarkSt := s.map (fun n => if n.id == id then { n with marked := b } else n)

def markStep (s : MarkSt) : MarkEv → MarkSt
  | .seeNode id => if s.tracked id then s.map (fun n => if n.id == id then { n with node := true } else n)
                   else s ++ [{ id := id, node := true, claim := false, marked := false }]
  | .seeClaim id => if s.tracked id then s.map (fun n => if n.id == id then { n with claim := true } else n)
                    else s ++ [{ id := id, node := false, claim := true, marked := false }]
  | .delNode id => (s.map (fun n => if n.id == id then { n with node := false } else n)).filter (fun n => n.node || n.claim)
  | .delClaim id => (s.map (fun n => if n.id == id then { n with claim := false } else n)).filter (fun n => n.node || n.claim)
  | .mark ids => ids.foldl (setMark true) s
  | .unmark ids => ids.foldl (setMark false) s

end Karp.Provision
