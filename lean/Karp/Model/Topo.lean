/-
Model of `pkg/controllers/provisioning/scheduling/topologygroup.go` (TopologyGroup): the per-constraint
counter `domain ↦ number of matching pods`, its `emptyDomains` side index, the three mutators
(`Record`, `Register`, `Unregister`) and the three domain-selection functions behind `Get`
(`nextDomainTopologySpread`, `nextDomainAffinity`, `nextDomainAntiAffinity`), as repaired by the
fix commits recorded in known_findings.json.

Go maps are modelled as association lists with unique keys; where the Go code iterates a map and keeps
"the first" element, the model returns the *set* of elements the iteration could keep (`AffOut.pick`,
`SpreadOut.choices`) and the correspondence check (`c02.group`) requires the implementation's answer to be a
member.  Core Lean only.
-/
import Karp.Model.Req

namespace Karp.Topo
open Karp.Req

inductive Kind | spread | affinity | anti
deriving Repr, DecidableEq

/-- `map[string]int32` -/
abbrev DMap := List (Val × Nat)

/-- `count, ok := m[d]` -/
def DMap.cnt? : DMap → Val → Option Nat
  | [], _ => none
  | (k, c) :: m, d => if k = d then some c else DMap.cnt? m d
/-- `m[d]` (zero value when absent) -/
def DMap.cnt (m : DMap) (d : Val) : Nat := (m.cnt? d).getD 0
/-- `delete(m, d)` -/
def DMap.del : DMap → Val → DMap
  | [], _ => []
  | (k, c) :: m, d => if k = d then DMap.del m d else (k, c) :: DMap.del m d
/-- `m[d] = c` -/
def DMap.put (m : DMap) (d : Val) (c : Nat) : DMap := (d, c) :: m.del d
def DMap.keys (m : DMap) : List Val := m.map (·.1)

/-- `sets.Set[string]` as a duplicate-free list -/
def setDel : List Val → Val → List Val
  | [], _ => []
  | x :: s, d => if x = d then setDel s d else x :: setDel s d
def setIns (s : List Val) (d : Val) : List Val := if d ∈ s then s else d :: s

def maxI32 : Int := 2147483647

structure TG where
  kind           : Kind
  /-- `t.Key == corev1.LabelHostname` -/
  isHost         : Bool
  maxSkew        : Int
  minDomains     : Option Int
  /-- `t.nodeFilter.AffinityPolicy == Ignore` (spread only) -/
  affinityIgnore : Bool
  domains        : DMap
  empty          : List Val
deriving Repr

/-- one iteration of `Record` (`t.domains[d]++` creates a missing entry) -/
def TG.record1 (t : TG) (d : Val) : TG :=
  { t with domains := t.domains.put d (t.domains.cnt d + 1), empty := setDel t.empty d }
/-- one iteration of `Register` -/
def TG.register1 (t : TG) (d : Val) : TG :=
  if (t.domains.cnt? d).isSome then t
  else { t with domains := t.domains.put d 0, empty := setIns t.empty d }
/-- one iteration of `Unregister` -/
def TG.unregister1 (t : TG) (d : Val) : TG :=
  { t with domains := t.domains.del d, empty := setDel t.empty d }

def TG.record (t : TG) (ds : List Val) : TG := ds.foldl TG.record1 t
def TG.register (t : TG) (ds : List Val) : TG := ds.foldl TG.register1 t
def TG.unregister (t : TG) (ds : List Val) : TG := ds.foldl TG.unregister1 t

/-- `NewTopologyGroup`: every domain of the domain group starts at zero and is in `emptyDomains` -/
def TG.new (kind : Kind) (isHost : Bool) (maxSkew : Int) (minDomains : Option Int) (affinityIgnore : Bool)
    (ds : List Val) : TG :=
  TG.register { kind, isHost, maxSkew, minDomains, affinityIgnore, domains := [], empty := [] } ds

inductive Op
  | record (ds : List Val)
  | register (ds : List Val)
  | unregister (ds : List Val)
deriving Repr

def TG.step (t : TG) : Op → TG
  | .record ds => t.record ds
  | .register ds => t.register ds
  | .unregister ds => t.unregister ds

def TG.run (t : TG) (ops : List Op) : TG := ops.foldl TG.step t

/-- `Requirement.Values()` as a duplicate-free list -/
def vals (r : Req) : List Val := r.values.eraseDups

/-! ### anti-affinity -/

/-- `nextDomainAntiAffinity`: the value set of the returned requirement -/
def TG.antiGet (t : TG) (pod node : Req) : List Val :=
  match t.isHost, vals node with
  | true, [h] => if t.domains.cnt h == 0 then [h] else []
  | _, nv =>
    if node.operator == .in_ && decide (node.len < (t.empty.length : Int)) then
      nv.filter (fun d => decide (d ∈ t.empty) && pod.has d)
    else t.empty.filter (fun d => node.has d && pod.has d)

/-! ### affinity -/

/-- what `nextDomainAffinity` may return: a determined value set, or exactly one element of a candidate set
    (the bootstrap picks the first domain a Go map iteration yields) -/
inductive AffOut
  | fixed (ds : List Val)
  | pick (cands : List Val)
deriving Repr, DecidableEq

/-- `anyCompatiblePodDomain` -/
def TG.anyCompat (t : TG) (pod : Req) : Bool := t.domains.any (fun p => pod.has p.1 && decide (p.2 > 0))

/-- `t.selects(pod) && (len(t.domains) == len(t.emptyDomains) || !t.anyCompatiblePodDomain(podDomains))` -/
def TG.bootstrapOK (t : TG) (self : Bool) (pod : Req) : Bool :=
  self && (t.domains.length == t.empty.length || !t.anyCompat pod)

def TG.positive (t : TG) (d : Val) : Bool :=
  match t.domains.cnt? d with
  | some c => decide (c > 0)
  | none => false

/-- the domains that hold a match and that pod and node allow (the two loops before the bootstrap) -/
def TG.affOpts (t : TG) (pod node : Req) : List Val :=
  if node.operator == .in_ then (vals node).filter (fun d => pod.has d && t.positive d)
  else t.domains.keys.filter (fun d => pod.has d && t.positive d && node.has d)

/-- the bootstrap choice: first a registered domain in the pod/node intersection, else one the pod allows -/
def TG.affBoot (t : TG) (pod node : Req) : AffOut :=
  let c1 := t.domains.keys.filter (fun d => (pod.inter node).has d)
  if !c1.isEmpty then .pick c1
  else
    let c2 := t.domains.keys.filter (fun d => pod.has d)
    if !c2.isEmpty then .pick c2 else .fixed []

def TG.affGet (t : TG) (self : Bool) (pod node : Req) : AffOut :=
  match t.isHost, vals node with
  | true, [h] =>
    if !pod.has h then .fixed []
    else if t.domains.cnt h > 0 then .fixed [h]
    else if t.bootstrapOK self pod then .fixed [h]
    else .fixed []
  | _, _ =>
    if !(t.affOpts pod node).isEmpty then .fixed (t.affOpts pod node)
    else if t.bootstrapOK self pod then t.affBoot pod node
    else .fixed []

/-- is the value set `out` an answer the model allows? -/
def AffOut.allows (o : AffOut) (out : List Val) : Bool :=
  match o with
  | .fixed ds => out.all ds.contains && ds.all out.contains
  | .pick cs => match out.eraseDups with
    | [d] => cs.contains d
    | _ => false

/-! ### topology spread -/

/-- `domainMinCount`, with `sup d` = "the domain counts for the minimum" -/
def TG.minCount (t : TG) (sup : Val → Bool) : Int :=
  if t.isHost then 0 else
  let cs := t.domains.filter (fun p => sup p.1)
  let m := cs.foldl (fun m p => min m (p.2 : Int)) maxI32
  match t.minDomains with
  | some md => if (cs.length : Int) < md then 0 else m
  | none => m

structure SpreadOut where
  /-- second result of `nextDomainTopologySpread` -/
  valid   : List Val
  /-- the returned requirement is `In {d}` for one `d ∈ choices`, or `DoesNotExist` when there is none -/
  choices : List Val
deriving Repr, DecidableEq

def selfInc (self : Bool) : Int := if self then 1 else 0

/-- "the domain counts for the minimum": the pod's own node selector / affinity unless the policy is Ignore -/
def TG.sup (t : TG) (pod : Req) : Val → Bool := fun d => t.affinityIgnore || pod.has d

/-- the registered domains the node may be in (the two loops of `nextDomainTopologySpread`) -/
def TG.spreadCand (t : TG) (node : Req) : List Val :=
  if node.operator == .in_ then (vals node).filter (fun d => (t.domains.cnt? d).isSome)
  else t.domains.keys.filter node.has

/-- `validDomains`: `count + self − min ≤ maxSkew` -/
def TG.spreadValid (t : TG) (self : Bool) (pod node : Req) : List Val :=
  (t.spreadCand node).filter
    (fun d => decide ((t.domains.cnt d : Int) + selfInc self - t.minCount (t.sup pod) ≤ t.maxSkew))

/-- the valid domains with the least count (the loop keeps the first strictly smaller one it meets, so any of
    them can be the answer depending on map iteration order) -/
def TG.least (t : TG) (s : Int) (valid : List Val) : List Val :=
  let best := valid.foldl (fun m d => min m ((t.domains.cnt d : Int) + s)) maxI32
  valid.filter (fun d => (t.domains.cnt d : Int) + s == best)

def TG.spreadGet (t : TG) (self : Bool) (pod node : Req) : SpreadOut :=
  match t.isHost, vals node with
  | true, [h] => if (t.domains.cnt h : Int) + selfInc self ≤ t.maxSkew then ⟨[h], [h]⟩ else ⟨[], []⟩
  | _, _ => ⟨t.spreadValid self pod node, t.least (selfInc self) (t.spreadValid self pod node)⟩

def SpreadOut.allows (o : SpreadOut) (out : List Val) (valid : List Val) : Bool :=
  (valid.all o.valid.contains && o.valid.all valid.contains) &&
  (match out.eraseDups with
   | [] => o.choices.isEmpty
   | [d] => o.choices.contains d
   | _ => false)

end Karp.Topo
