/-
Histories of the in-memory protection state of one `state.StateNode` (C07, quantifier "histories" / "x time"):
the events that reach `state.Cluster` for one provider id, as the code handles them.

* `Cluster.UpdateNodeClaim` / `newStateFromNodeClaim`, `Cluster.DeleteNodeClaim` / `cleanupNodeClaim`
* `Cluster.UpdateNode` / `newStateFromNode` (with the ingestion guard), `Cluster.DeleteNode` / `cleanupNode`
* `Cluster.MarkForDeletion` / `UnmarkForDeletion`, `Cluster.NominateNodeForPod` / `StateNode.Nominate`
* a pod event (`status.lastPodEventTime := now`, stored at one-second resolution) followed by its informer delivery
* a run of the `nodeclaim.disruption` controller on the NodeClaim — possibly with a failing drift check, a failing
  NodePool read or a refused status patch — followed by the informer delivery of what was persisted
* the clock advancing

Core Lean only.
-/
import Karp.Model.Candidate

namespace Karp.Candidate

inductive Ev
  | tick (d : Nat)                  -- the clock advances by `d` ns
  | claim (c : Option Claim)        -- UpdateNodeClaim c / DeleteNodeClaim
  | node (n : Option Node)          -- UpdateNode n / DeleteNode
  | mark
  | unmark
  | nominate
  | podEvent                        -- lastPodEventTime := now (floored to the second), delivered
  | reconcile (f : RFaults)         -- nodeclaim.disruption controller on the tracked NodeClaim (with the faults `f`
                                    -- injected into that run), the persisted result delivered
deriving Repr, DecidableEq

structure HState where
  now : Int
  sn  : Option StateNode
deriving Repr, DecidableEq

/-- `NewNode()`: what `newStateFrom…` starts from when the provider id is not tracked yet -/
def StateNode.fresh : StateNode := { claim := none, node := none, marked := false, nominatedUntil := none }

def oneSecond : Int := 1000000000

/-- metav1.Time keeps whole seconds -/
def floorSec (t : Int) : Int := t - t % oneSecond

/-- delivery of a NodeClaim to the cluster state -/
def deliverClaim (sn : Option StateNode) (c : Claim) : Option StateNode :=
  some { (sn.getD StateNode.fresh) with claim := some c }

/-- one event; `batchMax` and `pool` are the environment -/
def hstep (batchMax : Int) (pool : Pool) (st : HState) : Ev → HState
  | .tick d => { st with now := st.now + d }
  | .claim (some c) => { st with sn := deliverClaim st.sn c }
  | .claim none =>
    match st.sn with
    | none => st
    | some s =>
      if s.claim.isNone then st                         -- no nodeClaimNameToProviderID entry: nothing to clean up
      else if s.node.isNone then { st with sn := none }
      else { st with sn := some { s with claim := none } }
  | .node (some n) =>
    if !nodeTracked n then st
    else { st with sn := some { (st.sn.getD StateNode.fresh) with node := some n } }
  | .node none =>
    match st.sn with
    | none => st
    | some s =>
      if s.node.isNone then st
      else if s.claim.isNone then { st with sn := none }
      else { st with sn := some { s with node := none } }
  | .mark => { st with sn := st.sn.map (fun s => { s with marked := true }) }
  | .unmark => { st with sn := st.sn.map (fun s => { s with marked := false }) }
  | .nominate =>
    { st with sn := st.sn.map (fun s => { s with nominatedUntil := some (st.now + nominationWindow batchMax) }) }
  | .podEvent =>
    match st.sn with
    | some s =>
      (match s.claim with
       | some c => { st with sn := deliverClaim st.sn { c with lastPodEvent := some (floorSec st.now) } }
       | none => st)
    | none => st
  | .reconcile f =>
    match st.sn with
    | some s =>
      (match s.claim with
       | some c => { st with sn := deliverClaim st.sn (reconcileClaimF f pool c st.now) }
       | none => st)
    | none => st

def hrun (batchMax : Int) (pool : Pool) (st : HState) : List Ev → HState
  | [] => st
  | e :: es => hrun batchMax pool (hstep batchMax pool st e) es

/-- the environment of a history as a `World` at the history's current instant (the `claim`, `node`, `marked`,
    `nominatedAt` fields of the environment are not used by `selectedOn`) -/
def envAt (env : World) (st : HState) : World := { env with now := st.now }

/-- which methods select the node after the history -/
def hselected (env : World) (st : HState) (m : Method) : Bool :=
  match st.sn with
  | none => false
  | some s => selectedOn (envAt env st) s m

/-- the observations the harness makes: after every event, the methods that select the node -/
def hobserve (env : World) (st : HState) : List Ev → List (List Bool)
  | [] => []
  | e :: es =>
    let st' := hstep env.batchMax env.pool st e
    (Method.all.map (hselected env st')) :: hobserve env st' es

end Karp.Candidate
