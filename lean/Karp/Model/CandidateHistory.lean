/-
Histories of the in-memory protection state of one `state.StateNode` (C07, quantifier "histories" / "x time"):
the events that reach `state.Cluster` for one provider id, as the code handles them.

* `Cluster.UpdateNodeClaim` / `newStateFromNodeClaim`, `Cluster.DeleteNodeClaim` / `cleanupNodeClaim`
* `Cluster.UpdateNode` / `newStateFromNode` (with the ingestion guard), `Cluster.DeleteNode` / `cleanupNode`
* `Cluster.MarkForDeletion` / `UnmarkForDeletion`, `Cluster.NominateNodeForPod` / `StateNode.Nominate`
* a pod event (`status.lastPodEventTime := now`, stored at one-second resolution) followed by its informer delivery
* a run of the `nodeclaim.disruption` controller on the NodeClaim — possibly with a failing drift check, a failing
  NodePool read or a refused status patch — followed by the informer delivery of what was persisted
* the clock advancing

Core Lean only.
-/
import Karp.Model.Candidate

namespace Karp.Candidate

inductive Ev
  | tick (d : Nat)                  -- the clock advances by `d` ns
  | claim (c : Option Claim)        -- UpdateNodeClaim c / DeleteNodeClaim
  | node (n : Option Node)          -- UpdateNode n / DeleteNode
  | mark
  | unmark
  | nominate
  | podEvent                        -- lastPodEventTime := now (floored to the second), delivered
  | reconcile (f : RFaults)         -- nodeclaim.disruption controller on the tracked NodeClaim (with the faults `f`
                                    -- injected into that run), the persisted result delivered
deriving Repr, DecidableEq

structure HState where
  now : Int
  sn  : Option StateNode
deriving Repr, DecidableEq

/-- `NewNode()`: what `newStateFrom…` starts from when the provider id is not tracked yet -/
def StateNode.fresh : StateNode := { claim := none, node := none, marked := false, nominatedUntil := none }

def oneSecond : Int := 1000000000

/-- metav1.Time keeps whole seconds -/
def floorSec (t : Int) : Int := t - t % oneSecond

/-- delivery of a NodeClaim to the cluster state -/
def deliverClaim (sn : Option StateNode) (c : Claim) : Option StateNode :=
  some { (sn.getD StateNode.fresh) with claim := some c }

/-- one event; `batchMax` and `pool` are the environment -/
def hstep (batchMax : Int) (pool : Pool) (st : HState) : Ev → HState
  | .tick d => { st with now := st.now + d }
  | .claim (some c) => { st with sn := deliverClaim st.sn c }
  | .claim none =>
    match st.sn with
    | none => st
    | some s =>
      if s.claim.isNone then st                         -- no nodeClaimNameToProviderID entry: nothing to clean up
      else if s.node.isNone then { st with sn := none }
      else { st with sn := some { s with claim := none } }
  | .node (some n) =>
    if !nodeTracked n then st
    else { st with sn := some { (st.sn.getD StateNode.fresh) with node := some n } }
  | .node none =>
    match st.sn with
    | none => st
    | some s =>
      if s.node.isNone then st
      else if s.claim.isNone then { st with sn := none }
      else { st with sn := some { s with node := none } }
  | .mark => { st with sn := st.sn.map (fun s => { s with marked := true }) }
  | .unmark => { st with sn := st.sn.map (fun s => { s with marked := false }) }
  | .nominate =>
    { st with sn := st.sn.map (fun s => { s with nominatedUntil := some (st.now + nominationWindow batchMax) }) }
  | .podEvent =>
    match st.sn with
    | some s =>
      (match s.claim with
       | some c => { st with sn := deliverClaim st.sn { c with lastPodEvent := some (floorSec st.now) } }
       | none => st)
    | none => st
  | .reconcile f =>
    match st.sn with
    | some s =>
      (match s.claim with
       | some c => { st with sn := deliverClaim st.sn (reconcileClaimF f pool c st.now) }
       | none => st)
    | none => st

def hrun (batchMax : Int) (pool : Pool) (st : HState) : List Ev → HState
  | [] => st
  | e :: es => hrun batchMax pool (hstep batchMax pool st e) es

/-- the environment of a history as a `World` at the history's current instant (the `claim`, `node`, `marked`,
    `nominatedAt` fields of the environment are not used by `selectedOn`) -/
def envAt (env : World) (st : HState) : World := { env with now := st.now }

/-- which methods select the node after the history -/
def hselected (env : World) (st : HState) (m : Method) : Bool :=
  match st.sn with
  | none => false
  | some s => selectedOn (envAt env st) s m

/-- the observations the harness makes: after every event, the methods that select the node -/
def hobserve (env : World) (st : HState) : List Ev → List (List Bool)
  | [] => []
  | e :: es =>
    let st' := hstep env.batchMax env.pool st e
    (Method.all.map (hselected env st')) :: hobserve env st' es

/-! ## Commands: the callers of the marks and nominations

In the running system `MarkForDeletion` / `UnmarkForDeletion` / `NominateNodeForPod` are written by two callers only:
`scheduling.Results.Record` (nominates every existing node on which the recorded result places a real pod — virtual
capacity-buffer pods do not count, and whether the same result creates new NodeClaims is irrelevant) and the
orchestration queue (`Queue.StartCommand` marks the candidates and enters the command, `Queue.Reconcile` /
`CompleteCommand` removes the command and unmarks ONLY when the command failed; a command that succeeded has deleted
the NodeClaims through the API and the mark stays, because the cluster state may not have seen the deletion yet).
What the queue writes to the API reaches the cluster state only with the next informer delivery (`sync`, or any
delivery of the NodeClaim: pod event, run of the nodeclaim.disruption controller). -/

inductive QFault | none | deleteError | replacementLost
deriving Repr, DecidableEq

inductive QEv
  | base (e : Ev)
  | record (real virt newPods : Nat)   -- Results.Record: `real` pending pods and `virt` virtual buffer pods land on
                                       -- the node, the new NodeClaims of the result carry `newPods` pods altogether
  | start (m : Method)                 -- Queue.StartCommand on the candidate of method `m` (if it is one)
  | queue (f : QFault)                 -- Queue.Reconcile of the command
  | sync                               -- the informer delivers the NodeClaim as the API holds it
deriving Repr, DecidableEq

structure QState where
  h : HState
  inQueue : Bool := false       -- Queue.ProviderIDToCommand has the provider id
  apiDeleting : Bool := false   -- the API copy of the NodeClaim carries a deletionTimestamp the cluster state has not seen
deriving Repr, DecidableEq

def qenv (env : World) (st : QState) : World := { env with inQueue := st.inQueue }

/-- `GetCandidates` with the real queue -/
def qselected (env : World) (st : QState) (m : Method) : Bool := hselected (qenv env st) st.h m

/-- the NodeClaim as the informer would deliver it now -/
def apiClaim (st : QState) : Option Claim :=
  match st.h.sn with
  | some s => s.claim.map (fun c => if st.apiDeleting then { c with deleting := true } else c)
  | none => none

def syncEvs (st : QState) : List Ev :=
  match apiClaim st with
  | some c => [.claim (some c)]
  | none => []

def startAccepted (env : World) (st : QState) (m : Method) : Bool := !st.inQueue && qselected env st m

/-- the writes to the cluster-state entry that a command-level event amounts to -/
def lower (env : World) (st : QState) : QEv → List Ev
  | .base .podEvent => (if st.apiDeleting then syncEvs st else []) ++ [.podEvent]
  | .base (.reconcile f) => (if st.apiDeleting then syncEvs st else []) ++ [.reconcile f]
  | .base e => [e]
  | .record real _ _ => if 0 < real then [.nominate] else []
  | .start m => if startAccepted env st m then [.mark] else []
  | .queue f => if st.inQueue && f == .replacementLost then [.unmark] else []
  | .sync => syncEvs st

def qstep (env : World) (st : QState) (e : QEv) : QState :=
  let h' := hrun env.batchMax env.pool st.h (lower env st e)
  match e with
  | .base (.claim _) => { st with h := h', apiDeleting := false }
  | .base _ => { st with h := h' }
  | .record _ _ _ => { st with h := h' }
  | .start m => { st with h := h', inQueue := st.inQueue || startAccepted env st m }
  | .queue f =>
    if !st.inQueue then { st with h := h' }
    else match f with
      | .deleteError => { st with h := h' }
      | .replacementLost => { st with h := h', inQueue := false }
      | .none => { st with h := h', inQueue := false, apiDeleting := true }
  | .sync => { st with h := h' }

def qrun (env : World) (st : QState) : List QEv → QState
  | [] => st
  | e :: es => qrun env (qstep env st e) es

/-- the whole history as writes to the cluster-state entry -/
def lowerRun (env : World) (st : QState) : List QEv → List Ev
  | [] => []
  | e :: es => lower env st e ++ lowerRun env (qstep env st e) es

/-- what the real code reports it did with the event -/
def qdid (env : World) (st : QState) : QEv → String
  | .record _ _ _ => if st.h.sn.isSome then "recorded" else "untracked"
  | .start m => if startAccepted env st m then "started" else "skipped"
  | .queue f =>
    if !st.inQueue then "none"
    else match f with
      | .deleteError => "requeued"
      | .replacementLost => "failed"
      | .none => "succeeded"
  | _ => ""

def qobserve (env : World) (st : QState) : List QEv → List (String × List Bool)
  | [] => []
  | e :: es =>
    let st' := qstep env st e
    (qdid env st e, Method.all.map (qselected env st')) :: qobserve env st' es

end Karp.Candidate
