/-
Model of how a pod that needs a new node meets `PreferNoSchedule` taints (C19)
(pkg/controllers/provisioning/scheduling/scheduler.go, preferences.go):

    NewScheduler:
        toleratePreferNoSchedule := false
        for np in nodePools { for taint in np.taints { if taint.Effect == PreferNoSchedule { toleratePreferNoSchedule = true } } }
        preferences := &Preferences{ToleratePreferNoSchedule: toleratePreferNoSchedule}
    trySchedule(pod):
        for { err := add(pod); if err == nil { return nil }
              if IsReservedOfferingError(err) { return err }
              if !preferences.Relax(pod) { return err } }
    Preferences.Relax (a pod whose only soft constraint is the taint preference: one required affinity term, nothing
    preferred, no topology spread):
        if ToleratePreferNoSchedule and the pod does not yet carry the toleration {Exists, PreferNoSchedule}: add it, true
        else false

`add` for a pod that fits no existing or in-flight node ends in `addToNewNodeClaim` (Model/FirstSuccess).  A template
whose taints the pod does not tolerate — of whatever effect — fails its evaluation, so the FIRST round treats the
preference as a requirement; the second round, after the relaxation, ignores it.
Core Lean only.
-/
import Karp.Model.FirstSuccess

namespace Karp.Relax
open Karp.FirstSuccess

/-- `toleratePreferNoSchedule` of `NewScheduler`: SOME NodePool handed to the scheduler has a `PreferNoSchedule` taint
    (`soft` = one flag per pool, in the order of the slice) -/
def tolerateFlag (soft : List Bool) : Bool := soft.any id

/-- `trySchedule` on top of two rounds of `addToNewNodeClaim`: `first` = what the round with the preference as a
    requirement published, `firstWaits` = that round ended with a reserved-offering error, `second` = what the round
    after the relaxation publishes (looked at only if there is a relaxation to make) -/
def place (flag : Bool) (first : Option Nat) (firstWaits : Bool) (second : Option Nat) : Option Nat :=
  match first with
  | some i => some i
  | none => if firstWaits then none else if flag then second else none

/-- the round ended with a reserved-offering error: the first template that does not plainly fail says so -/
def waits (outs : List Outcome) : Bool :=
  match firstDecisive outs with
  | some (_, .reserved) => true
  | _ => false

/-- the sequential reference of the whole thing -/
def placeSequential (soft : List Bool) (strict relaxed : List Outcome) : Option Nat :=
  place (tolerateFlag soft) (sequentialResult strict) (waits strict) (sequentialResult relaxed)

end Karp.Relax
