/-
Model of `pkg/controllers/provisioning/scheduling/reservationmanager.go` (ReservationManager) and of the
reservation protocol of an in-flight NodeClaim in `nodeclaim.go`
(`offeringsToReserve` → `Add`: `Reserve`, `releaseReservedOfferings`, `reservedOfferings = …` → `FinalizeScheduling`),
plus the reserved-offering branch of `Scheduler.addToNewNodeClaim` / `trySchedule` in `scheduler.go`.
Core Lean only.

Go maps become association lists: `capacity` is updated by consing (the first entry for a key is the live one);
`reservations : hostname ↦ set of ids` becomes the relation `holds : List (hostname × id)`.
The two `panic` sites of the manager are modelled by `Except Panic`.
What the rest of `NodeClaim.CanAdd` computes (requirements, instance-type filtering) enters as a parameter: the
list `compat` of reservation ids of the *compatible available reserved offerings* of the remaining instance types,
in iteration order (one entry per offering, so ids may repeat).
-/
import Karp.Model.Req
import Karp.Gen.C17Facts

namespace Karp.Reservation
open Karp.Req

abbrev Id := String
abbrev Host := String

inductive Panic
  | nonExistent   -- "attempted to reserve non-existent offering with reservation id …" (CanReserve)
  | overReserve   -- "attempted to over-reserve an offering with reservation id …" (Reserve)
deriving Repr, DecidableEq

structure RM where
  capacity : List (Id × Int)
  holds    : List (Host × Id)
deriving Repr, DecidableEq

/-- `capacity[id]` with the Go zero value for a missing key -/
def RM.remaining (rm : RM) (id : Id) : Int := (rm.capacity.lookup id).getD 0
/-- `HasReservation` -/
def RM.has (rm : RM) (h : Host) (id : Id) : Bool := rm.holds.contains (h, id)
def RM.known (rm : RM) (id : Id) : Bool := (rm.capacity.lookup id).isSome

/-- one reserved offering seen by `NewReservationManager`: keep the least capacity per id -/
def insertMin (m : List (Id × Int)) (o : Id × Int) : List (Id × Int) :=
  match m.lookup o.1 with
  | some cur => if cur > o.2 then o :: m else m
  | none => o :: m

/-- `NewReservationManager`; `offerings` = (reservation id, ReservationCapacity) of every offering of capacity type
    reserved of every instance type of every NodePool (available or not), in any order -/
def RM.new (offerings : List (Id × Int)) : RM :=
  { capacity := offerings.foldr (fun o m => insertMin m o) [], holds := [] }

/-- `CanReserve` -/
def RM.canReserve (rm : RM) (h : Host) (id : Id) : Except Panic Bool :=
  if rm.has h id then pure true else
  match rm.capacity.lookup id with
  | none => throw .nonExistent
  | some c => pure (c != 0)

/-- one iteration of the loop in `Reserve` -/
def RM.reserve1 (rm : RM) (h : Host) (id : Id) : Except Panic RM :=
  if rm.has h id then pure rm else
  if rm.remaining id - 1 < 0 then throw .overReserve
  else pure { capacity := (id, rm.remaining id - 1) :: rm.capacity, holds := (h, id) :: rm.holds }

/-- `Reserve(hostname, offerings...)` -/
def RM.reserve (rm : RM) (h : Host) : List Id → Except Panic RM
  | [] => pure rm
  | id :: ids =>
    match rm.reserve1 h id with
    | .error p => .error p
    | .ok rm' => rm'.reserve h ids

/-- one iteration of the loop in `Release` -/
def RM.release1 (rm : RM) (h : Host) (id : Id) : RM :=
  if rm.has h id then
    { capacity := (id, rm.remaining id + 1) :: rm.capacity, holds := rm.holds.filter (fun p => p != (h, id)) }
  else rm

/-- `Release(hostname, offerings...)` -/
def RM.release (rm : RM) (h : Host) : List Id → RM
  | [] => rm
  | id :: ids => (rm.release1 h id).release h ids

/-- number of hostnames holding `id` -/
def RM.holders (rm : RM) (id : Id) : Nat := (rm.holds.filter (fun p => p.2 == id)).length

/-- the `CanReserve` filter of `offeringsToReserve` -/
def toReserve (rm : RM) (h : Host) : List Id → Except Panic (List Id)
  | [] => pure []
  | id :: ids =>
    match rm.canReserve h id with
    | .error p => .error p
    | .ok b =>
      match toReserve rm h ids with
      | .error p => .error p
      | .ok rest => pure (if b then id :: rest else rest)

/-! ### Manager op sequences (what `c17.rm` drives) -/

inductive Op
  | canReserve (h : Host) (id : Id)
  | reserve (h : Host) (ids : List Id)
  | guarded (h : Host) (ids : List Id)   -- the protocol of `offeringsToReserve` + `Add`: ask per id, reserve what was granted
  | release (h : Host) (ids : List Id)
  | has (h : Host) (id : Id)
  | remaining (id : Id)
deriving Repr, DecidableEq

/-- what the caller observes -/
inductive Obs
  | bool (b : Bool)
  | int (n : Int)
  | unit
  | granted (ids : List Id)
  | panic (p : Panic)
deriving Repr, DecidableEq

def stepOp (rm : RM) : Op → Except Panic (RM × Obs)
  | .canReserve h id => (rm.canReserve h id).map (fun b => (rm, .bool b))
  | .reserve h ids => (rm.reserve h ids).map (fun rm' => (rm', .unit))
  | .guarded h ids =>
    match toReserve rm h ids with
    | .error p => .error p
    | .ok rs => (rm.reserve h rs).map (fun rm' => (rm', .granted rs))
  | .release h ids => pure (rm.release h ids, .unit)
  | .has h id => pure (rm, .bool (rm.has h id))
  | .remaining id => pure (rm, .int (rm.remaining id))

/-- run until the first panic (the Go state after a panic is not used again) -/
def runOps (rm : RM) : List Op → RM × List Obs
  | [] => (rm, [])
  | op :: ops =>
    match stepOp rm op with
    | .error p => (rm, [.panic p])
    | .ok (rm', o) => let (fin, os) := runOps rm' ops; (fin, o :: os)

/-- state-only view: `none` once a panic happened -/
def runState (rm : RM) : List Op → Option RM
  | [] => some rm
  | op :: ops =>
    match stepOp rm op with
    | .error _ => none
    | .ok (rm', _) => runState rm' ops

/-! ### The NodeClaim protocol -/

/-- the reservation-relevant part of an in-flight `NodeClaim` -/
structure Claim where
  host : Host
  reserved : List Id        -- reservation ids of `n.reservedOfferings`
deriving Repr, DecidableEq

def strictMode : Nat := Karp.Gen.C17Facts.reservedOfferingModeStrict
def fallbackMode : Nat := Karp.Gen.C17Facts.reservedOfferingModeFallback

/-- `NodeClaim.offeringsToReserve`: `some ids` = the offerings to reserve, `none` = `ReservedOfferingError`.
    `gate` = feature gate ReservedCapacity, `mode` = `n.reservedOfferingMode`. -/
def offeringsToReserve (gate : Bool) (mode : Nat) (rm : RM) (c : Claim) (compat : List Id) :
    Except Panic (Option (List Id)) :=
  if !gate then pure (some []) else
  match toReserve rm c.host compat with
  | .error p => .error p
  | .ok rs =>
    if mode == strictMode && ((!compat.isEmpty && rs.isEmpty) || (!c.reserved.isEmpty && rs.isEmpty)) then pure none
    else pure (some rs)

/-- `releaseReservedOfferings(current, updated)` -/
def releaseReserved (rm : RM) (h : Host) (current updated : List Id) : RM :=
  rm.release h (current.filter (fun id => !updated.contains id))

/-- the reservation part of `NodeClaim.Add`: `Reserve`, `releaseReservedOfferings`, `n.reservedOfferings = …` -/
def addReserved (rm : RM) (c : Claim) (ids : List Id) : Except Panic (RM × Claim) :=
  match rm.reserve c.host ids with
  | .error p => .error p
  | .ok rm1 => pure (releaseReserved rm1 c.host c.reserved ids, { c with reserved := ids })

/-! ### A scheduling pass seen from the manager: any sequence of `CanAdd`/`Add` rounds on any claims -/

structure St where
  rm : RM
  claims : List Claim
deriving Repr, DecidableEq

def St.claim (st : St) (h : Host) : Claim :=
  (st.claims.find? (fun c => c.host == h)).getD { host := h, reserved := [] }

def St.put (st : St) (rm : RM) (c : Claim) : St :=
  { rm := rm, claims := c :: st.claims.filter (fun d => d.host != c.host) }

/-- one round: pod against the claim with hostname `host` (a fresh hostname = `NewNodeClaim`), `compat` as computed by
    the rest of `CanAdd` -/
structure Round where
  host : Host
  compat : List Id
deriving Repr, DecidableEq

/-- `CanAdd` then, on success, `Add`.  `true` = the pod was added, `false` = ReservedOfferingError (nothing changes). -/
def round (gate : Bool) (mode : Nat) (st : St) (r : Round) : Except Panic (St × Bool) :=
  let c := st.claim r.host
  match offeringsToReserve gate mode st.rm c r.compat with
  | .error p => .error p
  | .ok none => pure (st, false)
  | .ok (some ids) =>
    match addReserved st.rm c ids with
    | .error p => .error p
    | .ok (rm', c') => pure (st.put rm' c', true)

def rounds (gate : Bool) (mode : Nat) (st : St) : List Round → Except Panic St
  | [] => pure st
  | r :: rs =>
    match round gate mode st r with
    | .error p => .error p
    | .ok (st', _) => rounds gate mode st' rs

def St.init (offerings : List (Id × Int)) : St := { rm := RM.new offerings, claims := [] }

/-- number of claims whose `reservedOfferings` name `id` -/
def holdersOf (claims : List Claim) (id : Id) : Nat := (claims.filter (fun c => c.reserved.contains id)).length

/-! ### `FinalizeScheduling` -/

def capacityTypeKey : String := Karp.Gen.Labels.capacityTypeLabelKey
def reservedValue : String := Karp.Gen.Labels.capacityTypeReserved

def inReq (key : String) (vals : List Val) : Req := { key := key, complement := false, values := vals }

/-- the reservation part of `FinalizeScheduling` on the claim's requirements (`ridKey` = `cloudprovider.ReservationIDLabel`):
    capacity-type is *overwritten* with `In [reserved]`, the reservation-id requirement is `Add`ed (intersected) -/
def finalize (ridKey : String) (R : Reqs) (c : Claim) : Reqs :=
  if c.reserved.isEmpty then R
  else (R.set capacityTypeKey (inReq capacityTypeKey [reservedValue])).add1 (inReq ridKey c.reserved)

/-! ### Strict mode in `addToNewNodeClaim` / `trySchedule` -/

/-- outcome of `CanAdd` of a fresh claim of one template -/
inductive TOut
  | ok             -- no error
  | reservedError  -- `IsReservedOfferingError(err)`
  | fail           -- any other error
deriving Repr, DecidableEq

/-- `addToNewNodeClaim` with the templates in order (sequential view: the lowest index that does not plainly fail
    decides): `some i` = the claim is opened from template `i`; `none` = no claim.  -/
def pickTemplate : List TOut → Nat → Option Nat
  | [], _ => none
  | .ok :: _, i => some i
  | .reservedError :: _, _ => none
  | .fail :: rest, i => pickTemplate rest (i + 1)

/-- the error class `addToNewNodeClaim` returns when no claim is opened: reserved-offering iff some evaluated template
    reported it (`multierr.Combine(errs...)` keeps every error) -/
def newClaimDeferred (outs : List TOut) : Bool := (pickTemplate outs 0).isNone && outs.contains .reservedError

/-- `trySchedule`: `add`, and on error relax-and-retry — except on a reserved-offering error, which is returned at once.
    `attempts` = the outcome vector of `add` for the pod as relaxed 0,1,2,… times (`none` = scheduled).
    Result: `(scheduled, relaxations performed, deferred)` -/
def trySchedule : List (Option Bool) → Nat → Bool × Nat × Bool
  | [], n => (false, n, false)
  | none :: _, n => (true, n, false)
  | some true :: _, n => (false, n, true)       -- reserved-offering error: no relaxation
  | some false :: rest, n => if rest.isEmpty then (false, n, false) else trySchedule rest (n + 1)

end Karp.Reservation
