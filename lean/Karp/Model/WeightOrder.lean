/-
Model of `nodepoolutils.OrderByWeight` (pkg/utils/nodepool/nodepool.go) and of the generic
"sort.Slice with a `less` function" step that both `OrderByWeight` and `InstanceTypes.OrderByPrice` use.

`sort.Slice` is NOT stable and its algorithm is not part of its contract: the only thing the model
assumes of it is that it returns a permutation of its input in which no later element is `less`
than an earlier one (`allowedSort`).  The deterministic `sortBy` (insertion sort) is one such output;
for `OrderByWeight` the comparator is a strict total order on (weight, name), so the allowed output is
unique (Props.C19_order_by_weight_unique) and the real output can be compared with `sortBy` by equality.

Core Lean only.
-/
namespace Karp.WeightOrder

/-! ### generic: `sort.Slice(xs, less)` -/

variable {α : Type}

/-- insert `x` into a list sorted by `lt`, after every element that is not greater than it -/
def insertBy (lt : α → α → Bool) (x : α) : List α → List α
  | [] => [x]
  | y :: ys => if lt x y then x :: y :: ys else y :: insertBy lt x ys

/-- insertion sort: one possible result of `sort.Slice(xs, less)` -/
def sortBy (lt : α → α → Bool) : List α → List α
  | [] => []
  | x :: xs => insertBy lt x (sortBy lt xs)

/-- `true` iff no later element is `lt` an earlier one (what `sort.Slice` guarantees on return) -/
def sortedBy (lt : α → α → Bool) : List α → Bool
  | [] => true
  | x :: xs => xs.all (fun y => !lt y x) && sortedBy lt xs

/-- the relation the model assumes of `sort.Slice`: a sorted permutation of the input -/
def allowedSort [BEq α] (lt : α → α → Bool) (input output : List α) : Bool :=
  input.isPerm output && sortedBy lt output

/-! ### `OrderByWeight` -/

/-- Go's `a < b` on strings is a bytewise lexicographic comparison; names are carried as their UTF-8 bytes -/
def lexLt : List Nat → List Nat → Bool
  | [], [] => false
  | [], _ :: _ => true
  | _ :: _, [] => false
  | a :: as, b :: bs => if a < b then true else if b < a then false else lexLt as bs

/-- what `OrderByWeight` looks at: `np.Name` (UTF-8 bytes) and `lo.FromPtr(np.Spec.Weight)` (nil ⇒ 0) -/
structure Pool where
  name   : List Nat
  weight : Int
deriving Repr, DecidableEq

/-- the `less` closure of `OrderByWeight`:
    `if weightA == weightB { return nameA > nameB }; return weightA > weightB` -/
def before (a b : Pool) : Bool :=
  if a.weight = b.weight then lexLt b.name a.name else decide (b.weight < a.weight)

def orderByWeight (nps : List Pool) : List Pool := sortBy before nps

end Karp.WeightOrder
