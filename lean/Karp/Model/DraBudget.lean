/-
Model of the shared-counter accounting of `pkg/scheduling/dynamicresources/partitionable_devices.go`
(`AllocationTracker.InitRemainingCounters` / `commitCounters` / `releaseCounters`, the guard `allocator.checkCounters`),
projected on ONE counter of ONE counter set of ONE pool (budgets of different pools / sets / counters never interact).
Core Lean only.

  * `RemainingCounters[pool][set][counter]`                       → `St.remaining : Int`
  * `countersByNodeClaimIT : nodeclaim ↦ instance type ↦ … ↦ qty` → `St.stored : List (NC × List (IT × Int))`
  * `pessimisticCounterMax`                                        → `maxOf` (consumption is never negative, so the
    missing-entry case of the Go code — no floor — and the floor 0 used here coincide)
  * Go maps are unordered; merging the per-instance-type consumption of a new allocation into the stored one is
    modelled declaratively (`merge`: every instance type of either side, old + new).

The same shape — per NodeClaim the maximum over its candidate instance types, summed over NodeClaims, booked as a delta
on commit and given back as a delta on release — is used by `commitCapacity` / `releaseCapacity` for the consumed
capacity of multi-allocatable devices (there the booked quantity is `InflightConsumedCapacity = initial − remaining`).

What `Allocator.Allocate` hands to `Commit` (its backtracking search) is NOT modelled: the per-instance-type consumption
of an allocation is a parameter; `guarded` states what `checkCounters` guarantees about it.
-/
import Karp.Gen.C17Facts
import Karp.Model.DraTracker

namespace Karp.DraBudget
open Karp.DraTracker (dedupe)

abbrev NC := String
abbrev IT := String

/-- a pool as `GatherPools(inClusterSlices, NewRequirements(), "")` presents it to `InitRemainingCounters` at allocator
    construction: the counter's value, the devices of the slices that target the (empty) requirements, and the
    counter-consuming devices of the slices that do not (node-local slices, selectors on custom labels) — each device
    with the units of the counter it consumes -/
structure Pool where
  total : Int
  devices : List (String × Int)
  nonTargeting : List (String × Int)
deriving Repr

/-- the Go expression a loop of `InitRemainingCounters` ranges over ↦ the list it denotes -/
def Pool.field (p : Pool) (f : String) : List (String × Int) :=
  if f == "pool.Devices" then p.devices else if f == "pool.NonTargetingDevices" then p.nonTargeting else []

/-- one loop: deduct the consumption of every device that is already allocated in the cluster -/
def deduct (pre : List String) (rem : Int) (ds : List (String × Int)) : Int :=
  ds.foldl (fun r d => if pre.contains d.1 then r - d.2 else r) rem

/-- `InitRemainingCounters`: its loops in source order — WHICH lists are walked is regenerated from the Go source -/
def initRemaining (pre : List String) (p : Pool) : Int :=
  Karp.Gen.C17Facts.initCountersRanges.foldl (fun r f => deduct pre r (p.field f)) p.total

structure St where
  remaining : Int
  stored : List (NC × List (IT × Int))
deriving Repr

def St.init (remaining : Int) : St := { remaining := remaining, stored := [] }

/-- `pessimisticCounterMax` for one NodeClaim -/
def maxOf (l : List (IT × Int)) : Int := l.foldl (fun m x => max m x.2) 0

/-- the consumption stored for instance type `j` (0 when there is none) -/
def val : List (IT × Int) → IT → Int
  | [], _ => 0
  | (i, v) :: r, j => if i == j then v else val r j

/-- the merge loop of `commitCounters` -/
def merge (old new : List (IT × Int)) : List (IT × Int) :=
  (dedupe (old.map (·.1) ++ new.map (·.1))).map (fun j => (j, val old j + val new j))

def storedOf (s : List (NC × List (IT × Int))) (nc : NC) : List (IT × Int) := (s.lookup nc).getD []

def setNC (s : List (NC × List (IT × Int))) (nc : NC) (l : List (IT × Int)) : List (NC × List (IT × Int)) :=
  (nc, l) :: s.filter (fun e => e.1 != nc)

/-- `commitCounters(nodeClaim, newCounterConsumptionByIT)` -/
def St.commit (st : St) (nc : NC) (new : List (IT × Int)) : St :=
  if new.isEmpty then st else
  let old := storedOf st.stored nc
  let merged := merge old new
  let delta := maxOf merged - maxOf old
  { remaining := if delta > 0 then st.remaining - delta else st.remaining, stored := setNC st.stored nc merged }

/-- `releaseCounters(nodeClaim, releasedITs)` -/
def St.release (st : St) (nc : NC) (its : List IT) : St :=
  match st.stored.lookup nc with
  | none => st
  | some old =>
    let left := old.filter (fun x => !its.contains x.1)
    let delta := maxOf old - maxOf left
    { remaining := if delta > 0 then st.remaining + delta else st.remaining,
      stored := if left.isEmpty then st.stored.filter (fun e => e.1 != nc) else setNC st.stored nc left }

inductive Op
  | commit (nc : NC) (new : List (IT × Int))
  | release (nc : NC) (its : List IT)
deriving Repr

def step (st : St) : Op → St
  | .commit nc new => st.commit nc new
  | .release nc its => st.release nc its

def run (st : St) : List Op → St
  | [] => st
  | op :: ops => run (step st op) ops

/-- what `checkCounters` guarantees about the allocation that is committed in state `st`: for every instance type the
    devices chosen consume a non-negative amount that fits the remaining budget
    (`remaining − allocating ≥ consumption` is tested before every device is added to `allocating`) -/
def fits (st : St) (new : List (IT × Int)) : Bool := new.all (fun x => decide (0 ≤ x.2) && decide (x.2 ≤ st.remaining))

/-- every commit of the sequence is one the allocator's guard lets through -/
def guarded (st : St) : List Op → Bool
  | [] => true
  | .commit nc new :: ops => fits st new && guarded (st.commit nc new) ops
  | .release nc its :: ops => guarded (st.release nc its) ops

/-- the worst case the tracker accounts for: Σ over NodeClaims of the maximum over their instance types -/
def worst : List (NC × List (IT × Int)) → Int
  | [] => 0
  | e :: r => maxOf e.2 + worst r

/-- the units consumed by the devices of `ds` that are already allocated in the cluster -/
def preConsumed (pre : List String) : List (String × Int) → Int
  | [] => 0
  | d :: ds => (if pre.contains d.1 then d.2 else 0) + preConsumed pre ds

end Karp.DraBudget
