/-
Model of `NodeClaimTemplate.ToNodeClaim` / `resolveCustomLabelsFromRequirements`
(pkg/controllers/provisioning/scheduling/nodeclaimtemplate.go): which labels, taints, annotations and
requirement entries end up on the NodeClaim written to the API.  Instance-type truncation is modelled in
`Karp/Model/Catalog.lean` (C19); here the instance-type requirement is just one more key of `reqs`.
-/
import Karp.Model.Req
import Karp.Gen.Template

namespace Karp.Template
open Karp.Req

def simulationKeys : List String := Karp.Gen.Template.simulationKeys

/-- keys for which `resolveCustomLabelsFromRequirements` materialises a label -/
def customKey (k : String) : Bool :=
  !(Karp.Gen.Labels.wellKnownLabels.contains k || Karp.Gen.Labels.restrictedLabels.contains k || simulationKeys.contains k)

structure Tmpl where
  labels        : List (String × String)   -- NodeClaimTemplate.Labels (template labels + nodepool + nodeclass label)
  taints        : List String
  startupTaints : List String
  hash          : String
  hashVersion   : String
  reqs          : Reqs                     -- NodeClaimTemplate.Requirements after scheduling
deriving Repr

structure NC where
  labels          : List (String × String)
  taints          : List String
  startupTaints   : List String
  hash            : String
  hashVersion     : String
  requirementKeys : List String
  selectors       : List Sel

/-- `lo.Assign(a, b)`: entries of `b` take precedence -/
def assign (a b : List (String × String)) : List (String × String) := b ++ a

/-- `resolveCustomLabelsFromRequirements` is random (`Any()`): `resolved` is an allowed outcome iff every entry
    is a custom key with a non-empty value `Any()` may return, and every custom key without an entry may
    return the empty string -/
def resolvedAllowed (t : Tmpl) (resolved : List (String × String)) : Bool :=
  resolved.all (fun (k, v) => customKey k && v != "" &&
    (match t.reqs.lookup k with | some r => r.anyAllowed v | none => false))
  && t.reqs.all (fun (k, r) => !customKey k || (resolved.lookup k).isSome || r.anyAllowed "")

def toNodeClaim (t : Tmpl) (resolved : List (String × String)) : NC :=
  let kept := t.reqs.filter (fun (k, _) => !simulationKeys.contains k)
  { labels := assign t.labels resolved, taints := t.taints, startupTaints := t.startupTaints,
    hash := t.hash, hashVersion := t.hashVersion,
    requirementKeys := kept.map (·.1),
    selectors := kept.flatMap (fun (_, r) => r.toSelectors) }

theorem lookup_assign (a b : List (String × String)) (k : String) :
    (assign a b).lookup k = (b.lookup k).or (a.lookup k) := List.lookup_append

theorem lookup_assign_right (a b : List (String × String)) (k v : String) (h : b.lookup k = some v) :
    (assign a b).lookup k = some v := by
  rw [lookup_assign, h]; rfl

theorem lookup_assign_left (a b : List (String × String)) (k v : String) (h : a.lookup k = some v)
    (hb : b.lookup k = none) : (assign a b).lookup k = some v := by
  rw [lookup_assign, hb, h]; rfl

theorem filtered_keys (t : Tmpl) (resolved : List (String × String)) (k : String)
    (hk : simulationKeys.contains k = true) : ((toNodeClaim t resolved).requirementKeys.contains k) = false := by
  simp only [toNodeClaim]
  cases hc : (List.map (·.1) (List.filter (fun (x : String × Req) => !simulationKeys.contains x.1) t.reqs)).contains k with
  | false => rfl
  | true =>
    have hm : k ∈ List.map (·.1) (List.filter (fun (x : String × Req) => !simulationKeys.contains x.1) t.reqs) := by
      simpa using hc
    obtain ⟨p, hp, hpk⟩ := List.mem_map.mp hm
    have := (List.mem_filter.mp hp).2
    have hpk' : p.1 = k := hpk
    rw [hpk', hk] at this
    simp at this

end Karp.Template
