/-
Model of the static-NodePool controllers around `NodePoolState` (one static pool, named `np`; the static-drift pass
also over several pools):

* `pkg/controllers/static/provisioning/controller.go` `Reconcile` (sync gate, counts, `ReserveNodeCount`, one
  `Provisioner.Create` per granted slot, `ReleaseNodeCount` per slot in `CreateNodeClaims`);
* `pkg/controllers/static/deprovisioning/controller.go` `Reconcile` (counts, candidates: unlaunched first, then
  launched nodes the cluster state does not know to be deleting; `Delete`; `MarkNodeClaimDeleting`);
* what `state.Cluster` forwards to the pool state: `UpdateNodeClaim` (a provider-id change is `Cleanup` followed
  by `UpdateNodeClaim`), `DeleteNodeClaim` (`Cleanup`).

The pool state itself is the model of `Karp/Model/PoolState.lean` (code as it is).  Which candidates the
deprovisioning controller picks depends on Go map iteration and on generated names: the step takes the
implementation's choice and says whether it is an allowed one.  Core Lean only.
-/
import Karp.Model.PoolState

namespace Karp.StaticPool
open Karp.PoolState

/-- the pool -/
def np : Name := 1

structure Claim where
  id : Nat
  launched : Bool
  /-- deletionTimestamp set in the API -/
  apiDeleting : Bool
  /-- the cluster state knows the node as marked for deletion (it has seen the deletionTimestamp) -/
  stateDeleting : Bool
  /-- the cluster state has an entry for the NodeClaim (false after a restart until an update arrives) -/
  inState : Bool := true
deriving Repr, DecidableEq

structure World where
  st : State
  claims : List Claim
  next : Nat
  replicas : Int
  limit : Option Int
  hasSynced : Bool
  /-- `kubeClient.Create(NodeClaim)` calls so far -/
  creates : Nat
  /-- positions of the Create calls that fail (fault injection) -/
  fail : List Nat
  panicked : Bool := false
  /-- some `Cleanup` so far garbage-collected an entry holding pending claims / a reservation (`PoolState.lossy`) -/
  lossy : Bool := false

def World.init (replicas : Int) (limit : Option Int) (fail : List Nat) : World :=
  { st := State.init, claims := [], next := 2, replicas := replicas, limit := limit, hasSynced := false,
    creates := 0, fail := fail }

def releaseN (v : Variant) (s : State) : Nat → Option State
  | 0 => some s
  | n + 1 => match release v s np 1 with
    | some s' => releaseN v s' n
    | none => none

/-- `static/provisioning` `Reconcile`; the second component is the error class it returns -/
def provision (w : World) : World × String :=
  -- `!c.cluster.HasSynced() && !c.cluster.Synced(ctx)`: Synced() is false while a NodeClaim known to the state has
  -- no provider id, or the state does not know every NodeClaim of the API yet
  let unsynced := w.claims.any (fun c => (c.inState && !c.launched) || !c.inState)
  if !w.hasSynced && unsynced then (w, "")
  else
    let w := { w with hasSynced := true }
    let c := counts w.st np
    match provisionWanted c.1 c.2.2 w.replicas with
    | none => (w, "")
    | some wanted =>
      let r := reserve w.st np (nodeLimit w.limit) wanted
      let g := r.2
      if g ≤ 0 then ({ w with st := r.1 }, "")
      else
        let n := g.toNat
        let positions := (List.range n).map (· + w.creates)
        let ok := (positions.filter (fun k => !w.fail.contains k)).length
        -- every successful Create: cluster.UpdateNodeClaim (unlaunched: Active)
        let ids := (List.range ok).map (· + w.next)
        let st1 := ids.foldl (fun s id => update s np id false) r.1
        let newClaims := ids.map (fun id => ({ id := id, launched := false, apiDeleting := false, stateDeleting := false } : Claim))
        match releaseN .asIs st1 n with
        | some st2 =>
          ({ w with st := st2, claims := w.claims ++ newClaims, next := w.next + ok, creates := w.creates + n },
           if ok < n then "error" else "")
        | none =>
          ({ w with st := st1, claims := w.claims ++ newClaims, next := w.next + ok, creates := w.creates + n, panicked := true }, "panic")

def count (p : Claim → Bool) (l : List Claim) : Nat := (l.filter p).length

/-- `static/deprovisioning` `Reconcile`, given the NodeClaims the implementation deleted: `none` when that choice is
    not an allowed one -/
def deprovision (w : World) (deleted : List Nat) : Option World :=
  let c := counts w.st np
  let n := deprovisionCount c.1 w.replicas
  let unresolved := w.claims.filter (fun c => !c.launched && !c.apiDeleting)
  let resolved := w.claims.filter (fun c => c.launched && !c.stateDeleting && c.inState)
  let nUn := min n unresolved.length
  let nRes := min (n - nUn) resolved.length
  -- a launched candidate whose deletionTimestamp the cluster state has not seen yet may be picked again: deleting it
  -- again changes nothing that can be observed (it already is in the Deleting set)
  let fresh := resolved.filter (fun c => !c.apiDeleting)
  let stale := resolved.length - fresh.length
  let delUn := deleted.filter (fun i => unresolved.any (·.id == i))
  let delRes := deleted.filter (fun i => fresh.any (·.id == i))
  if deleted.eraseDups.length == deleted.length && delUn.length + delRes.length == deleted.length &&
     delUn.length == nUn && delRes.length ≤ nRes && nRes ≤ delRes.length + stale then
    some { w with
      st := deleted.foldl (fun s i => markDeleting s np i) w.st
      claims := w.claims.map (fun c => if deleted.contains c.id then { c with apiDeleting := true } else c) }
  else none

/-- the provider launches every unlaunched NodeClaim that is not being deleted; the cluster state sees the provider
    id appear: `cleanupNodeClaim` (→ `Cleanup`) then `NodePoolState.UpdateNodeClaim` -/
def cleanupL (acc : State × Bool) (id : Nat) : State × Bool :=
  (cleanup .asIs acc.1 id, acc.2 || lossy acc.1 (.cleanup id))

def launchAll (w : World) : World :=
  let todo := w.claims.filter (fun c => !c.launched && !c.apiDeleting)
  let r := todo.foldl (fun acc c => let a := cleanupL acc c.id; (update a.1 np c.id false, a.2)) (w.st, w.lossy)
  { w with
    st := r.1
    lossy := r.2
    claims := w.claims.map (fun c => if !c.launched && !c.apiDeleting then { c with launched := true, inState := true } else c) }

/-- every NodeClaim with a deletionTimestamp disappears: `DeleteNodeClaim` → `Cleanup` -/
def reap (w : World) : World :=
  let gone := w.claims.filter (·.apiDeleting)
  let r := gone.foldl (fun acc c => cleanupL acc c.id) (w.st, w.lossy)
  { w with
    st := r.1
    lossy := r.2
    claims := w.claims.filter (fun c => !c.apiDeleting) }

/-- the informer delivers an update for every NodeClaim: `Cluster.UpdateNodeClaim`; a launched one is marked for
    deletion when its deletionTimestamp is set, an unlaunched one has no state node and counts as Active -/
def sync (w : World) : World :=
  { w with
    st := w.claims.foldl (fun s c => update s np c.id (c.launched && (c.apiDeleting || c.stateDeleting))) w.st
    claims := w.claims.map (fun c =>
      if c.launched && c.apiDeleting then { c with stateDeleting := true, inState := true } else { c with inState := true }) }

/-- the process restarts: the cluster state (and with it the pool state and every reservation) starts empty -/
def restart (w : World) : World :=
  { w with st := State.init, hasSynced := false,
           claims := w.claims.map (fun c => { c with stateDeleting := false, inState := false }) }

/-- `markDisrupted` on the `i`-th launched NodeClaim that is not being deleted -/
def pend (w : World) (i : Nat) : World :=
  match (w.claims.filter (fun c => c.launched && !c.apiDeleting))[i]? with
  | some c => { w with st := markPending w.st np c.id }
  | none => w

/-! ### One static-drift round: `StaticDrift.ComputeCommands`, then `Queue.StartCommand` per command -/

structure DriftResult where
  st : State
  commands : Nat
  started : Nat
  failed : Nat
  created : Nat
  panicked : Bool

/-- `StartCommand` for the command of pool `p` whose candidate is `cand`: `lost` = the candidate's Node is gone when it
    is tainted (`markDisrupted` fails, early return); `createOk` = the replacement NodeClaim could be created (fresh
    name `new`) -/
def startCommandP (p : Name) (s : State) (cand new : Nat) (lost createOk : Bool) : Option (State × Bool × Bool) :=
  if lost then
    -- returns before `createReplacementNodeClaims`; whether the slot is given back on this path is what the source
    -- says now (regenerated `startCommandReleasesEarly`; at the pinned commit it is not)
    if Karp.Gen.C03Pool.startCommandReleasesEarly then
      match release .asIs s p 1 with
      | none => none
      | some s' => some (s', false, false)
    else some (s, false, false)
  else
    let s1 := markPending s p cand
    let s2 := if createOk then update s1 p new false else s1
    match release .asIs s2 p 1 with              -- `CreateNodeClaims` releases the slot whether or not Create succeeded
    | none => none
    | some s3 => some (if createOk then markDeleting s3 p cand else s3, createOk, createOk)

def startCommand (s : State) (cand new : Nat) (lost createOk : Bool) : Option (State × Bool × Bool) :=
  startCommandP np s cand new lost createOk

/-- the commands of a pool, one `StartCommand` after the other -/
def driftGoP (p : Name) (g : Nat) (lost createFail : List Nat) (next : Nat) (s : State) (i creates created started failed : Nat) :
    List Nat → DriftResult
  | [] => { st := s, commands := g, started := started, failed := failed, created := created, panicked := false }
  | cand :: rest =>
    let isLost := lost.contains i
    let createOk := !createFail.contains creates
    match startCommandP p s cand (next + created) isLost createOk with
    | none => { st := s, commands := g, started := started, failed := failed, created := created, panicked := true }
    | some (s', ok, made) =>
      driftGoP p g lost createFail next s' (i + 1) (if isLost then creates else creates + 1)
        (if made then created + 1 else created) (if ok then started + 1 else started) (if ok then failed else failed + 1) rest

def driftGo (g : Nat) (lost createFail : List Nat) (next : Nat) (s : State) (i creates created started failed : Nat)
    (todo : List Nat) : DriftResult :=
  driftGoP np g lost createFail next s i creates created started failed todo

/-! #### How many drifts `ComputeCommands` asks `ReserveNodeCount` for

`maxDrifts := lo.Min([]int64{…})`: the arguments by class, as the source has them now (regenerated
`Karp.Gen.C03Pool.staticDriftCapArgs`): 0 = the pool's disruption budget, 1 = the number of drifted candidates of the
pool being processed, 2 = the number of drifted candidates of ALL pools of the pass. -/

def capArg (budget own all : Nat) : Nat → Nat
  | 0 => budget
  | 1 => own
  | _ => all

/-- `lo.Min` (zero for an empty slice) -/
def driftCap (args : List Nat) (budget own all : Nat) : Nat :=
  match args with
  | [] => 0
  | a :: rest => rest.foldl (fun m x => min m (capArg budget own all x)) (capArg budget own all a)

/-- one pool of a drift pass -/
structure PoolIn where
  /-- the pool's name -/
  p : Name
  replicas : Int
  limit : Option Int
  /-- `disruptionBudgetMapping[np.Name]` -/
  budget : Nat
  /-- its drifted candidates in the order `ComputeCommands` takes them (never empty in the real pass: `lo.GroupBy`) -/
  cands : List Nat
  lost : List Nat
  createFail : List Nat
  /-- fresh NodeClaim names for its replacements start here -/
  next : Nat

/-- the body of the loop of `ComputeCommands` for one pool, `all` = number of candidates of the whole pass:
    the state after `ReserveNodeCount` and the number of commands, `none` = `npCandidates[:maxAllowedDrifts]` is out of
    range (the reservation just taken stays) -/
def computeOne (args : List Nat) (all : Nat) (s : State) (P : PoolIn) : State × Option Nat :=
  let c := counts s P.p
  if P.budget = 0 || P.cands.isEmpty || ((c.1 + c.2.2 : Nat) : Int) > P.replicas then (s, some 0)
  else
    let r := reserve s P.p (nodeLimit P.limit) (driftCap args P.budget P.cands.length all : Nat)
    if r.2.toNat > P.cands.length then (r.1, none) else (r.1, some r.2.toNat)

/-- `ComputeCommands` over all pools: every pool with the number of its commands; `none` = it panicked -/
def computeAll (args : List Nat) (all : Nat) : State → List PoolIn → State × Option (List (PoolIn × Nat))
  | s, [] => (s, some [])
  | s, P :: rest =>
    match computeOne args all s P with
    | (s', none) => (s', none)
    | (s', some g) =>
      match computeAll args all s' rest with
      | (s'', none) => (s'', none)
      | (s'', some todo) => (s'', some ((P, g) :: todo))

structure PassResult where
  st : State
  panicked : Bool
  /-- per pool, in the order of the input; empty when `ComputeCommands` panicked -/
  results : List DriftResult

/-- `StartCommand` for every command (pool after pool: commands of different pools touch different entries) -/
def startAll : State → List (PoolIn × Nat) → PassResult
  | s, [] => { st := s, panicked := false, results := [] }
  | s, (P, g) :: rest =>
    let r := driftGoP P.p g P.lost P.createFail P.next s 0 0 0 0 0 (P.cands.take g)
    if r.panicked then { st := r.st, panicked := true, results := [r] }
    else
      let t := startAll r.st rest
      { st := t.st, panicked := t.panicked, results := r :: t.results }

def totalCands (pools : List PoolIn) : Nat := (pools.map (·.cands.length)).foldl (· + ·) 0

/-- one static-drift pass over several pools: `ComputeCommands` (all reservations), then the `StartCommand`s -/
def driftPass (args : List Nat) (s : State) (pools : List PoolIn) : PassResult :=
  match computeAll args (totalCands pools) s pools with
  | (s', none) => { st := s', panicked := true, results := [] }
  | (s', some todo) => startAll s' todo

/-- `cands`: the drifted candidates in the order `ComputeCommands` takes them; fresh names start at `next`
    (a pass over the single pool `np`) -/
def driftRound (s : State) (replicas : Int) (limit : Option Int) (budget : Nat) (cands : List Nat)
    (lost createFail : List Nat) (next : Nat) : DriftResult :=
  let P : PoolIn := { p := np, replicas := replicas, limit := limit, budget := budget, cands := cands, lost := lost,
                      createFail := createFail, next := next }
  match computeOne Karp.Gen.C03Pool.staticDriftCapArgs cands.length s P with
  | (s', none) => { st := s', commands := 0, started := 0, failed := 0, created := 0, panicked := true }
  | (s', some g) => driftGo g lost createFail next s' 0 0 0 0 0 (cands.take g)

def live (w : World) : Nat := count (fun c => !c.apiDeleting) w.claims
def deleting (w : World) : Nat := count (·.apiDeleting) w.claims

/-! ### The static pool next to the pod-driven provisioner

`nodepoolutils.IsStatic` is `np.Spec.Replicas != nil` (regenerated: `Karp.Gen.C03Pool.isStaticExpr`);
`Provisioner.NewScheduler` drops every NodePool for which it holds before it builds the NodeClaim templates, so the
solver can open NodeClaims only in the pools that are left; `IsStaticPredicateFuncs` and
`NodeClaimEventHandler(WithStaticOnly)` route by the same test. -/

/-- `nodepoolutils.IsStatic` -/
def isStatic (replicas : Option Int) : Bool :=
  match replicas with
  | some _ => true
  | none => false

structure PoolDecl where
  name : Name
  replicas : Option Int
deriving Repr

/-- the NodePools `NewScheduler` keeps -/
def offered (pools : List PoolDecl) : List PoolDecl := pools.filter (fun p => !isStatic p.replicas)

/-- a pod-driven pass: whatever pools the solver would like to open NodeClaims in (`choice`, one entry per NodeClaim), it
    has templates only for the offered ones -/
def podPassOpens (pools : List PoolDecl) (choice : List Name) : List Name :=
  choice.filter (fun n => (offered pools).any (·.name == n))

def addedTo (p : Name) (opened : List Name) : Nat := (opened.filter (· == p)).length

/-- the pass seen from the static pool `np`: nothing changes but the sync flag (`Cluster.Synced` was true) -/
def podPass (w : World) (ran : Bool) : World := if ran then { w with hasSynced := true } else w

/-- `Provisioner.Reconcile` runs the pass only when `Cluster.Synced`: no NodeClaim known to the state is unlaunched -/
def podPassRuns (w : World) (otherUnlaunched : Nat) : Bool :=
  !(w.claims.any (fun c => !c.launched)) && otherUnlaunched == 0

/-- what the static watches let through: (IsStatic, Create, Update, Delete, Generic, requests of a NodeClaim event for
    the static controllers, requests of the plain NodeClaim handler) -/
def route (replicas : Option Int) (claimLabelled claimOfPool : Bool) : Bool × Bool × Bool × Bool × Bool × Nat × Nat :=
  let s := isStatic replicas
  (s, s, s, s, s, if s && claimOfPool then 1 else 0, if claimLabelled then 1 else 0)

end Karp.StaticPool
