/-
Model of the disruption orchestration protocol (C08), as the code is:

* `pkg/controllers/disruption/queue.go`      — `Queue.StartCommand`, `markDisrupted`, `createReplacementNodeClaims`,
                                                `Reconcile`, `waitOrTerminate`, `CompleteCommand`, `GetMaxRetryDuration`
* `pkg/controllers/disruption/controller.go` — the sync gate and the stale taint / condition cleanup at the top of
                                                `Controller.Reconcile`
* `pkg/controllers/disruption/types.go`      — `NewCandidate`'s "already being disrupted / marked for deletion" filter
* `pkg/controllers/state/statenode.go`       — `RequireNoScheduleTaint`, `ClearNodeClaimsCondition` (incl. their retry loops)
* `pkg/controllers/state/cluster.go`         — `MarkForDeletion` / `UnmarkForDeletion` (every listed provider id that the
                                                state still knows; unknown ids are skipped), `NodeClaimExists`, `Synced`,
                                                `DeleteNode` / `DeleteNodeClaim` (a candidate that goes away on its own)
* `pkg/controllers/provisioning/provisioner.go` — `CreateNodeClaims` / `Create` (NodePool lookup, API create, state update)

Every API call is a *call site key* with an occurrence counter; the fault plan (part of the world) says which
occurrences fail and how.  All theorems quantify over every world, hence over every fault plan.
Core Lean only.  Constants come from the regenerated `Karp.Gen.OrchQueue`.
-/
import Karp.Gen.OrchQueue

namespace Karp.OrchQueue

/-! ### generic list update -/

def updAt {α : Type} : List α → Nat → (α → α) → List α
  | [], _, _ => []
  | a :: t, 0, f => f a :: t
  | a :: t, i + 1, f => a :: updAt t i f

/-! ### API call sites, fault plans -/

/-- call-site keys: the object a call is about makes the key, so that the per-key order of calls is the program
    order of one worker even where the code fans out over candidates / replacements in parallel -/
inductive Key
  | getNode (i : Nat) | patchNode (i : Nat)
  | getNC (i : Nat) | statusNC (i : Nat) | delNC (i : Nat)
  | getPool (i : Nat)
  | createRepl (k i : Nat) | getRepl (k i : Nat)
deriving DecidableEq, Repr

structure Fault where
  key : Key
  start : Nat
  count : Nat
  notFound : Bool      -- class: `true` = NotFound, `false` = any other (retriable) error
deriving DecidableEq, Repr

inductive Outcome | ok | notFound | err
deriving DecidableEq, Repr

def countOf : List (Key × Nat) → Key → Nat
  | [], _ => 0
  | (k', n) :: t, k => if k' = k then n else countOf t k

def bump : List (Key × Nat) → Key → List (Key × Nat)
  | [], k => [(k, 1)]
  | (k', n) :: t, k => if k' = k then (k', n + 1) :: t else (k', n) :: bump t k

def faultAt : List Fault → Key → Nat → Option Bool
  | [], _, _ => none
  | f :: t, k, n => if f.key = k ∧ f.start ≤ n ∧ n < f.start + f.count then some f.notFound else faultAt t k n

/-! ### state -/

/-- a replacement NodeClaim as the API server has it -/
inductive RApi | absent | pending | launched | init
deriving DecidableEq, Repr

structure Cand where
  taint : Bool := false            -- API: Node carries karpenter.sh/disrupted:NoSchedule
  cond : Bool := false             -- API: NodeClaim has the DisruptionReason condition
  deleting : Bool := false         -- API: NodeClaim has a deletionTimestamp
  mark : Bool := false             -- cluster state: StateNode.markedForDeletion
  owner : Option Nat := none       -- Queue.ProviderIDToCommand[providerID]
  gone : Bool := false             -- Node and NodeClaim no longer exist in the API and the cluster state has forgotten
                                   -- the StateNode (somebody else removed the node / its termination finished)
deriving DecidableEq, Repr

structure Repl where
  named : Bool := false            -- cmd.Replacements[i].Name is set
  latched : Bool := false          -- cmd.Replacements[i].Initialized
  api : RApi := .absent
  known : Bool := false            -- cluster.NodeClaimExists(name)
  cpid : Bool := false             -- the cluster state has a provider id for it (else `Synced` is false)
  created : Bool := false          -- ghost: a NodeClaim was created for it
  everInit : Bool := false         -- ghost: it reported Initialized at some point
deriving DecidableEq, Repr

structure Cmd where
  cands : List Nat                 -- as computed by the method
  live : List Nat := []            -- cmd.Candidates after `markDisrupted`
  repls : List Repl
  started : Bool := false
  succeeded : Bool := false
  createdAt : Int := 0
  issued : Bool := false           -- ghost: a Delete has been issued on behalf of this command
deriving DecidableEq, Repr

structure DelEvent where
  cand : Nat
  repls : List RApi
  ok : Bool
deriving DecidableEq, Repr

/-- how the retry timeout is applied in `waitOrTerminate` (regenerated fact `Karp.Gen.OrchQueue.timeoutMode`) -/
inductive TimeoutMode
  | wrapAll      -- deferred wrapper, unguarded: every result of a pass past the window becomes unrecoverable
  | wrapErr      -- deferred wrapper guarded by `err != nil`
  | waitOnly     -- the window is only consulted while replacements are being waited for
deriving DecidableEq, Repr

def TimeoutMode.ofCode : Nat → TimeoutMode
  | 0 => .wrapAll
  | 1 => .wrapErr
  | _ => .waitOnly

structure World where
  cands : List Cand
  cmds : List Cmd
  now : Int := 0
  counts : List (Key × Nat) := []
  faults : List Fault := []
  fired : Nat := 0                 -- faults fired in the current step
  missing : List Nat := []         -- replacement pools that do not exist
  retrySteps : Nat := 4            -- retry.DefaultBackoff.Steps
  mode : TimeoutMode := .wrapAll
deriving Repr

/-- outcome of the next occurrence of call `k` under the plan -/
def callOutcome (w : World) (k : Key) : Outcome :=
  match faultAt w.faults k (countOf w.counts k) with
  | none => .ok
  | some true => .notFound
  | some false => .err

/-- one API call: count the occurrence, consult the plan -/
def call (w : World) (k : Key) : Outcome × World :=
  (callOutcome w k,
   { w with counts := bump w.counts k, fired := w.fired + (if callOutcome w k = .ok then 0 else 1) })

/-- `retry.OnError(retry.DefaultBackoff, err is not NotFound, body)` -/
def retry : Nat → (World → Outcome × World) → World → Outcome × World
  | 0, _, w => (.err, w)
  | n + 1, body, w =>
    match body w with
    | (.err, w') => if n = 0 then (.err, w') else retry n body w'
    | r => r

def candAt (w : World) (i : Nat) : Cand := (w.cands[i]?).getD {}
def cmdAt (w : World) (k : Nat) : Cmd := (w.cmds[k]?).getD { cands := [], repls := [] }
def setCand (w : World) (i : Nat) (f : Cand → Cand) : World := { w with cands := updAt w.cands i f }
def setCmd (w : World) (k : Nat) (f : Cmd → Cmd) : World := { w with cmds := updAt w.cmds k f }
def setRepl (w : World) (k i : Nat) (f : Repl → Repl) : World :=
  setCmd w k (fun c => { c with repls := updAt c.repls i f })

/-! ### `state.RequireNoScheduleTaint` for one node -/

def taintAttempt (add : Bool) (i : Nat) (w : World) : Outcome × World :=
  match call w (.getNode i) with
  | (.ok, w1) =>
    if (candAt w1 i).gone then (.notFound, w1)       -- the API has no such Node
    else if (candAt w1 i).taint = add then (.ok, w1) -- nothing to change: no patch is sent
    else
      match call w1 (.patchNode i) with
      | (.ok, w2) => (.ok, setCand w2 i (fun c => { c with taint := add }))
      | r => r
  | r => r

/-- returns whether an error is reported (NotFound is swallowed by `client.IgnoreNotFound`) -/
def taintNode (add : Bool) (i : Nat) (w : World) : Bool × World :=
  match retry w.retrySteps (taintAttempt add i) w with
  | (.err, w') => (true, w')
  | (_, w') => (false, w')

/-! ### the DisruptionReason condition -/

/-- `markDisrupted`: refresh the NodeClaim, set the condition, status-patch (always sent) -/
def condSetAttempt (i : Nat) (w : World) : Outcome × World :=
  match call w (.getNC i) with
  | (.ok, w1) =>
    if (candAt w1 i).gone then (.notFound, w1) else  -- the API has no such NodeClaim
    match call w1 (.statusNC i) with
    | (.ok, w2) => (.ok, setCand w2 i (fun c => { c with cond := true }))
    | r => r
  | r => r

def condSet (i : Nat) (w : World) : Bool × World :=
  match retry w.retrySteps (condSetAttempt i) w with
  | (.err, w') => (true, w')
  | (_, w') => (false, w')

/-- `state.ClearNodeClaimsCondition` for one node: the patch is only sent when the condition is present -/
def condClearAttempt (i : Nat) (w : World) : Outcome × World :=
  match call w (.getNC i) with
  | (.ok, w1) =>
    if (candAt w1 i).gone then (.notFound, w1)       -- the API has no such NodeClaim
    else if (candAt w1 i).cond = false then (.ok, w1)
    else
      match call w1 (.statusNC i) with
      | (.ok, w2) => (.ok, setCand w2 i (fun c => { c with cond := false }))
      | r => r
  | r => r

def condClear (i : Nat) (w : World) : Bool × World :=
  match retry w.retrySteps (condClearAttempt i) w with
  | (.err, w') => (true, w')
  | (_, w') => (false, w')

/-! ### `Queue.markDisrupted` -/

def markOne (i : Nat) (w : World) : Bool × World :=
  match taintNode true i w with
  | (true, w1) => (true, w1)
  | (false, w1) => condSet i w1

/-- marked candidates (in order), whether any candidate failed -/
def markAll : List Nat → World → List Nat × Bool × World
  | [], w => ([], false, w)
  | i :: is, w =>
    match markOne i w with
    | (e, w1) =>
      match markAll is w1 with
      | (m, anyErr, w2) => (if e then m else i :: m, e || anyErr, w2)

/-! ### `Provisioner.CreateNodeClaims` for the replacements of command `k` -/

def createOne (k i : Nat) (w : World) : Bool × World :=
  match call w (.getPool i) with
  | (.ok, w1) =>
    if w1.missing.contains i then (true, w1)
    else
      match call w1 (.createRepl k i) with
      | (.ok, w2) =>
        -- API create + `cluster.UpdateNodeClaim` (no provider id yet)
        (false, setRepl w2 k i (fun r => { r with api := .pending, known := true, cpid := false, created := true }))
      | (_, w2) => (true, w2)
  | (_, w1) => (true, w1)

def createAll (k : Nat) : Nat → Nat → World → Bool × World
  | 0, _, w => (false, w)
  | n + 1, i, w =>
    match createOne k i w with
    | (e, w1) =>
      match createAll k n (i + 1) w1 with
      | (e', w2) => (e || e', w2)

/-! ### `Queue.StartCommand` (preceded by the candidate filter of `NewCandidate` when `via`) -/

inductive Res
  | ok | skip | noop
  | notcand | busy | mark | launch                    -- start
  | nocmd | requeue | succeeded | failed              -- reconcile
  | unsynced | fail                                   -- cleanup
deriving DecidableEq, Repr

def owned (w : World) (i : Nat) : Bool := (candAt w i).owner.isSome
/-- `StateNode.MarkedForDeletion()` -/
def markObs (c : Cand) : Bool := c.mark || c.deleting

def startCommand (k : Nat) (via : Bool) (w : World) : Res × World :=
  let c := cmdAt w k
  if k ≥ w.cmds.length || c.started then (.skip, w)
  -- a node the cluster state does not know is nobody's candidate (`GetCandidates` ranges over the state nodes)
  else if c.cands.any (fun i => (candAt w i).gone) then (.notcand, w)
  -- `NewCandidate`: already being disrupted, or deleting / marked for deletion
  else if via && c.cands.any (fun i => owned w i || markObs (candAt w i)) then (.notcand, w)
  else
    let w := setCmd w k (fun c => { c with started := true, createdAt := w.now })
    if c.cands.any (owned w) then (.busy, w)
    else
      match markAll c.cands w with
      | (marked, anyErr, w1) =>
        if anyErr && (c.repls.length > 0 || marked.isEmpty) then (.mark, w1)
        else
          let w2 := setCmd w1 k (fun c => { c with live := marked })
          match createAll k c.repls.length 0 w2 with
          | (true, w3) => (.launch, w3)
          | (false, w3) =>
            let w4 := setCmd w3 k (fun c => { c with repls := c.repls.map (fun r => { r with named := true }) })
            -- cluster.MarkForDeletion, then the queue map
            let w5 := marked.foldl (fun w i => setCand w i (fun c => { c with mark := true, owner := some k })) w4
            (.ok, w5)

/-! ### `Queue.waitOrTerminate` -/

def retryDuration (entries : Nat) : Int :=
  let d : Nat := Karp.Gen.OrchQueue.retryDurationScaleNs * entries
  let d := if d < Karp.Gen.OrchQueue.minRetryDurationNs then Karp.Gen.OrchQueue.minRetryDurationNs else d
  let d := if d > Karp.Gen.OrchQueue.maxRetryDurationNs then Karp.Gen.OrchQueue.maxRetryDurationNs else d
  (d : Int)

def queueEntries (w : World) : Nat := (w.cands.filter (fun c => c.owner.isSome)).length

inductive WaitRes | ready | waiting | gone
deriving DecidableEq, Repr

def WaitRes.andWaiting : WaitRes → WaitRes
  | .gone => .gone
  | _ => .waiting

/-- the loop over the replacements: latch those that report Initialized, stop at one that is gone -/
def waitLoop (K : Nat) : List Repl → Nat → World → List Repl × WaitRes × World
  | [], _, w => ([], .ready, w)
  | r :: rs, i, w =>
    if r.latched then
      match waitLoop K rs (i + 1) w with
      | (rs', res, w') => (r :: rs', res, w')
    else
      match call w (.getRepl K i) with
      | (o, w1) =>
        if o = .err then
          match waitLoop K rs (i + 1) w1 with
          | (rs', res, w') => (r :: rs', res.andWaiting, w')
        else if o = .notFound || r.api = .absent then
          -- NotFound: unrecoverable once the cluster state no longer knows the NodeClaim either
          if !r.known then (r :: rs, .gone, w1)
          else
            match waitLoop K rs (i + 1) w1 with
            | (rs', res, w') => (r :: rs', res.andWaiting, w')
        else if r.api = .init then
          match waitLoop K rs (i + 1) w1 with
          | (rs', res, w') => ({ r with latched := true } :: rs', res, w')
        else
          match waitLoop K rs (i + 1) w1 with
          | (rs', res, w') => (r :: rs', res.andWaiting, w')

/-- `retry.OnError(…, Delete)` for one candidate: every attempt is a Delete call (an event); NotFound ends the loop
    without error (`client.IgnoreNotFound`) -/
def delTry (ci : Nat) (snap : List RApi) : Nat → World → Bool × List DelEvent × World
  | 0, w => (true, [], w)
  | n + 1, w =>
    match call w (.delNC ci) with
    | (.ok, w1) =>
      -- the call reaches the API; for a NodeClaim that no longer exists it answers NotFound, which ends the loop without error
      if (candAt w1 ci).gone then (false, [{ cand := ci, repls := snap, ok := true }], w1)
      else (false, [{ cand := ci, repls := snap, ok := true }], setCand w1 ci (fun c => { c with deleting := true }))
    | (.notFound, w1) => (false, [{ cand := ci, repls := snap, ok := false }], w1)
    | (.err, w1) =>
      if n = 0 then (true, [{ cand := ci, repls := snap, ok := false }], w1)
      else
        match delTry ci snap n w1 with
        | (e, evs, w2) => (e, { cand := ci, repls := snap, ok := false } :: evs, w2)

def delAll (snap : List RApi) : List Nat → World → Bool × List DelEvent × World
  | [], w => (false, [], w)
  | ci :: cs, w =>
    match delTry ci snap w.retrySteps w with
    | (e, evs, w1) =>
      match delAll snap cs w1 with
      | (e', evs', w2) => (e || e', evs ++ evs', w2)

def untaintAll : List Nat → World → World
  | [], w => w
  | i :: is, w => untaintAll is (taintNode false i w).2

def clearAll : List Nat → World → World
  | [], w => w
  | i :: is, w => clearAll is (condClear i w).2

/-- the failure branch of `Reconcile` + `CompleteCommand`: `UnmarkForDeletion` and the queue-map removal range over ALL
    candidates of the command; a candidate that is gone (unknown to the cluster state) is skipped, the others are
    unmarked all the same -/
def failCommand (K : Nat) (w : World) : World :=
  let live := (cmdAt w K).live
  let w1 := clearAll live (untaintAll live w)
  live.foldl (fun w i => setCand w i (fun c => { c with mark := false, owner := none })) w1

def succeedCommand (K : Nat) (w : World) : World :=
  let live := (cmdAt w K).live
  let w1 := setCmd w K (fun c => { c with succeeded := true })
  live.foldl (fun w i => setCand w i (fun c => { c with owner := none })) w1

/-- `q.clock.Since(cmd.CreationTimestamp) > retryDuration` -/
def timedOut (w : World) (c : Cmd) : Bool := w.now - c.createdAt > retryDuration (queueEntries w)

/-- is a pass that reached the delete phase reported as an unrecoverable failure? -/
def failsLate (m : TimeoutMode) (late delErr : Bool) : Bool :=
  match m with
  | .wrapAll => late
  | .wrapErr => late && delErr
  | .waitOnly => false

/-- `Queue.Reconcile` for the NodeClaim of candidate `ci`: result, the Delete calls issued, new world -/
def reconcileCand (ci : Nat) (w : World) : Res × List DelEvent × World :=
  match (candAt w ci).owner with
  | none => (.nocmd, [], w)
  | some K =>
    match waitLoop K (cmdAt w K).repls 0 w with
    | (repls', wres, w1) =>
      match wres with
      | .gone => (.failed, [], failCommand K (setCmd w1 K (fun c => { c with repls := repls' })))
      | .waiting =>
        if timedOut w (cmdAt w K) then (.failed, [], failCommand K (setCmd w1 K (fun c => { c with repls := repls' })))
        else (.requeue, [], setCmd w1 K (fun c => { c with repls := repls' }))
      | .ready =>
        match delAll (repls'.map (·.api)) (cmdAt w K).live (setCmd w1 K (fun c => { c with repls := repls' })) with
        | (delErr, evs, w3) =>
          if failsLate w.mode (timedOut w (cmdAt w K)) delErr then
            (.failed, evs, failCommand K (setCmd w3 K (fun c => { c with issued := c.issued || !evs.isEmpty })))
          else if delErr then (.requeue, evs, setCmd w3 K (fun c => { c with issued := c.issued || !evs.isEmpty }))
          else (.succeeded, evs, succeedCommand K (setCmd w3 K (fun c => { c with issued := c.issued || !evs.isEmpty })))

def reconcile (k on : Nat) (w : World) : Res × List DelEvent × World :=
  let c := cmdAt w k
  if k ≥ w.cmds.length || !c.started then (.skip, [], w)
  else
    let ci := (c.cands[on]?).getD (c.cands.headD 0)
    reconcileCand ci w

/-! ### the disruption controller's sync gate and stale-mark cleanup -/

def synced (w : World) : Bool :=
  w.cmds.all (fun c => c.repls.all (fun r => !r.known || r.cpid))

/-- candidates neither in the queue nor marked for deletion (in candidate order); the pass ranges over the nodes of the
    cluster state, so a candidate that is gone is not visited -/
def outdatedFrom (cs : List Cand) (i : Nat) : List Nat :=
  match cs with
  | [] => []
  | c :: t => if c.owner.isSome || markObs c || c.gone then outdatedFrom t (i + 1) else i :: outdatedFrom t (i + 1)

def untaintAllE : List Nat → World → Bool × World
  | [], w => (false, w)
  | i :: is, w =>
    match taintNode false i w with
    | (e, w1) => match untaintAllE is w1 with | (e', w2) => (e || e', w2)

def clearAllE : List Nat → World → Bool × World
  | [], w => (false, w)
  | i :: is, w =>
    match condClear i w with
    | (e, w1) => match clearAllE is w1 with | (e', w2) => (e || e', w2)

def cleanup (w : World) : Res × World :=
  if !synced w then (.unsynced, w)
  else
    let out := outdatedFrom w.cands 0
    match untaintAllE out w with
    | (true, w1) => (.fail, w1)
    | (false, w1) =>
      match clearAllE out w1 with
      | (true, w2) => (.fail, w2)
      | (false, w2) => (.ok, w2)

/-! ### environment: replacements launch / initialize / vanish, informer sync, process restart -/

inductive EnvOp | launch | init | vanish | vanishStale
deriving DecidableEq, Repr

def envRepl (op : EnvOp) (r : Repl) : Repl :=
  if r.api = .absent then r else
  match op with
  | .launch => { r with api := (if r.api = .pending then .launched else r.api), known := true, cpid := true }
  | .init => { r with api := .init, known := true, cpid := true, everInit := true }
  | .vanish => { r with api := .absent, known := false }
  | .vanishStale => { r with api := .absent }

def replAt (w : World) (k i : Nat) : Option Repl := ((w.cmds[k]?).bind (fun c => c.repls[i]?))

def envStep (op : EnvOp) (k i : Nat) (w : World) : Res × World :=
  match replAt w k i with
  | none => (.noop, w)
  | some r => if r.api = .absent then (.noop, w) else (.ok, setRepl w k i (envRepl op))

/-- a candidate goes away on its own while actions may be in flight: its Node and NodeClaim are removed from the API
    (finalizers done) and the informers make the cluster state forget the StateNode (`DeleteNodeClaim` + `DeleteNode`).
    Nothing of it is left to carry a taint, a condition or a deletion mark; the queue map is NOT told. -/
def vanishCand : Cand → Cand :=
  fun c => { c with gone := true, taint := false, cond := false, deleting := false, mark := false }

def candGone (i : Nat) (w : World) : Res × World :=
  if i < w.cands.length && !(candAt w i).gone then (.ok, setCand w i vanishCand) else (.noop, w)

def syncRepl (r : Repl) : Repl :=
  if r.created then { r with known := r.api != .absent, cpid := r.api = .launched || r.api = .init } else r

def syncAll (w : World) : World :=
  { w with cmds := w.cmds.map (fun c => { c with repls := c.repls.map syncRepl }) }

/-- a new process on the same API objects: empty queue, fresh cluster state hydrated from the API -/
def restart (w : World) : World :=
  syncAll { w with cands := w.cands.map (fun c => { c with mark := false, owner := none }) }

/-! ### histories -/

inductive Step
  | start (k : Nat) (via : Bool)
  | reconcile (k on : Nat)
  | advance (ns : Int)
  | env (op : EnvOp) (k i : Nat)
  | candGone (i : Nat)
  | sync
  | restart
  | cleanup
deriving DecidableEq, Repr

def step (w0 : World) (s : Step) : Res × List DelEvent × World :=
  let w := { w0 with fired := 0 }
  match s with
  | .start k via => let (r, w') := startCommand k via w; (r, [], w')
  | .reconcile k on => reconcile k on w
  | .advance ns => (.ok, [], if ns > 0 then { w with now := w.now + ns } else w)
  | .env op k i => let (r, w') := envStep op k i w; (r, [], w')
  | .candGone i => let (r, w') := candGone i w; (r, [], w')
  | .sync => (.ok, [], syncAll w)
  | .restart => (.ok, [], restart w)
  | .cleanup => let (r, w') := cleanup w; (r, [], w')

def run (w : World) : List Step → World
  | [] => w
  | s :: ss => run (step w s).2.2 ss

/-- what the harness observes: result, Delete calls and world after every step -/
def trace (w : World) : List Step → List (Res × List DelEvent × World)
  | [] => []
  | s :: ss => step w s :: trace (step w s).2.2 ss

/-! ### a disruption pass of the controller over commands computed by a method

`Controller.disrupt` hands every command the method returned to `Queue.StartCommand` (after the candidate filter of
`GetCandidates`).  Which commands a method computes is the method's business; for the orchestration protocol a pass
is the run of `start` steps of the commands it computed.  `PStep.pass` stands for one pass; `expand` replaces the
`j`-th pass by the starts of the `ns[j]` commands it computed, numbered consecutively in start order. -/

def passSteps (first n : Nat) : List Step := (List.range n).map (fun j => Step.start (first + j) true)

inductive PStep
  | pass
  | plain (s : Step)
deriving DecidableEq, Repr

def expand : Nat → List Nat → List PStep → List Step
  | _, _, [] => []
  | next, ns, .plain s :: t => s :: expand next ns t
  | next, [], .pass :: t => expand next [] t
  | next, n :: ns, .pass :: t => passSteps next n ++ expand (next + n) ns t

def initWorld (ncands : Nat) (cmds : List (List Nat × Nat)) (faults : List Fault) (missing : List Nat)
    (retrySteps : Nat) (mode : TimeoutMode) : World :=
  { cands := List.replicate ncands {}
    cmds := cmds.map (fun (cs, n) => { cands := cs, repls := List.replicate n {} })
    faults := faults, missing := missing, retrySteps := retrySteps, mode := mode }

end Karp.OrchQueue
