/-
Model of the consolidation decision logic (C06), as the code is:

* `pkg/cloudprovider/types.go`          — `Offerings.Available/Compatible/MostExpensive/Cheapest/WorstLaunchPrice`,
                                          `InstanceTypes.Compatible/SatisfiesMinValues`, `InstanceType.OfferingPrice`
* `pkg/controllers/provisioning/scheduling/nodeclaim.go`
                                        — `NodeClaim.RemoveInstanceTypeOptionsByPriceAndMinValues`,
                                          the reserved pin of `FinalizeScheduling` / `offeringsToReserve`
* `pkg/controllers/disruption/consolidation.go`
                                        — `computeConsolidation`, `computeSpotToSpotConsolidation`
* `pkg/controllers/disruption/multinodeconsolidation.go`
                                        — `filterOutSameInstanceType` and the validity test of `firstNConsolidationOption`
* `pkg/controllers/disruption/validation.go`, `helpers.go`
                                        — `validateCommand`, `instanceTypesAreSubset`, `requirementsAreSubset`
* `pkg/controllers/disruption/types.go`, `pkg/utils/disruption` — `resolveNodePrice`, `Candidate.IsEmpty`,
                                          `computeRescheduleDisruptionCost`, `EvictionCost`

The scheduling simulation itself (`SimulateScheduling`) is an INPUT of the model (`Sim`): any result of the
scheduler (C01's subject).  `OrderByPrice` is C19's subject: the claim's option list is taken as already ordered.

Prices are `float64` in the code and only compared or summed; the model uses `Nat` on the 1/1024 grid,
`math.MaxFloat64` is `none`.  Constants and the capacity-type precedence come from `Karp.Gen.C06Facts`.
Core Lean only.
-/
import Karp.Model.Req
import Karp.Gen.C06Facts

namespace Karp.Consolidate
open Karp.Req

def zoneKey : String := "topology.kubernetes.io/zone"
def ctKey : String := Karp.Gen.C06Facts.capacityTypeKey
def spot : String := Karp.Gen.C06Facts.ctSpot
def onDemand : String := Karp.Gen.C06Facts.ctOnDemand
def reserved : String := Karp.Gen.C06Facts.ctReserved

/-- an `Offering`: its requirements are `zone In [zone]`, `capacity-type In [ct]` and, on the provider's
    reservation-id label, `In [resID]` for a reserved offering and `DoesNotExist` otherwise -/
structure Offering where
  zone      : String
  ct        : String
  price     : Nat
  available : Bool
  resID     : String := ""
deriving Repr, DecidableEq

structure IType where
  name      : String
  offerings : List Offering
  /-- `it.Requirements.Get(key).Values()` for the keys that may carry minValues -/
  vals      : List (String × List String) := []
deriving Repr, DecidableEq

/-! ### Offering compatibility: `reqs.IsCompatible(of.Requirements, AllowUndefinedWellKnownLabels)` -/

/-- incoming `key In [v]` against the claim's requirements: an undefined key is allowed (the three offering
    keys are well known), a defined one must admit `v` (`HasIntersection` with `In [v]` is `Has v`; `In` never
    tolerates absence) -/
def admitsIn (R : Reqs) (k v : String) : Bool :=
  match R.lookup k with
  | none => true
  | some r => r.has v

/-- incoming `key DoesNotExist`: an undefined key is fine, a defined one must tolerate absence
    (`HasIntersection` with the empty set is false, so both sides must be `NotIn`/`DoesNotExist`) -/
def admitsAbsent (R : Reqs) (k : String) : Bool :=
  match R.lookup k with
  | none => true
  | some r => r.absentOk

def offeringCompat (ridKey : String) (R : Reqs) (o : Offering) : Bool :=
  admitsIn R zoneKey o.zone && admitsIn R ctKey o.ct &&
  (if o.ct == reserved then admitsIn R ridKey o.resID else admitsAbsent R ridKey)

/-- `Offerings.Available()` -/
def available (ofs : List Offering) : List Offering := ofs.filter (·.available)

/-- `Offerings.Compatible(reqs)` -/
def compatible (ridKey : String) (R : Reqs) (ofs : List Offering) : List Offering := ofs.filter (offeringCompat ridKey R)

/-- `Offerings.MostExpensive().Price` (`lo.MaxBy` with `a.Price > b.Price`): `none` on the empty list -/
def dearest : List Offering → Option Nat
  | [] => none
  | o :: os => some (os.foldl (fun m x => if x.price > m then x.price else m) o.price)

/-- `Offerings.Cheapest().Price` -/
def cheapest : List Offering → Option Nat
  | [] => none
  | o :: os => some (os.foldl (fun m x => if x.price < m then x.price else m) o.price)

/-- the loop of `WorstLaunchPrice` over the precedence list -/
def worstLoop (ofs : List Offering) : List String → Option Nat
  | [] => none
  | ct :: rest =>
    let c := ofs.filter (·.ct == ct)
    if c.isEmpty then worstLoop ofs rest else dearest c

/-- `Offerings.WorstLaunchPrice(reqs)`; `none` = `math.MaxFloat64` -/
def worstLaunchPrice (ridKey : String) (R : Reqs) (ofs : List Offering) : Option Nat :=
  worstLoop (compatible ridKey R ofs) Karp.Gen.C06Facts.worstLaunchPrecedence

/-- `a < b` on prices with `none` = `math.MaxFloat64` -/
def priceLt : Option Nat → Option Nat → Bool
  | some a, some b => decide (a < b)
  | some _, none => true
  | none, _ => false

/-! ### minValues: `InstanceTypes.SatisfiesMinValues` -/

/-- the keys of the requirements that carry minValues, with their floor -/
def minKeys (R : Reqs) : List (String × Int) :=
  R.filterMap (fun (k, r) => r.minValues.map (fun m => (k, m)))

def hasMinValues (R : Reqs) : Bool := !(minKeys R).isEmpty

def valsOf (it : IType) (k : String) : List String := (it.vals.lookup k).getD []

/-- do the instance types `its` offer at least `m` distinct values for every minValues key? -/
def minSatisfied (mk : List (String × Int)) (its : List IType) : Bool :=
  mk.all (fun (k, m) => decide (m ≤ ((its.flatMap (fun it => valsOf it k)).eraseDups.length : Int)))

/-- the least prefix length (≥ 1) that satisfies every floor, searched from length `n + 1 - fuel` upwards -/
def firstSatisfying (mk : List (String × Int)) (its : List IType) : Nat → Nat → Option Nat
  | 0, _ => none
  | fuel + 1, i => if minSatisfied mk (its.take i) then some i else firstSatisfying mk its fuel (i + 1)

/-- `SatisfiesMinValues`: (minNeededInstanceTypes, error?) -/
def satisfiesMinValues (R : Reqs) (its : List IType) : Nat × Bool :=
  let mk := minKeys R
  if mk.isEmpty then (0, false) else
  match firstSatisfying mk its its.length 1 with
  | some i => (i, false)
  | none => (its.length, !its.isEmpty)

/-! ### The price filter -/

def launchPrice (ridKey : String) (R : Reqs) (it : IType) : Option Nat :=
  worstLaunchPrice ridKey R (available it.offerings)

/-- `RemoveInstanceTypeOptionsByPriceAndMinValues(reqs, maxPrice)`: `none` = an error is returned -/
def removeByPrice (ridKey : String) (R : Reqs) (maxPrice : Option Nat) (its : List IType) : Option (List IType) :=
  let kept := its.filter (fun it => priceLt (launchPrice ridKey R it) maxPrice)
  if (satisfiesMinValues R kept).2 then none else some kept

/-- `InstanceTypes.Compatible(reqs)`: some available offering is compatible -/
def compatibleTypes (ridKey : String) (R : Reqs) (its : List IType) : List IType :=
  its.filter (fun it => (available it.offerings).any (offeringCompat ridKey R))

/-! ### Candidates -/

structure Cand where
  name      : String
  itName    : String
  zone      : String
  ct        : String
  /-- the offerings of the candidate's instance type in the NodePool's catalog (`[]` = unknown type) -/
  offerings : List Offering
deriving Repr, DecidableEq

/-- `resolveNodePrice` / `InstanceType.OfferingPrice`: the FIRST offering with the node's zone and capacity
    type, whether available or not; 0 when there is none -/
def Cand.price (c : Cand) : Nat :=
  match c.offerings.find? (fun o => o.zone == c.zone && o.ct == c.ct) with
  | some o => o.price
  | none => 0

/-- `sumCandidatePrices` -/
def sumPrices (cs : List Cand) : Nat := (cs.map Cand.price).sum

/-! ### computeConsolidation -/

structure Claim where
  reqs : Reqs
  /-- instance-type options, in the order `OrderByPrice` left them -/
  its  : List IType
deriving Repr

/-- what `SimulateScheduling` returned, as far as the decision looks at it -/
structure Sim where
  /-- `results.AllNonPendingPodsScheduled()` (the uninitialized-node guard turns placements on uninitialized
      nodes into pod errors before this is read) -/
  allScheduled : Bool
  claims : List Claim
deriving Repr

/-- `replace R kept n`: the replacement's final requirements and its options `kept.take n` (`n < kept.length`
    only where spot-to-spot truncates) -/
inductive Decision
  | noop
  | delete
  | replace (reqs : Reqs) (kept : List IType) (n : Nat)
deriving Repr

/-- the instance-type options of the replacement -/
def Decision.its : Decision → List IType
  | .replace _ kept n => kept.take n
  | _ => []

def Decision.reqs : Decision → Reqs
  | .replace R _ _ => R
  | _ => []

def Decision.isReplace : Decision → Bool
  | .replace _ _ _ => true
  | _ => false

def spotReq : Req := { key := ctKey, complement := false, values := [spot] }

/-- the sort key of `OrderByPrice(reqs)`: the cheapest available compatible offering -/
def orderKey (ridKey : String) (R : Reqs) (it : IType) : Option Nat :=
  cheapest (compatible ridKey R (available it.offerings))

def minSpot : Nat := Karp.Gen.C06Facts.minInstanceTypesForSpotToSpot

/-- `computeSpotToSpotConsolidation` -/
def spotToSpot (ridKey : String) (gate : Bool) (nCands : Nat) (c : Claim) (price : Nat) : Decision :=
  if !gate then .noop else
  let R' := c.reqs.add1 spotReq
  let its1 := compatibleTypes ridKey R' c.its
  match removeByPrice ridKey R' (some price) its1 with
  | none => .noop
  | some kept =>
    if kept.isEmpty then .noop
    else if nCands > 1 then .replace R' kept kept.length
    else if kept.length < minSpot then .noop
    else if hasMinValues R' then .replace R' kept (max minSpot (satisfiesMinValues R' kept).1)
    else .replace R' kept minSpot

/-- `computeConsolidation` after the simulation -/
def compute (ridKey : String) (gate : Bool) (cands : List Cand) (sim : Sim) : Decision :=
  if !sim.allScheduled then .noop else
  match sim.claims with
  | [] => .delete
  | [c] =>
    let price := sumPrices cands
    let allSpot := cands.all (fun cn => cn.ct == spot)
    let ctReq := c.reqs.get ctKey
    if allSpot && ctReq.has spot then spotToSpot ridKey gate cands.length c price
    else
      match removeByPrice ridKey c.reqs (some price) c.its with
      | none => .noop
      | some kept =>
        if kept.isEmpty then .noop
        else
          let R' := if ctReq.has spot && ctReq.has onDemand then c.reqs.add1 spotReq else c.reqs
          .replace R' kept kept.length
  | _ => .noop

/-! ### Multi-node: `filterOutSameInstanceType` -/

/-- the offerings of the candidate's type compatible with the node's labels (zone and capacity type equal
    the node's; availability is not looked at) -/
def Cand.ownOfferings (c : Cand) : List Offering := c.offerings.filter (fun o => o.zone == c.zone && o.ct == c.ct)

/-- `pricesByInstanceType`: the cheapest own offering among the candidates of that type (`none` = no entry) -/
def typePrice (cands : List Cand) (itName : String) : Option Nat :=
  cheapest ((cands.filter (fun c => c.itName == itName)).flatMap Cand.ownOfferings)

/-- the `maxPrice` loop: over the replacement's options that are also a candidate's type; a missing map entry
    reads as 0 -/
def sameTypeMax (cands : List Cand) (its : List IType) : Option Nat :=
  its.foldl (fun m it =>
    if cands.any (fun c => c.itName == it.name) then
      let p := (typePrice cands it.name).getD 0
      if priceLt (some p) m then some p else m
    else m) none

/-- one step of `firstNConsolidationOption` after `computeConsolidation`: the command it would save, if valid -/
def multiStep (ridKey : String) (gate : Bool) (cands : List Cand) (sim : Sim) : Decision :=
  match compute ridKey gate cands sim with
  | .noop => .noop
  | .delete => .delete
  | .replace R kept0 n =>
    let its := kept0.take n
    match removeByPrice ridKey R (sameTypeMax cands its) its with
    | none => .noop
    | some kept => if kept.isEmpty then .noop else .replace R kept kept.length

/-! ### Validation -/

/-- `instanceTypesAreSubset(lhs, rhs)` on names.  The code builds two `sets.String` and tests
    `len(rhs ∩ lhs) == len(lhs)`, which for sets says `lhs ⊆ rhs`; the model states the set meaning. -/
def namesSubset (lhs rhs : List String) : Bool := lhs.all rhs.contains

/-- `requirementsAreSubset(lhs, rhs)` (validation.go), as the code is: for every key `rhs` constrains,
    `l := lhs.Get(key)` (an undefined key reads as `Exists`) and `l.Intersection(r).Len() == l.Len()`.
    The test compares the SIZES `Requirement.Len` reports (`MaxInt64 - |excluded|` for a complement set), so it is
    exact for plain value sets only: numeric bounds do not show in `Len`, and neither does "the label may be
    absent" (`Get` turns an undefined key into `Exists`, the empty set is a subset of everything) — see
    `C06_len_test_inexact_for_bounds` / `C06_len_test_ignores_absence` in `Props/C06.lean`. -/
def reqsSubset (lhs rhs : Reqs) : Bool :=
  rhs.all (fun (k, r) => let l := lhs.get k; (l.inter r).len == l.len)

/-- `validateCommand`: `cmdRepl` = the requirements and the option names of the command's replacement
    (`none` = a delete), `re` = the re-simulation -/
def validateCommand (cmdRepl : Option (Reqs × List String)) (re : Sim) : Bool :=
  re.allScheduled &&
  match re.claims, cmdRepl with
  | [], none => true
  | [], some _ => false
  | [_], none => false
  | [c], some (R, names) => namesSubset names (c.its.map (·.name)) && reqsSubset R c.reqs
  | _, _ => false

/-! ### Emptiness -/

structure PodCost where
  /-- the pod-deletion-cost annotation (an integer), if present and parsable -/
  delCost : Option Int
  /-- `spec.priority` -/
  prio : Option Int
deriving Repr, DecidableEq

def costScale : Nat := max Karp.Gen.C06Facts.evictionDelExp Karp.Gen.C06Facts.evictionPrioExp

/-- `EvictionCost(p) · 2^costScale` -/
def evictionCostScaled (p : PodCost) : Int :=
  let raw := Karp.Gen.C06Facts.evictionBase * (2 : Int) ^ costScale
    + (p.delCost.getD 0) * (2 : Int) ^ (costScale - Karp.Gen.C06Facts.evictionDelExp)
    + (p.prio.getD 0) * (2 : Int) ^ (costScale - Karp.Gen.C06Facts.evictionPrioExp)
  let lo := Karp.Gen.C06Facts.evictionClampLo * (2 : Int) ^ costScale
  let hi := Karp.Gen.C06Facts.evictionClampHi * (2 : Int) ^ costScale
  if raw < lo then lo else if raw > hi then hi else raw

/-- `computeRescheduleDisruptionCost` minus the per-node base, scaled -/
def podCostSum (pods : List PodCost) : Int := (pods.map (fun p => max 0 (evictionCostScaled p))).sum

/-- `Candidate.IsEmpty`: `RescheduleDisruptionCost <= PerNodeBaseDisruptionCost` over the reschedulable pods -/
def isEmpty (pods : List PodCost) : Bool := decide (podCostSum pods ≤ 0)

/-! ### Emptiness: validation of the command after the delay (`validation.go`, `emptiness.go`)

`Emptiness.ComputeCommands` builds its command from the candidates that are empty when it runs, waits
`commandValidationDelay`, and RETURNS THE COMMAND `EmptinessValidator.Validate` RETURNS: the same command with its
candidates narrowed to those that are still candidates after the wait.  Nodes are names; what `GetCandidates` (filter
`Emptiness.ShouldDisrupt`, which asks `IsEmpty`) returns after the wait is the input `current`. -/

/-- `mapCandidates(proposed, current)` (helpers.go): the CURRENT candidates whose name is among the proposed ones -/
def mapCandidates (proposed current : List String) : List String := current.filter proposed.contains

/-- the `lo.Filter` that ends `EmptinessValidator.validateCandidates`: a candidate is dropped when it is nominated or
    its NodePool's budget is used up; a kept one uses up one disruption of its pool (a pool without an entry reads as
    0, as a Go map does) -/
def budgetFilter (poolOf : String → String) (nominated : String → Bool) : List (String × Nat) → List String → List String
  | _, [] => []
  | b, n :: ns =>
    if nominated n then budgetFilter poolOf nominated b ns else
    match (b.lookup (poolOf n)).getD 0 with
    | 0 => budgetFilter poolOf nominated b ns
    | k + 1 => n :: budgetFilter poolOf nominated ((poolOf n, k) :: b) ns

/-- `EmptinessValidator.Validate` after the wait: the candidates of the command it returns; `none` = a validation
    error (churn: no candidate of the command is a candidate any more; budget: none of those left may be disrupted) -/
def emptinessValidate (poolOf : String → String) (nominated : String → Bool) (budgets : List (String × Nat))
    (cmd current : List String) : Option (List String) :=
  let v := mapCandidates cmd current
  if v.isEmpty then none else
  let w := budgetFilter poolOf nominated budgets v
  if w.isEmpty then none else some w

/-- `Emptiness.ComputeCommands` from `Validate` on: the candidates of the command it returns (`[]` = no command) -/
def emptinessRelease (poolOf : String → String) (nominated : String → Bool) (budgets : List (String × Nat))
    (cmd current : List String) : List String :=
  (emptinessValidate poolOf nominated budgets cmd current).getD []

/-! ### The launch cap: `Results.TruncateInstanceTypes` (scheduler.go) over `InstanceTypes.Truncate` (types.go)

`SimulateScheduling` cuts every new NodeClaim of the solver's result to the `MaxInstanceTypes` cheapest options before
`computeConsolidation` / `validateCommand` read it.  A NodeClaim whose cut option list no longer meets the NodePool's
minValues (Strict policy) is DROPPED from the result — and each of its pods is entered into the result's `PodErrors`,
which is what keeps `AllNonPendingPodsScheduled` from reporting a simulation that silently lost pods. -/

/-- a new NodeClaim of a scheduling result with the pods the solver put on it -/
structure PClaim where
  pods  : List String
  claim : Claim
deriving Repr

/-- `InstanceTypes.Truncate(ctx, reqs, maxItems)`: the first `cap` options of the price-ordered list (`OrderByPrice` is
    C19's); `none` = the minValues error, returned under the Strict policy only -/
def truncateTypes (strict : Bool) (cap : Nat) (R : Reqs) (its : List IType) : Option (List IType) :=
  let t := its.take cap
  if hasMinValues R && strict && (satisfiesMinValues R t).2 then none else some t

/-- `Results.TruncateInstanceTypes`: the NodeClaims that remain (cut to the cap) and the pods ADDED to `PodErrors` -/
def truncateResults (strict : Bool) (cap : Nat) : List PClaim → List PClaim × List String
  | [] => ([], [])
  | c :: cs =>
    let r := truncateResults strict cap cs
    match truncateTypes strict cap c.claim.reqs c.claim.its with
    | none => (r.1, c.pods ++ r.2)
    | some t => ({ c with claim := { c.claim with its := t } } :: r.1, r.2)

/-- `SimulateScheduling`'s result as `computeConsolidation` reads it, from the solver's result (`errs` = the solver's
    own errors for non-pending pods): all scheduled ⇔ no error is left after the cut -/
def simAfterCap (strict : Bool) (cap : Nat) (errs : List String) (claims : List PClaim) : Sim :=
  let r := truncateResults strict cap claims
  { allScheduled := (errs ++ r.2).isEmpty, claims := r.1.map (·.claim) }

/-! ### The scheduler's reserved pin (`offeringsToReserve` at the last `Add`, `FinalizeScheduling`) -/

/-- `offeringsToReserve` with the `ReservedCapacity` gate on and every reservation still having capacity:
    every available reserved offering of the remaining instance types compatible with the requirements -/
def offeringsToReserve (ridKey : String) (gate : Bool) (R : Reqs) (its : List IType) : List Offering :=
  if !gate then [] else
  its.flatMap (fun it => it.offerings.filter (fun o => o.ct == reserved && o.available && offeringCompat ridKey R o))

def reservedReq : Req := { key := ctKey, complement := false, values := [reserved] }

/-- `FinalizeScheduling`: with reserved offerings tracked, the capacity type is OVERWRITTEN with
    `In [reserved]` and the reservation ids are added -/
def finalize (ridKey : String) (R : Reqs) (reservedOfs : List Offering) : Reqs :=
  if reservedOfs.isEmpty then R else
  (R.set ctKey reservedReq).add1 { key := ridKey, complement := false, values := reservedOfs.map (·.resID) }

end Karp.Consolidate
