/-
RFC 3339 timestamps (C10): how the value of the NodeClaim annotation
`karpenter.sh/nodeclaim-termination-timestamp` is read.

`Controller.nodeTerminationTime` reads the annotation with `time.Parse(time.RFC3339, value)`.  This file is the
reading of RFC 3339 §5.6 `date-time` with the restrictions Go's RFC 3339 parser (`time.parseRFC3339`) makes:

    date-time = 4DIGIT "-" 2DIGIT "-" 2DIGIT "T" 2DIGIT ":" 2DIGIT ":" 2DIGIT [ "." 1*DIGIT ] ( "Z" / ("+"/"-") 2DIGIT ":" 2DIGIT )

upper-case `T` and `Z` only, month 01–12, day 01–(days of that month, Gregorian leap rule), hour 00–23, minute and
second 00–59 (no leap second), zone offset hour 00–23 and minute 00–59; the fraction is read to nanoseconds
(further digits are dropped).  Everything else is not a timestamp.

Core Lean only; lists of characters and `Nat` arithmetic so that the kernel can evaluate it (`by decide`).
-/
namespace Karp.Rfc3339

/-- value of a decimal digit -/
def dig (c : Char) : Option Nat :=
  let n := c.toNat
  if 48 ≤ n && n ≤ 57 then some (n - 48) else none

def isDig (c : Char) : Bool := (dig c).isSome

/-- a non-empty run of decimal digits -/
def numOf : List Char → Option Nat
  | [] => none
  | cs => cs.foldl (fun acc c => match acc, dig c with
      | some a, some d => some (a * 10 + d)
      | _, _ => none) (some 0)

/-- Gregorian leap year -/
def isLeap (y : Nat) : Bool := y % 4 == 0 && (y % 100 != 0 || y % 400 == 0)

def daysIn (y m : Nat) : Nat :=
  if m == 2 then (if isLeap y then 29 else 28)
  else if m == 4 || m == 6 || m == 9 || m == 11 then 30 else 31

/-- days from 1970-01-01 to the civil date `y-m-d` (proleptic Gregorian calendar), `1 ≤ m ≤ 12`.
    Years are counted from March (so the leap day is the last day of the year), in 400-year eras of
    146097 days; the year is shifted by one era so that everything stays in `Nat`. -/
def daysFromCivil (y m d : Nat) : Int :=
  let y' := y + 400 - (if m ≤ 2 then 1 else 0)
  let era := y' / 400
  let yoe := y' % 400
  let mp := (m + 9) % 12
  let doy := (153 * mp + 2) / 5 + d - 1
  let doe := yoe * 365 + yoe / 4 - yoe / 100 + doy
  ((era * 146097 + doe : Nat) : Int) - 719468 - 146097

/-- `"." 1*DIGIT` read as nanoseconds (digits beyond the ninth are dropped) -/
def fracNs (ds : List Char) : Option Nat := numOf ((ds ++ List.replicate 9 '0').take 9)

/-- the zone designator: seconds east of UTC -/
def zoneOffset : List Char → Option Int
  | ['Z'] => some 0
  | [sg, h1, h2, c, m1, m2] =>
    match numOf [h1, h2], numOf [m1, m2] with
    | some hr, some mm =>
      if c == ':' && hr ≤ 23 && mm ≤ 59 then
        if sg == '+' then some (((hr * 60 + mm) * 60 : Nat) : Int)
        else if sg == '-' then some (-(((hr * 60 + mm) * 60 : Nat) : Int))
        else none
      else none
    | _, _ => none
  | _ => none

def nsPerSec : Int := 1000000000

/-- the instant a timestamp denotes, in nanoseconds since 1970-01-01T00:00:00Z; `none` = not a timestamp -/
def parse (cs : List Char) : Option Int :=
  match numOf (cs.take 4), numOf ((cs.drop 5).take 2), numOf ((cs.drop 8).take 2),
        numOf ((cs.drop 11).take 2), numOf ((cs.drop 14).take 2), numOf ((cs.drop 17).take 2) with
  | some year, some month, some day, some hour, some min, some sec =>
    if !((cs.drop 4).take 1 == ['-'] && (cs.drop 7).take 1 == ['-'] && (cs.drop 10).take 1 == ['T']
          && (cs.drop 13).take 1 == [':'] && (cs.drop 16).take 1 == [':']) then none
    else if !(1 ≤ month && month ≤ 12 && 1 ≤ day && day ≤ daysIn year month && hour ≤ 23 && min ≤ 59 && sec ≤ 59) then none
    else
      let rest := cs.drop 19
      let fr : Option (Nat × List Char) :=
        match rest with
        | '.' :: r =>
          let ds := r.takeWhile isDig
          if ds.isEmpty then none else (fracNs ds).map (fun n => (n, r.dropWhile isDig))
        | _ => some (0, rest)
      match fr with
      | none => none
      | some (ns, zone) =>
        match zoneOffset zone with
        | none => none
        | some off =>
          let secs : Int := daysFromCivil year month day * 86400 + ((hour * 3600 + min * 60 + sec : Nat) : Int) - off
          some (secs * nsPerSec + (ns : Int))
  | _, _, _, _, _, _ => none

end Karp.Rfc3339
