/-
Model of the per-candidate admission logic of the scheduler
(`ExistingNode.CanAdd`, `NodeClaim.CanAdd` → `filterInstanceTypesByRequirements` / `fits` / `compatible`,
`newPodRequirements`, `Preferences.Relax`), over the requirement algebra of `Karp.Model.Req`.
Topology and volume-topology enter as an extra requirement set that can only narrow (their own guarantees are C02).
-/
import Karp.Model.Req
import Karp.Spec.Scenario

namespace Karp.Sched
open Karp.Req Karp.Scn

/-! ### Pod requirements (`newPodRequirements`) -/

/-- `Req.new` for operands that cannot panic (the pod was validated: comparison operators carry one value) -/
def newReq (e : KExpr) : Req :=
  match Req.new e.key e.op none e.vals with
  | .ok r => r
  | .error _ => { key := normalizeKey e.key, complement := true, values := [] }

def selectorExprs (sel : Labels) : List KExpr := sel.map (fun (k, v) => { key := k, op := .in_, vals := [v] })

/-- `NewLabelRequirements(nodeSelector)`, then the heaviest preferred term (unless preferences are ignored),
    then the FIRST required term — each added with `Requirements.Add` -/
def podExprs (sel : Labels) (firstTerm : List KExpr) (heaviestPreferred : List KExpr) : List KExpr :=
  selectorExprs sel ++ heaviestPreferred ++ firstTerm

def podReqs (es : List KExpr) : Reqs := Reqs.add [] (es.map newReq)

/-! ### Relaxation (`Preferences.Relax`), node-affinity part -/

structure PodAffinitySpec where
  required : List (List KExpr)
  preferred : List (List KExpr)     -- sorted by weight, heaviest first

/-- `removeRequiredNodeAffinityTerm`: drops the first OR-ed term only while more than one is left -/
def removeRequiredTerm (a : PodAffinitySpec) : Option PodAffinitySpec :=
  match a.required with
  | _ :: t2 :: rest => some { a with required := t2 :: rest }
  | _ => none

/-- `removePreferredNodeAffinityTerm`: drops the heaviest preferred term -/
def removePreferredTerm (a : PodAffinitySpec) : Option PodAffinitySpec :=
  match a.preferred with
  | _ :: rest => some { a with preferred := rest }
  | [] => none

/-- one relaxation step on the node-affinity part, in the order of `Preferences.Relax` -/
def relaxStep (a : PodAffinitySpec) : Option PodAffinitySpec :=
  match removeRequiredTerm a with
  | some a' => some a'
  | none => removePreferredTerm a

/-! ### Existing nodes -/

structure ExNode where
  labels  : Labels                       -- node labels incl. hostname
  taints  : List Taint                   -- `StateNode.Taints()` (ephemeral / startup taints already hidden)
  remCPU  : Int                          -- allocatable − bound pods − pods placed so far − remaining daemon reservation
  remMem  : Int
  remPods : Int
  ports   : List HostPort                -- host ports in use (bound pods + pods placed so far)

structure PodD where
  cpu : Int
  mem : Int
  tolerations : List Toleration
  ports : List HostPort
  exprs : List KExpr                     -- what `podData.Requirements` was built from

/-- `Toleration.ToleratesTaint` -/
def tolerates (tol : Toleration) (t : Taint) : Bool :=
  (tol.effect == "" || tol.effect == t.effect) &&
  (tol.key == "" || tol.key == t.key) &&
  (match tol.operator with
   | "Exists" => true
   | "" => tol.value == t.value
   | "Equal" => tol.value == t.value
   | _ => false)

/-- `Taints.ToleratesPod`: EVERY taint must be tolerated (also `PreferNoSchedule`, until relaxation adds the toleration) -/
def toleratesAll (tols : List Toleration) (taints : List Taint) : Bool :=
  taints.all (fun t => tols.any (fun tol => tolerates tol t))

def wildIP (ip : String) : Bool := ip == "" || ip == "0.0.0.0"
/-- `HostPortUsage.Conflicts` entry test -/
def portConflict (a b : HostPort) : Bool :=
  a.port == b.port && a.proto == b.proto && (wildIP a.ip || wildIP b.ip || a.ip == b.ip)

def portsFree (used new : List HostPort) : Bool := new.all (fun p => !used.any (fun u => portConflict u p))

/-- `resources.Fits(requests, remaining)` on the three tracked resources (a pod consumes one "pods") -/
def fits (cpu mem pods remCPU remMem remPods : Int) : Bool :=
  decide (cpu ≤ remCPU) && decide (mem ≤ remMem) && decide (pods ≤ remPods)

/-- `NewLabelRequirements(labels)` for labels with distinct, already-normalised keys (node labels): one `In [v]` per label -/
def labelReqs (ls : Labels) : Reqs := ls.map (fun (k, v) => (k, { key := k, complement := false, values := [v] }))

/-- `ExistingNode.CanAdd` without topology / volumes: taints, host ports, resources, requirement compatibility
    against the node's (label) requirements with NO undefined keys allowed -/
def existingCanAdd (n : ExNode) (p : PodD) : Bool :=
  toleratesAll p.tolerations n.taints &&
  portsFree n.ports p.ports &&
  fits p.cpu p.mem 1 n.remCPU n.remMem n.remPods &&
  (labelReqs n.labels).compatible (podReqs p.exprs) []

/-- `ExistingNode.Add`: the node's own requirements stay fixed (repaired: they used to absorb the pod's) -/
def existingAdd (n : ExNode) (p : PodD) : ExNode :=
  { n with remCPU := n.remCPU - p.cpu, remMem := n.remMem - p.mem, remPods := n.remPods - 1, ports := n.ports ++ p.ports }

/-! ### `trySchedule` against one existing node: try, relax, try again -/

structure PodSpecM where
  cpu : Int
  mem : Int
  tolerations : List Toleration
  ports : List HostPort
  sel : Labels
  aff : PodAffinitySpec

/-- `updateCachedPodData`: requirements from the node selector, the heaviest preferred term (unless preferences are
    ignored) and the first required term -/
def podDOf (ignorePrefs : Bool) (p : PodSpecM) : PodD :=
  { cpu := p.cpu, mem := p.mem, tolerations := p.tolerations, ports := p.ports,
    exprs := podExprs p.sel (p.aff.required.head?.getD []) (if ignorePrefs then [] else p.aff.preferred.head?.getD []) }

def pnsToleration : Toleration := { key := "", operator := "Exists", value := "", effect := "PreferNoSchedule" }

/-- `Toleration.MatchToleration` against the PreferNoSchedule toleration -/
def hasPNS (ts : List Toleration) : Bool :=
  ts.any (fun t => t.key == "" && t.operator == "Exists" && t.value == "" && t.effect == "PreferNoSchedule")

/-- the `trySchedule` loop restricted to one existing node: `fuel` bounds the (finite) number of relaxations -/
def tryExisting : Nat → ExNode → PodSpecM → Bool → Bool → Bool
  | 0, _, _, _, _ => false
  | f + 1, n, p, ignorePrefs, tolPNS =>
    if existingCanAdd n (podDOf ignorePrefs p) then true else
    match relaxStep p.aff with
    | some a' => tryExisting f n { p with aff := a' } ignorePrefs tolPNS
    | none =>
      if tolPNS && !hasPNS p.tolerations then
        tryExisting f n { p with tolerations := p.tolerations ++ [pnsToleration] } ignorePrefs tolPNS
      else false

/-! ### The scheduler's view of a node (`state.StateNode` accessors at each lifecycle stage) -/

def ephemeralTaint (t : Taint) : Bool :=
  (t.key == "node.kubernetes.io/not-ready" && (t.effect == "NoSchedule" || t.effect == "NoExecute")) ||
  (t.key == "node.kubernetes.io/unreachable" && t.effect == "NoSchedule") ||
  (t.key == "node.cloudprovider.kubernetes.io/uninitialized" && t.effect == "NoSchedule") ||   -- `MatchTaint`: key and effect only
  (t.key == "karpenter.sh/unregistered" && t.effect == "NoExecute") ||
  t.key.startsWith "readiness.k8s.io/"

/-- `Taint.MatchTaint`: same key and effect -/
def matchTaint (a b : Taint) : Bool := a.key == b.key && a.effect == b.effect

/-- labels as `StateNode.Labels()` reports them, plus the hostname requirement `NewExistingNode` adds -/
def viewLabels (s : Scenario) (n : Node) : Labels :=
  let poolLabels : Labels := match s.pool? n.pool with
    | some p => (Karp.Gen.Labels.nodePoolLabelKey, p.name) :: p.labels
    | none => []
  let stageLabels : Labels :=
    if !n.managed then [] else
    if n.stage == "registered" then [("karpenter.sh/registered", "true")]
    else if n.stage == "initialized" then [("karpenter.sh/registered", "true"), ("karpenter.sh/initialized", "true")]
    else []
  n.labels ++ poolLabels ++ stageLabels ++
  [("node.kubernetes.io/instance-type", n.it), ("topology.kubernetes.io/zone", n.zone),
   (Karp.Gen.Labels.capacityTypeLabelKey, n.ct), ("kubernetes.io/arch", "amd64"), ("kubernetes.io/os", "linux"),
   ("kubernetes.io/hostname", n.name)]

/-- `StateNode.Taints()` -/
def viewTaints (s : Scenario) (n : Node) : List Taint :=
  let pool := s.pool? n.pool
  let poolTaints := match pool with | some p => p.taints | none => []
  let startup := match pool with | some p => p.startupTaints | none => []
  let unregistered := n.managed && (n.stage == "claim" || n.stage == "node")
  if unregistered then
    -- the NodeClaim's taints
    poolTaints.filter (fun t => !(ephemeralTaint t || startup.any (fun st => matchTaint st t)))
  else
    let nodeTaints := n.taints ++ poolTaints ++ (if n.managed && n.stage == "registered" then startup else [])
    if n.managed && n.stage != "initialized" then
      nodeTaints.filter (fun t => !(ephemeralTaint t || startup.any (fun st => matchTaint st t)))
    else nodeTaints

/-- is daemonset `d` counted for the node (`isDaemonPodCompatibleWithNode`; daemon pods carry the PreferNoSchedule
    toleration that `isDaemonPodCompatible` adds to them while the overhead groups are built) -/
def dsCounted (d : DaemonSet) (ls : Labels) (taints : List Taint) : Bool :=
  toleratesAll (d.tolerations ++ [pnsToleration]) taints &&
  (labelReqs ls).compatible (podReqs (selectorExprs d.nodeSelector)) []

/-- `NewExistingNode`: what is left on the node for this pass -/
def viewNode (s : Scenario) (n : Node) : Option ExNode :=
  match s.it? n.it with
  | none => none
  | some it =>
    let ls := viewLabels s n
    let taints := viewTaints s n
    let bound := n.pods
    let bCPU := bound.foldl (fun a p => a + p.cpu) 0
    let bMem := bound.foldl (fun a p => a + p.mem) 0
    let daemons := s.daemonsets.filter (fun d => dsCounted d ls taints)
    let bd := bound.filter (·.daemon)
    let rdCPU := max 0 (daemons.foldl (fun a d => a + d.cpu) 0 - bd.foldl (fun a p => a + p.cpu) 0)
    let rdMem := max 0 (daemons.foldl (fun a d => a + d.mem) 0 - bd.foldl (fun a p => a + p.mem) 0)
    let rdPods : Int := max 0 ((daemons.length : Int) - (bd.length : Int))
    some { labels := ls, taints := taints,
           remCPU := it.allocCPU - bCPU - rdCPU, remMem := it.mem - bMem - rdMem,
           remPods := it.pods - (bound.length : Int) - rdPods,
           ports := bound.flatMap (·.hostPorts) }

/-- the scheduler-level pod description of a scenario pod (preferred terms heaviest first, stable) -/
def podSpecOf (p : Pod) : PodSpecM :=
  let prefs := (p.preferred.toArray.insertionSort (fun a b => a.weight > b.weight)).toList
  { cpu := p.cpu, mem := p.mem, tolerations := p.tolerations, ports := p.hostPorts, sel := p.nodeSelector,
    aff := { required := p.required, preferred := prefs.map (·.exprs) } }

end Karp.Sched
namespace Karp.Sched
open Karp.Req Karp.Scn

/-! ### Resource lists (`corev1.ResourceList`: a map resource name ↦ quantity, as an association list)

Quantities are integers in a fixed unit per resource name (cpu: milli-cores, memory: Mi, everything else: a count).
A missing key reads as the zero quantity, as a Go map of `resource.Quantity` does. -/

abbrev ResList := List (String × Int)

def ResList.get (r : ResList) (k : String) : Int := (r.lookup k).getD 0
def ResList.hasKey (r : ResList) (k : String) : Bool := (r.lookup k).isSome

/-- `resources.Fits(candidate, total)`: a negative entry of `total` never fits; every requested quantity must be
    within `total[name]` (zero when `total` lacks the resource) -/
def resFits (cand total : ResList) : Bool :=
  total.all (fun p => decide (0 ≤ p.2)) && cand.all (fun p => decide (p.2 ≤ total.get p.1))

/-- `resources.Merge(a, b)` / `MergeInto`: per-resource sums over the union of the keys -/
def resMerge (a b : ResList) : ResList :=
  a.map (fun p => (p.1, p.2 + b.get p.1)) ++ b.filter (fun p => !a.hasKey p.1)

/-- `lo.Assign(base, over)`: `over` replaces existing keys and adds new ones -/
def resAssign (base over : ResList) : ResList :=
  base.map (fun p => (p.1, (over.lookup p.1).getD p.2)) ++ over.filter (fun p => !base.hasKey p.1)

/-- `resources.Subtract(lhs, rhs)`: only the keys of `lhs` -/
def resSubtract (lhs rhs : ResList) : ResList := lhs.map (fun p => (p.1, p.2 - rhs.get p.1))

/-! ### New NodeClaims: instance types, offerings and allocatable groups (`pkg/cloudprovider/types.go`) -/

/-- an offering as the scheduler sees it inside an allocatable group -/
structure OfferingM where
  reqs : Reqs
  available : Bool

/-- `cloudprovider.Offering`: `capOverride = []` is "no CapacityOverride" (`len == 0`); `ovhOverride = none` is a nil
    `OverheadOverride`, `some t` a non-nil one whose `Total()` is `t` -/
structure OfferingRaw where
  reqs : Reqs
  available : Bool
  capOverride : ResList := []
  ovhOverride : Option ResList := none

/-- `cloudprovider.AllocatableOfferings`: one allocatable and the available offerings that produce it -/
structure AllocGroup where
  alloc : ResList
  offerings : List OfferingM

/-- an instance type after `precompute`: `AllocatableOfferingsList()`, base group first -/
structure ITM where
  name : String
  reqs : Reqs
  groups : List AllocGroup

/-- `cloudprovider.InstanceType` before `precompute` (`overhead` = `Overhead.Total()`; no hugepage resources) -/
structure ITRaw where
  name : String
  reqs : Reqs
  capacity : ResList
  overhead : ResList
  offerings : List OfferingRaw

/-- `computeAllocatable(capacityOverride, overheadOverride)` -/
def computeAlloc (it : ITRaw) (capOverride : ResList) (ovhOverride : Option ResList) : ResList :=
  let capacity := resAssign it.capacity capOverride
  let overhead := match ovhOverride with | some t => resAssign it.overhead t | none => it.overhead
  resSubtract capacity overhead

/-- the allocatable a launch through offering `o` has -/
def allocFor (it : ITRaw) (o : OfferingRaw) : ResList := computeAlloc it o.capOverride o.ovhOverride

abbrev OverrideKey := ResList × Option ResList
def overrideKey (o : OfferingRaw) : OverrideKey := (o.capOverride, o.ovhOverride)
/-- the base group's key: no capacity override and a nil overhead override -/
def baseKey : OverrideKey := ([], none)

/-- distinct elements in order of first appearance -/
def dedup [DecidableEq α] : List α → List α
  | [] => []
  | a :: as => a :: (dedup as).filter (fun b => decide (b ≠ a))

def OfferingRaw.toM (o : OfferingRaw) : OfferingM := { reqs := o.reqs, available := o.available }

/-- `precompute` / `groupOfferingsByOverride`: the AVAILABLE offerings grouped by their (CapacityOverride,
    OverheadOverride) pair in order of first appearance, the base group (no overrides) always first — also when it is
    empty; each group's allocatable is computed from its override pair.  (Go keys the groups by the `%v` rendering of
    the pair; offerings with equal override contents that render differently end up in two groups with the same
    allocatable, which no caller can tell apart from one merged group.) -/
def allocGroups (it : ITRaw) : List AllocGroup :=
  let av := it.offerings.filter (·.available)
  (dedup (baseKey :: av.map overrideKey)).map (fun k =>
    { alloc := computeAlloc it k.1 k.2,
      offerings := (av.filter (fun o => decide (overrideKey o = k))).map OfferingRaw.toM })

def ITRaw.toITM (it : ITRaw) : ITM := { name := it.name, reqs := it.reqs, groups := allocGroups it }

/-! ### `compatible` / `fits` / `filterInstanceTypesByRequirements` (nodeclaim.go) -/

/-- `compatible(it, requirements)` = `it.Requirements.Intersects(requirements) == nil` -/
def itCompatible (it : ITM) (R : Reqs) : Bool := it.reqs.intersects R

/-- `requirements.IsCompatible(of.Requirements, AllowUndefinedWellKnownLabels)` for some offering of the group -/
def groupHasOffering (g : AllocGroup) (R : Reqs) (wellKnown : List String) : Bool :=
  g.offerings.any (fun o => R.compatible o.reqs wellKnown)

/-- the loop of `fits`: groups in order; a group with a compatible offering sets `hasOffering` and returns
    `(true, true)` at once when the requests also fit THAT group's allocatable; otherwise `(false, hasOffering)` -/
def fitsLoop (req : ResList) (R : Reqs) (wellKnown : List String) : List AllocGroup → Bool → Bool × Bool
  | [], has => (false, has)
  | g :: gs, has =>
    if groupHasOffering g R wellKnown then
      if resFits req g.alloc then (true, true) else fitsLoop req R wellKnown gs true
    else fitsLoop req R wellKnown gs has

/-- `fits(it, requests, requirements)` = `(itFits, hasOffering)` -/
def itFits (it : ITM) (req : ResList) (R : Reqs) (wellKnown : List String) : Bool × Bool :=
  fitsLoop req R wellKnown it.groups false

/-- `scheduling.GetHostPorts(pod)`: container ports without a host port are skipped -/
def hostPortsOf (containerPorts : List HostPort) : List HostPort := containerPorts.filter (fun p => p.port != 0)

/-- one daemon-overhead group: the instance types sharing a set of daemons, the daemons' summed requests and the
    `HostPortUsage` (owner pod ↦ host ports) of the group -/
structure Group where
  its : List String
  overhead : ResList
  usage : List (String × List HostPort)

/-- the entries `HostPortUsage.Conflicts(pod, …)` compares with: those reserved by OTHER pods -/
def Group.portsOfOthers (g : Group) (podKey : String) : List HostPort :=
  (g.usage.filter (fun e => e.1 != podKey)).flatMap (·.2)

/-- the (daemon group, instance type) pairs the filter loop evaluates, in loop order: groups whose host ports clash
    with the pod's are skipped, then the group's instance types that are still eligible (Go: pointer membership in
    the set of the NodeClaim's remaining options; here: the option of that name) -/
def filterCandidates (options : List ITM) (groups : List Group) (podKey : String) (podPorts : List HostPort) :
    List (Group × ITM) :=
  groups.flatMap (fun g =>
    if !portsFree (g.portsOfOthers podKey) podPorts then [] else
    (g.its.filterMap (fun n => options.find? (fun it => it.name == n))).map (fun it => (g, it)))

/-- the three criteria of one pair: `(itCompat, itFits, itHasOffering)` with the group's daemon overhead added to the
    requests -/
def criteria (R : Reqs) (total : ResList) (wellKnown : List String) (c : Group × ITM) : Bool × Bool × Bool :=
  (itCompatible c.2 R, itFits c.2 (resMerge total c.1.overhead) R wellKnown)

def meetsAll (v : Bool × Bool × Bool) : Bool := v.1 && v.2.1 && v.2.2

/-- `filterInstanceTypesByRequirements` before the minValues tail: the surviving instance types -/
def filterITs (options : List ITM) (groups : List Group) (R : Reqs) (podKey : String) (podPorts : List HostPort)
    (total : ResList) (wellKnown : List String) : List ITM :=
  ((filterCandidates options groups podKey podPorts).filter (fun c => meetsAll (criteria R total wellKnown c))).map (·.2)

/-- the accumulators of `InstanceTypeFilterError` -/
structure FilterFlags where
  requirementsMet : Bool
  fits : Bool
  hasOffering : Bool
  requirementsAndFits : Bool
  requirementsAndOffering : Bool
  fitsAndOffering : Bool
deriving Repr, DecidableEq

def filterFlags (options : List ITM) (groups : List Group) (R : Reqs) (podKey : String) (podPorts : List HostPort)
    (total : ResList) (wellKnown : List String) : FilterFlags :=
  let vs := (filterCandidates options groups podKey podPorts).map (criteria R total wellKnown)
  { requirementsMet := vs.any (·.1), fits := vs.any (·.2.1), hasOffering := vs.any (·.2.2),
    requirementsAndFits := vs.any (fun v => v.1 && v.2.1 && !v.2.2),
    requirementsAndOffering := vs.any (fun v => v.1 && v.2.2 && !v.2.1),
    fitsAndOffering := vs.any (fun v => v.2.1 && v.2.2 && !v.1) }

/-- `Requirements.HasMinValues` -/
def hasMinValues (R : Reqs) : Bool := R.any (fun p => p.2.minValues.isSome)

/-- `InstanceTypes.SatisfiesMinValues(requirements)`: the keys whose minValues is not reached by the number of distinct
    values the instance types' requirements list for the key, with that number (none for an empty list: the Go loop
    body never runs) -/
def minValuesUnsat (remaining : List ITM) (R : Reqs) : List (String × Nat) :=
  if remaining.isEmpty then [] else
  R.filterMap (fun p =>
    match p.2.minValues with
    | none => none
    | some mv =>
      let n := card (remaining.flatMap (fun it => (it.reqs.get p.1).values))
      if (n : Int) < mv then some (p.1, n) else none)

structure FilterOut where
  remaining : List ITM
  unsat : List (String × Nat)
  /-- `none` = nil error; `some (flags, minValuesIncompatibleErr != nil)` -/
  err : Option (FilterFlags × Bool)

/-- `filterInstanceTypesByRequirements` with the minValues tail: under the strict policy a violated minValues empties
    the result; under the relaxing policy the violated keys are only reported -/
def filterResult (options : List ITM) (groups : List Group) (R : Reqs) (podKey : String) (podPorts : List HostPort)
    (total : ResList) (wellKnown : List String) (relaxMinValues : Bool) : FilterOut :=
  let rem := filterITs options groups R podKey podPorts total wellKnown
  let unsat := if hasMinValues R then minValuesUnsat rem R else []
  let mvErr := !unsat.isEmpty && !relaxMinValues
  let rem' := if mvErr then [] else rem
  if rem'.isEmpty then
    { remaining := [], unsat := unsat, err := some (filterFlags options groups R podKey podPorts total wellKnown, mvErr) }
  else { remaining := rem', unsat := unsat, err := none }

end Karp.Sched
